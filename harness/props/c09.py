"""C09 — S3 transport: transient faults retried, never partial data; permanent statuses classified; tokens.

The real S3ChunkStore / TelstateDataSource.from_url run against a scripted HTTP/1.1 endpoint on 127.0.0.1
(fixtures/s3fake.py); the extracted model (tie) and the extracted spec (property) get the same fault script.
"""
import base64
import itertools
import json
import logging
import os
import shutil
import time
import urllib.parse
import warnings

import numpy as np

RULE = ('a case = (kind chunk|rdb|token, retry configuration (total, connect, read, status, forcelist) or the default '
        '(connect, read) form, stored chunk geometry/dtype (five payloads incl. a zero-size array: header only), per-request fault script for the object requests, bucket '
        'state full|empty|missing, bucket already verified?, fault script for the bucket listing); fault symbols: '
        'status 500/502/503/504/404/401/403/400/416, body cut / RST / stall after k bytes with k in {0, inside magic, '
        'inside header length, inside header, first data byte, second data byte, last data byte}, reset / close / stall '
        'before the response header; all scripts up to a length bound over the fast symbols for the budgets '
        '{0,1,2}^2 plus random longer scripts incl. stalls; token cases = hand-made JWTs over the feature matrix '
        '(segments, header, alg, signature length, payload, exp, prefix claim, scheme/host, scope); session cases = a '
        'HISTORY of get_chunk calls on ONE S3ChunkStore object (each call: bucket out of three, state of that bucket '
        'at that moment full|empty|missing, stored chunk, fault scripts for the object and the listing requests): all '
        'histories up to a length bound over an 11-symbol call alphabet x 2 buckets plus random longer histories over '
        '3 buckets with changing bucket states, random budgets and all fault symbols; compared per call. tokhist cases = a '
        'HISTORY of uses of token strings in ONE process under a scripted clock (katdal.chunkstore_s3.time replaced by a '
        'proxy whose time() is set per use; nothing sleeps): each use = (entry decode_jwt | S3ChunkStore(url, token) + '
        'get_chunk | TelstateDataSource.from_url(...rdb?token=) | get_chunk on a store object constructed earlier in the '
        'history, token out of a table of 10 hand-made JWTs (expiry T0+100 s / T0+200 s / none / already expired / given as '
        'a string / as a float / out of scope / short signature / no prefix claim), clock T0 + offset in ms incl. the expiry second '
        'itself, fractions just after it and clocks set back, URL https-exempt loopback or plain http://localhost, fault '
        'script); all histories of 2 uses over 2 tokens x 3 entries (+ call) x 6 clock pairs plus random histories of 3-8 '
        'uses; compared per use. site cases = put_chunk | is_complete | mark_complete on a fresh store with a fault script '
        'over statuses 5xx/404/403/401/400/409, reset / close / stall before the answer (answers without a body, as S3 '
        'gives them) plus answers with a body that is cut or reset (tie only): all scripts of length <= 2 for three '
        'budgets plus random ones. url cases = relative paths of 1-4 components over names with / without underscores, '
        'dashes, dots (leading / trailing slashes now and then) through S3ChunkStore.make_url and _bucket_url; '
        'and every object request of every other case kind must ask for the path the model of make_url gives for the '
        'chunk name. The `retries` argument of every chunk / rdb / site case is given in one of FOUR forms: not given, '
        'one number, (connect, read), a urllib3 Retry object; rdb cases open the data set from an http RDB URL in three '
        'ways (TelstateDataSource.from_url(chunk_store=None), from_url(chunk_store=auto), katdal.open) under the same '
        'fault alphabet and budgets as chunk requests: all scripts of length <= 2 for ten argument forms plus random '
        'scripts of up to 9 faults (enough to run out of the 5 status retries of the store defaults). budget cases = one '
        'fault-free call per request site (chunk GET, RDB GET via the three entries, bucket listing, chunk PUT, bucket PUT, '
        'marker PUT, marker GET) x argument form, the Retry object handed to requests.HTTPAdapter.send for the first attempt '
        'of each request recorded (total, connect, read, status, forcelist). Non-trivial = the '
        'script contains at least one fault or the token is rejected; distinct by the whole canonical case.')
ASSUMPTIONS = [
    'urllib3 2.x / requests 2.x behaviour as installed (Retry.increment/is_exhausted, urlopen status retries, '
    'exception wrapping) is modelled, not verified; real sockets on the loopback interface; no TLS',
    'backoff sleeping is not exercised: Retry objects made by the harness have backoff_factor=0, and the back-off of the '
    'store defaults (backoff_factor=10) is skipped by replacing the `time` global of urllib3.util.retry with a proxy '
    'whose sleep() returns at once (library side only; katdal is untouched)',
    'connect-phase failures (refused / connect timeout) are outside the fault alphabet; PUT requests and is_complete '
    'use the same request loop and are not driven separately',
    'token histories: the clock is the one katdal.chunkstore_s3 reads through its module global `time` (the translator '
    'demands `time.time() > expiration_time`); exp claims are whole seconds, the clock has millisecond resolution',
    'a stall is silence longer than the 0.5 s read timeout; disagreements are re-run with a 2.5 s timeout before '
    'they are reported (guards against scheduling noise on a loaded machine)',
]

OK, GLITCH, NOTFOUND, AUTH, UNAVAIL, INVALIDTOK, RAW = 0, 1, 2, 3, 4, 5, 9
CLASS_NAMES = {OK: 'Ok', GLITCH: 'S3ServerGlitch', NOTFOUND: 'S3ObjectNotFound', AUTH: 'AuthorisationFailed',
               UNAVAIL: 'StoreUnavailable', INVALIDTOK: 'InvalidToken', RAW: 'raw-exception', 7: 'altered-data',
               8: 'BadChunk'}
GLITCHES = (500, 502, 503, 504)

_state = {}


def quiet():
    warnings.simplefilter('ignore')
    logging.getLogger('katdal').setLevel(logging.CRITICAL)
    logging.getLogger('urllib3').setLevel(logging.CRITICAL)


# ---------------------------------------------------------------------------------------------------
# fixtures

def payloads():
    from katdal.chunkstore import npy_header_and_body
    arrs = [np.arange(24, dtype=np.int32).reshape(4, 6) * 7 - 5,
            (np.arange(5) * 37 % 256).astype(np.uint8),
            (np.arange(12).reshape(2, 3, 2) * (1 + 2j)).astype(np.complex64),
            np.arange(3000, dtype=np.float64).reshape(3, 1000),
            np.zeros((0, 3), dtype=np.float32)]          # a legal chunk without any data: header only
    out = []
    for a in arrs:
        hdr, body = npy_header_and_body(a)
        data = hdr + body.tobytes()
        hl = len(hdr) - 10
        segs = [8, 2, hl, a.nbytes]       # read_magic, header length, header, data (readinto)
        out.append(dict(array=a, data=data, segs=segs, hdr=len(hdr)))
    return out


def offsets(p):
    n = len(p['data'])
    # strictly inside the body: a reset / stall AFTER the complete body would race with the client having finished
    return sorted(k for k in {0, 3, 9, 40, p['hdr'], p['hdr'] + 1, n - 1} if k < n)


class _NoSleep:
    """Stand-in for the `time` module inside urllib3.util.retry: sleep() returns at once (the requested back-off is
    noted), everything else is the real module."""

    def __init__(self, real):
        self._real = real
        self.slept = []

    def sleep(self, seconds):
        self.slept.append(seconds)

    def __getattr__(self, name):
        return getattr(self._real, name)


def _retry_tuple(r):
    """(total, connect, read, status, forcelist) of a urllib3 Retry object, as the model's configuration."""
    num = lambda v: None if v is None or v is False else int(v)
    try:
        return [num(r.total), num(r.connect), num(r.read), num(r.status), sorted(int(c) for c in (r.status_forcelist or ()))]
    except Exception:
        return ['?', repr(r)[:80]]


def install_library_hooks():
    """No real back-off sleeping inside urllib3; every HTTPAdapter.send notes the Retry object it was given."""
    import requests.adapters
    import urllib3.util.retry as ur
    if not isinstance(ur.time, _NoSleep):
        ur.time = _NoSleep(ur.time)
    _state['nosleep'] = ur.time
    if not getattr(requests.adapters.HTTPAdapter.send, '_c09_spy', False):
        orig = requests.adapters.HTTPAdapter.send

        def send(self, request, *a, **kw):
            spy = _state.get('spy')
            if spy is not None:
                spy.append((request.method, urllib.parse.urlsplit(request.url).path, 'max-keys' in request.url,
                            _retry_tuple(self.max_retries)))
            return orig(self, request, *a, **kw)
        send._c09_spy = True
        send._c09_orig = orig
        requests.adapters.HTTPAdapter.send = send


def remove_library_hooks():
    import requests.adapters
    import urllib3.util.retry as ur
    if isinstance(ur.time, _NoSleep):
        ur.time = ur.time._real
    snd = requests.adapters.HTTPAdapter.send
    if getattr(snd, '_c09_spy', False):
        requests.adapters.HTTPAdapter.send = snd._c09_orig


def env():
    if 'fake' not in _state:
        quiet()
        from fixtures.s3fake import FakeS3
        _state['fake'] = FakeS3()
        _state['payloads'] = payloads()
        install_library_hooks()
    return _state['fake'], _state['payloads']


def rdb_bytes():
    if 'rdb' not in _state:
        from fixtures import v4
        from katsdptelstate.rdb_writer import RDBWriter
        tmp = v4.scratch_dir('c09')
        try:
            x = v4.build_v4(T=2, F=2, tmp=tmp)
            p = os.path.join(tmp, 'x.rdb')
            with RDBWriter(p) as w:
                w.save(x.telstate)
            _state['rdb'] = open(p, 'rb').read()
        finally:
            shutil.rmtree(tmp, ignore_errors=True)
    return _state['rdb']


# ---------------------------------------------------------------------------------------------------
# cases.  fault symbol = [code, arg]: [0,c] status, [1,k] trunc, [2,k] reset, [3,k] stall, [4,h] header fault
# (h: 0 reset, 1 stall, 2 close), [5,0] good.   cfg = [total, connect, read, status, forcelist] (None = unlimited)
# or [connect, read] (the default construction from ints).

def action(sym):
    c, a = sym
    return {0: ('status', a), 1: ('trunc', a), 2: ('reset', a), 3: ('stall', a),
            4: (('hreset',), ('hstall',), ('hclose',))[a] if c == 4 else None, 5: ('ok',)}[c]


def sym_kind(sym):
    c, a = sym
    if c == 0:
        return 'S%d' % a if a in (401, 403, 404) else ('S5xx' if a in GLITCHES else 'Sother')
    return {1: 'trunc', 2: 'reset', 3: 'stall', 4: ('hreset', 'hstall', 'hclose')[a] if c == 4 else '', 5: 'good'}[c]


def is_slow(sym):
    return sym[0] == 3 or (sym[0] == 4 and sym[1] == 1)


def wire_cfg(cfg):
    if len(cfg) <= 2:            # [connect, read] | [n] (one number for both) | [] (no `retries` argument at all)
        return list(cfg)
    opt = lambda v: [] if v is None else [v]
    return [opt(cfg[0]), opt(cfg[1]), opt(cfg[2]), opt(cfg[3]), list(cfg[4])]


def retries_of(cfg):
    from urllib3.util.retry import Retry
    if len(cfg) == 2:
        return tuple(cfg)
    if len(cfg) == 1:
        return int(cfg[0])
    return Retry(total=cfg[0], connect=cfg[1], read=cfg[2], status=cfg[3], backoff_factor=0,
                 status_forcelist=tuple(cfg[4]))


def retries_kw(cfg):
    """Keyword arguments for S3ChunkStore / from_url / katdal.open: [] = the `retries` argument is not given at all."""
    return {'retries': retries_of(cfg)} if cfg else {}


USER_FORMS = ([], [2], [0], [1], [3], [2, 2], [0, 1], [1, 0], [1, 3], [0, 2])


def left_out_wires():
    """Wires whose model file does not compile on this tree (a translator item it reads is broken) and which the
    pipeline therefore left out of the model binary."""
    from vh import core
    try:
        return set(json.load(open(os.path.join(core.EXTRACT_DIR, 'left_out_wires.json'))))
    except Exception:
        return set()


def model_case(case):
    mc = model_case95(case)
    if mc[0] == 95 and mc[1][0] != 3 and '95' in _state.get('left_out', ()) and '9' not in _state.get('left_out', ()):
        return [9, mc[1]]        # same payloads; wire_9 computes model AND spec with the store-level budget
    return mc


def model_case95(case):
    _, pls = env()
    if case['kind'] == 'chunk':
        p = pls[case['payload']]
        from fixtures.s3fake import LISTING_EMPTY, LISTING_FULL
        return [95, [1, wire_cfg(case['cfg']), p['segs'], len(LISTING_FULL) if case['bucket'] == 0 else len(LISTING_EMPTY),
                    int(case['verified']), case['bucket'], case['fs'], case['fsb']]]
    if case['kind'] == 'rdb':
        return [95, [2, wire_cfg(case['cfg']), len(rdb_bytes()), case['fs']]]
    if case['kind'] == 'budget':
        return [95, [3, wire_cfg(case['cfg'])]]
    if case['kind'] == 'session' and 'cfgs' in case:       # several store objects in one history
        from fixtures.s3fake import LISTING_EMPTY, LISTING_FULL
        return [97, [[wire_cfg(c) for c in case['cfgs']],
                     [[o['store'], [o['bucket'], o['state'], pls[o['payload']]['segs'],
                                    len(LISTING_FULL) if o['state'] == 0 else len(LISTING_EMPTY), o['fs'], o['fsb']]]
                      for o in case['ops']]]]
    if case['kind'] == 'session':
        from fixtures.s3fake import LISTING_EMPTY, LISTING_FULL
        return [92, [wire_cfg(case['cfg']),
                     [[o['bucket'], o['state'], pls[o['payload']]['segs'],
                       len(LISTING_FULL) if o['state'] == 0 else len(LISTING_EMPTY), o['fs'], o['fsb']]
                      for o in case['ops']]]]
    if case['kind'] == 'tokhist':
        return hist_model_case(case)
    if case['kind'] == 'url':
        return [94, [[ord(c) for c in case['rel']]]]
    if case['kind'] == 'site':
        n = 0 if case.get('empty', True) else len(pls[case['payload']]['data'])
        if case['site'] == 'mark':
            return [95, [6, wire_cfg(case['cfg']), case['fs']]]
        return [95, [4 if case['site'] == 'put' else 5, wire_cfg(case['cfg']), n, case['fs']]]
    t = case['token']
    p = pls[case['payload']]
    codes = lambda s: [ord(c) for c in s]
    exp = [] if t['exp'] is None else ([t['exp']] if isinstance(t['exp'], int) else 2)
    tok = [t['nseg'], int(t['header_ok']), codes(t['alg']), t['siglen'], int(t['claims_ok']), exp,
           int(t['has_prefix']), [codes(x) for x in t['prefixes']]]
    return [91, [codes(case['scheme']), codes(case['host']), tok, case['now'], codes(case['path']),
                 wire_cfg(case['cfg']), p['segs'], case['fs']]]


# ---------------------------------------------------------------------------------------------------
# implementation drivers

def classify_exc(e):
    from katdal.chunkstore import BadChunk, ChunkStoreError
    name = type(e).__name__
    table = {'S3ServerGlitch': GLITCH, 'S3ObjectNotFound': NOTFOUND, 'AuthorisationFailed': AUTH,
             'StoreUnavailable': UNAVAIL, 'InvalidToken': INVALIDTOK}
    if isinstance(e, ChunkStoreError) and name in table:
        return table[name]
    if isinstance(e, BadChunk):
        return 8
    return RAW


def impl_chunk(case, read_timeout):
    from katdal.chunkstore_s3 import S3ChunkStore
    fake, pls = env()
    p = pls[case['payload']]
    a = p['array']
    slices = tuple(slice(0, n) for n in a.shape)
    kw = {}
    if case.get('token_str') is not None:
        kw['token'] = case['token_str']
    url = case.get('url') or fake.url
    fake.max_wait = read_timeout + 2.0
    bstate = ('full', 'empty', 'missing')[case.get('bucket', 0)]
    fake.arm([], [], bstate, p['data'])
    try:
        if case['cfg']:
            kw['retries'] = retries_of(case['cfg'])
        store = S3ChunkStore(url, timeout=(2, read_timeout), **kw)
        if case.get('verified'):
            fake.arm([('status', 404)], [], 'full', p['data'])
            try:
                store.get_chunk('bkt/arr', slices, a.dtype)
            except Exception:
                pass
        fake.arm([action(s) for s in case['fs']], [action(s) for s in case.get('fsb', [])], bstate, p['data'])
        c = store.get_chunk(case.get('array_name', 'bkt/arr'), slices, a.dtype)
        if isinstance(c, np.ndarray) and c.dtype == a.dtype and c.shape == a.shape and np.array_equal(c, a):
            cls = OK
        else:
            cls = 7
    except Exception as e:
        cls = classify_exc(e)
        _state['last_exc'] = str(e)
    log = fake.requests()
    _state['last_log'] = log
    return cls, ''.join(k[0] for k in log), log


def impl_rdb(case, read_timeout):
    from katdal.datasources import DataSourceNotFound, TelstateDataSource
    fake, _ = env()
    data = rdb_bytes()
    fake.max_wait = read_timeout + 2.0
    fake.arm([action(s) for s in case['fs']], [], 'full', data)
    url = fake.url + '/bkt/x.rdb?capture_block_id=1234567890&stream_name=sdp_l0'
    kw = dict(timeout=(2, read_timeout))
    if case['cfg']:                     # [] = the `retries` argument is not given at all
        kw['retries'] = retries_of(case['cfg'])
    how = case.get('how', 'from_url')
    try:
        if how == 'open':
            import katdal
            d = katdal.open(url, **kw)
            src = d.source
            good = len(d.timestamps) == 2 and d.shape[0] == 2
        else:
            if how == 'from_url':
                kw['chunk_store'] = None
            src = TelstateDataSource.from_url(url, **kw)
            good = (src.data is None) == (how == 'from_url')
        good = good and src.telstate['int_time'] == 2.0 and len(src.timestamps) == 2 and 'bls_ordering' in src.telstate
        cls = OK if good else 7
    except DataSourceNotFound:
        cls = 1
    except Exception:
        cls = RAW
    log = fake.requests()
    return cls, ''.join(k[0] for k in log), log


def cfg_form(cfg):
    return {0: 'absent', 1: 'int', 2: 'pair'}.get(len(cfg), 'Retry')


BUCKET_NAMES = ('bkt', 'b_2', 'c3')       # the underscore is turned into a dash by make_url


def bucket_of_path(path):
    return path.split('?')[0].lstrip('/').split('/')[0]


def impl_session(case, read_timeout):
    """All calls of the history on ONE store object; per call (class, request kinds, log, verified-bucket ids | None)."""
    from katdal.chunkstore_s3 import S3ChunkStore
    fake, pls = env()
    fake.max_wait = read_timeout + 2.0
    fake.arm([], [], 'full', pls[0]['data'])
    out = []
    cfgs = case.get('cfgs') or [case['cfg']]
    try:
        objs = [S3ChunkStore(fake.url, timeout=(2, read_timeout), **retries_kw(c)) for c in cfgs]
    except Exception as e:
        return [(classify_exc(e), '', [], None)]
    names = BUCKET_NAMES
    if 'cfgs' in case:
        # histories over several store objects get bucket names of their own (and fresh ones for the confirmation re-run):
        # a cache that outlives its store object cannot leak into - or out of - such a history, so a reported history
        # fails on its own in a fresh process too
        # the second name extends the first (a cache looked up by prefix / substring would let one vouch for the other)
        base = 'm%s%s' % (case.get('serial', 0), 'r' if read_timeout > 1.0 else '')
        names = (base + '_0', base + '_0x', base + '_1')
    norm = {n.replace('_', '-'): i for i, n in enumerate(names)}
    for o in case['ops']:
        store = objs[o.get('store', 0)]
        p = pls[o['payload']]
        a = p['array']
        slices = tuple(slice(0, n) for n in a.shape)
        fake.arm([action(s) for s in o['fs']], [action(s) for s in o['fsb']], ('full', 'empty', 'missing')[o['state']],
                 p['data'])
        try:
            c = store.get_chunk(names[o['bucket']] + '/arr', slices, a.dtype)
            ok = isinstance(c, np.ndarray) and c.dtype == a.dtype and c.shape == a.shape and np.array_equal(c, a)
            cls = OK if ok else 7
        except Exception as e:
            cls = classify_exc(e)
        log = fake.requests()
        cache = getattr(store, '_verified_buckets', None)
        try:
            cache = sorted(norm[bucket_of_path(urllib.parse.urlsplit(u).path)] for u in cache)
        except Exception:
            cache = None      # not the representation we know: the cache is then only judged by what the calls return
        out.append((cls, ''.join(k[0] for k in log), log, cache))
    return out


# ---------------------------------------------------------------------------------------------------
# comparison

def session_signature(case, k, mout, impl_cls, want_cls, what):
    """Shape of the failing call (the last one kept in the case) and of what the same store saw before it."""
    o = case['ops'][k]
    used = o['fs'][:mout[k][1]]
    usedb = o['fsb'][:mout[k][2]]
    kinds = sorted({sym_kind(s) for s in used})
    listing = 'none' if not mout[k][2] else ('faulty' if usedb else 'clean')
    same = [j for j in range(k) if case['ops'][j]['bucket'] == o['bucket']]
    coarse = {OK: 'ok', NOTFOUND: 'missing-chunk'}
    before = sorted({coarse.get(mout[j][4][0], 'failed') for j in same})
    multi = ''
    if 'cfgs' in case:       # several store objects: what ANOTHER object saw in this bucket before
        other = sorted({coarse.get(mout[j][4][0], 'failed') for j in same if case['ops'][j]['store'] != o['store']})
        same = [j for j in same if case['ops'][j]['store'] == o['store']]
        before = sorted({coarse.get(mout[j][4][0], 'failed') for j in same})
        multi = ';stores=%d;same_bucket_on_another_store_before=%s' % (len(case['cfgs']), '+'.join(other) or 'none')
    return 'kind=session;call=%s;faults=%s;listing=%s;bucket=%s;evidence=%d;same_bucket_before=%s;other_buckets_before=%d%s;what=%s;impl=%s;want=%s' % (
        'first' if k == 0 else 'later', '+'.join(kinds) or 'none', listing, ('full', 'empty', 'missing')[o['state']],
        int(mout[k][5]), '+'.join(before) or 'none', int(len(same) < k), multi, what,
        CLASS_NAMES.get(impl_cls, impl_cls), CLASS_NAMES.get(want_cls, want_cls))


def compare_session(ctx, case, mout, read_timeout=0.5, confirm=True):
    """Per call: class vs spec (property) and vs model (tie), order and number of requests, the bucket that is listed,
    the verified-bucket cache after the call.  Only the first disagreeing call of a history is reported (later ones may
    merely follow from it); the case kept for the replay is the history up to and including that call."""
    res = impl_pre(case, read_timeout, confirm)
    stale = bool(_state.get('stale'))
    first = {}                      # 'property' / 'tie' -> (call, what, impl class, wanted class): first call only
    for k, r in enumerate(res):
        icls, ireq, log, cache = r
        if k >= len(mout):
            break
        mcls, mo, mb, mcache, scls = mout[k][0][0], mout[k][1], mout[k][2], mout[k][3], mout[k][4][0]
        want_req = 'O' * mo + 'B' * mb
        listed = {bucket_of_path(e[2]) for e in log if e[0] == 'B'}
        asked = {bucket_of_path(e[2]) for e in log if e[0] == 'O'}
        if confirm and k < len(case['ops']) and 'cfgs' not in case:
            o = case['ops'][k]
            idx = '_'.join('%05d' % 0 for _ in env()[1][o['payload']]['array'].shape)
            check_paths(ctx, case, log, ['%s/arr/%s.npy' % (BUCKET_NAMES[o['bucket']], idx)])
        if icls != scls:
            first.setdefault('property', (k, 'result', icls, scls))
        elif listed and listed != asked:
            first.setdefault('property', (k, 'listed_another_bucket', icls, scls))
        elif mcls != scls and not stale and not first:
            first.setdefault('property', (k, 'model_vs_spec', mcls, scls))
        if not stale:
            if icls != mcls or ireq != want_req:
                first.setdefault('tie', (k, 'result' if icls != mcls else 'requests', icls, mcls))
            elif cache is not None and sorted(set(mcache)) != cache:
                first.setdefault('tie', (k, 'verified_cache', icls, mcls))
        if 'property' in first:
            break                   # what follows a property violation on the same store object proves nothing more
    if len(res) != len(case['ops']) and not first:
        first['tie'] = (0, 'store_construction', res[0][0], OK)
    if first and confirm and read_timeout < 2.0:
        return compare_session(ctx, case, mout, read_timeout=2.5, confirm=False)
    ctx.traces_validated += len(res)
    if first and len({d['signature'] for d in ctx.disagreements}) >= 30:
        first = {}
        ctx.count('disagreements_beyond_30_signatures')
    for kind, (at, what, a, b) in sorted(first.items()):
        short = dict(case, ops=case['ops'][:at + 1])
        icls, ireq, _, cache = res[min(at, len(res) - 1)]
        ctx.disagree(session_signature(case, at, mout, a, b, what), short,
                     dict(call=at, result=CLASS_NAMES.get(icls, icls), requests=ireq, verified_cache=cache,
                          earlier=[CLASS_NAMES.get(r[0], r[0]) for r in res[:at]]),
                     dict(model=mout[:at + 1]),
                     'call %d of the history on one store object: implementation %s differs from %s (%s)' % (
                         at, what, 'spec' if kind == 'property' else 'model', CLASS_NAMES.get(b, b)),
                     spec=[m[4] for m in mout[:at + 1]], kind=kind)
    return not first


def signature(case, impl_cls, want_cls, what):
    # only the part of the script the model consumed decides the outcome
    used = case.get('fs', [])[:case.get('_consumed', len(case.get('fs', [])))]
    usedb = case.get('fsb', [])[:case.get('_consumed_b', len(case.get('fsb', [])))]
    kinds = sorted({sym_kind(s) for s in used} | {'b:' + sym_kind(s) for s in usedb})
    extra = ''
    if case['kind'] == 'chunk' and any(s == [0, 404] for s in case['fs']):
        extra = ';bucket=%s;verified=%d' % (('full', 'empty', 'missing')[case['bucket']], int(case['verified']))
    if case['kind'] == 'token':
        extra = ';token=%s' % case.get('label', '?')
    names = dict(CLASS_NAMES)
    if case['kind'] == 'rdb':
        names[1] = 'DataSourceNotFound'
        if 'how' in case:
            extra += ';entry=%s' % case['how']
    if case['kind'] in ('rdb', 'chunk') and cfg_form(case['cfg']) != 'Retry':
        extra += ';retries=%s' % cfg_form(case['cfg'])
    return 'kind=%s;faults=%s%s;what=%s;impl=%s;want=%s' % (
        case['kind'], '+'.join(kinds) or 'none', extra, what, names.get(impl_cls, impl_cls),
        names.get(want_cls, want_cls))


def compare(ctx, case, mout, read_timeout=0.5, confirm=True):
    """Runs the implementation on `case` and compares with the model output; returns True if all agreed."""
    kind = case['kind']
    if kind == 'session':
        return compare_session(ctx, case, mout, read_timeout, confirm)
    if kind == 'tokhist':
        return compare_hist(ctx, case, mout, read_timeout, confirm)
    if kind == 'url':
        return compare_url(ctx, case, mout)
    if kind == 'site':
        return compare_site(ctx, case, mout, read_timeout, confirm)
    if kind == 'budget':
        return compare_budget(ctx, case, mout)
    case['_consumed'] = mout[1]
    if kind == 'chunk':
        case['_consumed_b'] = mout[2]
    if kind == 'rdb':
        icls, ireq, _ = impl_pre(case, read_timeout, confirm)
        mcls, mn, scls, sn = mout[0][0], mout[1], mout[2][0], mout[3]
        scls = 0 if scls == 0 else 1       # every ChunkStoreError becomes DataSourceNotFound
        want_req_m, want_req_s = 'O' * mn, 'O' * sn
        problems = []
        if icls != scls:
            problems.append(('property', 'result', icls, scls))
        elif ireq != want_req_s:
            problems.append(('property', 'requests', icls, scls))
        if icls != mcls or ireq != want_req_m:
            problems.append(('tie', 'result' if icls != mcls else 'requests', icls, mcls))
    elif kind == 'chunk':
        icls, ireq, clog = impl_pre(case, read_timeout, confirm)
        if confirm:
            idx = '_'.join('%05d' % 0 for _ in env()[1][case['payload']]['array'].shape)
            check_paths(ctx, case, clog, ['bkt/arr/%s.npy' % idx])
        mcls, mo, mb, scls = mout[0][0], mout[1], mout[2], mout[4][0]
        want_req_m = 'O' * mo + 'B' * mb
        problems = []
        if icls != scls:
            problems.append(('property', 'result', icls, scls))
        if icls != mcls or ireq != want_req_m:
            problems.append(('tie', 'result' if icls != mcls else 'requests', icls, mcls))
        if mcls != scls and not problems:
            problems.append(('property', 'model_vs_spec', mcls, scls))
    else:
        _state.pop('last_exc', None)
        icls, ireq, log = impl_chunk(case, read_timeout)
        mcls, mn, bad = mout[0][0], mout[1], mout[2]
        reason = [c for text, codes_ in REASONS if text in _state.get('last_exc', '') for c in codes_]
        want_req_m = 'O' * mn
        problems = []
        if bad and (icls in (OK, 7) or ireq != ''):
            problems.append(('property', 'bad_token_not_rejected_before_request', icls, mcls))
        if not bad and log and any(not (k[3] or '').startswith('Bearer ') for k in log):
            problems.append(('property', 'missing_authorization_header', icls, mcls))
        if case.get('class_named', True) and (icls != mcls or ireq != want_req_m):
            problems.append(('tie', 'result' if icls != mcls else 'requests', icls, mcls))
        elif reason and mout[3] not in reason:
            problems.append(('tie', 'reject_reason', icls, mcls))     # which check of the chain fired
    if problems and confirm and read_timeout < 2.0:
        # possible scheduling noise (a slow good response looks like a stall): confirm with a generous timeout
        return compare(ctx, case, mout, read_timeout=2.5, confirm=False)
    if problems and not confirm:
        # a disagreement is only reported when the implementation shows the same outcome once more: the scripted
        # faults of the loopback endpoint are subject to socket timing (a reset 'at byte 0' may or may not reach the
        # client before the status line does); an outcome that does not repeat is counted, not reported
        try:
            if kind == 'rdb':
                again = impl_rdb(case, read_timeout)[:2]
            elif kind == 'chunk':
                again = impl_pre(case, read_timeout, False)[:2]
            else:
                again = impl_chunk(case, read_timeout)[:2]
        except Exception:
            again = None
        if again is not None and tuple(again) != (icls, ireq):
            ctx.count('outcome_not_repeatable_on_rerun')
            problems = []
    ctx.traces_validated += 1
    if len({d['signature'] for d in ctx.disagreements}) >= 30:
        problems = problems[:0] if not problems else problems[:1]
        if problems and signature(case, problems[0][2], problems[0][3], problems[0][1]) not in \
                {d['signature'] for d in ctx.disagreements}:
            ctx.count('disagreements_beyond_30_signatures')
            problems = []
    if _state.get('stale'):
        problems = [q for q in problems if q[0] == 'property']
    for (k, what, a, b) in problems:
        ctx.disagree(signature(case, a, b, what), case, dict(result=CLASS_NAMES.get(icls, icls), requests=ireq),
                     dict(model=mout), 'implementation %s differs from %s (%s)' % (what, 'spec' if k == 'property' else 'model',
                                                                                 CLASS_NAMES.get(b, b)),
                     spec=mout, kind=k)
    return not problems


# ---------------------------------------------------------------------------------------------------
# generators

def fast_alphabet(p):
    ks = offsets(p)
    syms = [[0, c] for c in (500, 502, 503, 504, 404, 401, 403, 400)]
    syms += [[1, k] for k in ks] + [[2, k] for k in (ks[0], ks[3], ks[-1])] + [[4, 0], [4, 2]]
    return syms


def gen_cases(ctx):
    rng = ctx.rng
    _, pls = env()
    cases = []
    thorough = ctx.tier == 'thorough'
    # (a) all scripts up to a length bound over the fast symbols, per (read, status) budget
    maxlen = 3 if thorough else 2
    small = [[0, 503], [0, 500], [1, 0], [1, 9], [2, 40], [4, 0], [0, 404], [0, 403], [0, 400]]
    for read, status in itertools.product((0, 1, 2), repeat=2):
        pi = rng.randrange(len(pls))
        alpha = fast_alphabet(pls[pi])
        connect = rng.choice((0, 1, 2))
        total = rng.choice((10, 10, None, 3))
        for n in range(maxlen + 1):
            for fs in itertools.product(alpha, repeat=n):
                cases.append(dict(kind='chunk', cfg=[total, connect, read, status, list(GLITCHES)], payload=pi,
                                  fs=[list(s) for s in fs], fsb=[], bucket=rng.choice((0, 0, 1, 2)),
                                  verified=rng.random() < 0.2))
        if thorough:   # exhaustive length 4 over a 9-symbol alphabet
            syms = [s if s[0] != 1 else [1, rng.choice(offsets(pls[pi]))] for s in small]
            for fs in itertools.product(syms, repeat=4):
                cases.append(dict(kind='chunk', cfg=[10, connect, read, status, list(GLITCHES)], payload=pi,
                                  fs=[list(s) for s in fs], fsb=[], bucket=rng.choice((0, 0, 1, 2)), verified=False))
    # (b) random longer scripts with every symbol, total budgets, None budgets, other forcelists
    slow_left = [ctx.scale(32, 600)]

    def rand_sym(p, permanent_ok=True):
        r = rng.random()
        ks = offsets(p)
        if r < 0.30:
            return [0, rng.choice(GLITCHES)]
        if r < 0.55:
            return [1, rng.choice(ks + [rng.randrange(len(p['data']))])]
        if r < 0.68:
            return [2, rng.choice(ks)]
        if r < 0.80:
            return [4, rng.choice((0, 2))]
        if r < 0.88 and slow_left[0] > 0:
            slow_left[0] -= 1
            return rng.choice(([3, rng.choice(ks)], [4, 1]))
        if permanent_ok and r < 0.97:
            return [0, rng.choice((404, 404, 401, 403, 400, 416, 409, 501, 507))]
        return [0, 503]

    def rand_cfg():
        opt = lambda hi: rng.choice([None] + list(range(hi + 1)) * 2)
        fl = rng.choice([GLITCHES, GLITCHES, (503,), (500, 504), ()])
        return [rng.choice((10, 10, None, 0, 1, 2, 3, 4)), rng.choice((0, 1, 2)), opt(3), opt(3), list(fl)]

    for _ in range(ctx.scale(620, 12000)):
        pi = rng.randrange(len(pls))
        n = rng.randint(1, 6)
        fs = [rand_sym(pls[pi]) for _ in range(n)]
        nb = rng.choice((0, 0, 1, 2, 3))
        fsb = [rand_sym(pls[pi], permanent_ok=rng.random() < 0.3) for _ in range(nb)]
        fsb = [[s[0], min(s[1], 60)] if s[0] in (1, 2, 3) else s for s in fsb]   # listing bodies are short
        cases.append(dict(kind='chunk', cfg=rand_cfg(), payload=pi, fs=fs, fsb=fsb, bucket=rng.choice((0, 0, 1, 2)),
                          verified=rng.random() < 0.25))
    # (c) 404 rule matrix
    for b, v, nb in itertools.product((0, 1, 2), (False, True), (0, 1, 2)):
        for pre in ([], [[0, 503]], [[1, 3]]):
            fsb = [rng.choice(([0, 503], [1, 5], [2, 20], [4, 0], [0, 403], [0, 400])) for _ in range(nb)]
            cases.append(dict(kind='chunk', cfg=[10, 1, rng.choice((1, 2)), rng.choice((1, 2)), list(GLITCHES)],
                              payload=0, fs=pre + [[0, 404]], fsb=fsb, bucket=b, verified=v))
    # (c') listing requests with adapter-level retries followed by body faults (the listing is not streamed: the tie)
    for fsb in ([[4, 0], [1, 5]], [[0, 503], [1, 5], [0, 503]], [[4, 2], [2, 20], [4, 0]], [[0, 500], [2, 3]],
                [[1, 5], [4, 0]], [[0, 503], [0, 503], [1, 9]]):
        for read, status in ((1, 1), (0, 1), (1, 0), (2, 1)):
            cases.append(dict(kind='chunk', cfg=[10, 1, read, status, list(GLITCHES)], payload=2, fs=[[0, 404]],
                              fsb=fsb, bucket=rng.choice((0, 1, 2)), verified=False))
    # (d) the default configuration (ints): at most one transient fault (the first back-off is zero)
    for cfgd in ([2, 2], [0, 1], [1, 0], [2], [0], [1], []):
        for s in ([0, 503], [1, 40], [4, 0], [0, 404], [0, 401], [2, 9]):
            cases.append(dict(kind='chunk', cfg=list(cfgd), payload=1, fs=[s], fsb=[], bucket=0, verified=False))
            cases.append(dict(kind='chunk', cfg=list(cfgd), payload=1, fs=[s, [0, 403]] if s[1] not in (404, 401) else [s],
                              fsb=[], bucket=0, verified=False))
    # (d') the `retries` argument in its number / pair / not-given forms with scripts long enough to run out of the
    #      store defaults (5 status retries, total 10); urllib3's back-off does not really sleep (install_library_hooks)
    def transient_script(p, n, cut=None):
        ks = cut or offsets(p)
        fs = []
        for _ in range(n):
            r = rng.random()
            fs.append([0, rng.choice(GLITCHES)] if r < 0.55 else [1, rng.choice(ks)] if r < 0.8 else
                      [2, rng.choice(ks)] if r < 0.9 else [4, rng.choice((0, 2))])
        return fs

    for form in USER_FORMS:
        for _ in range(ctx.scale(16, 150)):
            pi = rng.randrange(len(pls))
            fs = transient_script(pls[pi], rng.randint(1, 9))
            if rng.random() < 0.3:
                fs.append([0, rng.choice((404, 403, 401, 400))])
            fsb = transient_script(pls[pi], rng.choice((0, 0, 1, 3)), cut=[0, 3, 20, 60]) if fs[-1] == [0, 404] else []
            cases.append(dict(kind='chunk', cfg=list(form), payload=pi, fs=fs, fsb=fsb, bucket=rng.choice((0, 0, 1, 2)),
                              verified=False))
    # (d'') the edges of the store-level budget for every number / pair / not-given form: exactly `read` cut bodies and
    #       one more, exactly 5 glitch statuses and one more, both budgets used up together, and (form [6]) the total of 10
    def boundary_scripts(form, cut):
        read = 2 if not form else form[-1]
        T, S = [1, cut], [0, 503]
        out = [[T] * read, [T] * (read + 1), [S] * 5, [S] * 6, [S] * 5 + [T] * read, [T] * read + [S] * 5 + [[0, 403]],
               [S] * 3 + [T] * (read + 1)]
        return [[list(x) for x in fs] for fs in out if len(fs) <= 12]

    for form in list(USER_FORMS) + [[6], [0, 5]]:
        pi = rng.randrange(len(pls) - 1)
        for fs in boundary_scripts(form, rng.choice(offsets(pls[pi]))):
            cases.append(dict(kind='chunk', cfg=list(form), payload=pi, fs=fs, fsb=[], bucket=0, verified=False))
        for fs in boundary_scripts(form, rng.choice((0, 7, 100))):
            cases.append(dict(kind='rdb', cfg=list(form), fs=fs, how=rng.choice(RDB_ENTRIES)))
    # (e) data sets opened from an http RDB URL: TelstateDataSource.from_url(chunk_store=None | auto), katdal.open
    nr = len(rdb_bytes())
    rsyms = [[0, 503], [0, 500], [1, 0], [1, 7], [1, nr - 1], [2, 100], [4, 0], [4, 2], [0, 404], [0, 403], [0, 400]]
    for read, status in ((0, 0), (1, 1), (2, 1), (1, 2)) if not thorough else itertools.product((0, 1, 2), repeat=2):
        for n in range(3 if not thorough else 4):
            for fs in itertools.product(rsyms, repeat=n):
                if n == 2 and not thorough and rng.random() < 0.5:
                    continue
                cases.append(dict(kind='rdb', cfg=[10, 1, read, status, list(GLITCHES)], fs=[list(s) for s in fs],
                                  how=rng.choice(RDB_ENTRIES)))
    for _ in range(ctx.scale(60, 600)):
        fs = [rng.choice(rsyms + [[3, rng.choice((0, 50, nr - 1))]] * (1 if slow_left[0] > 0 else 0))
              for _ in range(rng.randint(1, 5))]
        slow_left[0] -= sum(1 for s in fs if is_slow(s))
        cases.append(dict(kind='rdb', cfg=rand_cfg(), fs=fs, how=rng.choice(RDB_ENTRIES)))
    # ... with the `retries` argument not given / one number / a pair: every script of length <= 1 through each of the
    # three entries, a sample of length 2 (all of them in the thorough tier), random scripts of up to 9 transient faults
    cuts = [0, 7, 100, nr - 1]
    for form in USER_FORMS:
        for s1 in rsyms:
            for how in RDB_ENTRIES if thorough or form in ([], [2], [0, 1], [1, 3]) else (rng.choice(RDB_ENTRIES),):
                cases.append(dict(kind='rdb', cfg=list(form), fs=[list(s1)], how=how))
        cases.append(dict(kind='rdb', cfg=list(form), fs=[], how=rng.choice(RDB_ENTRIES)))
        for fs in itertools.product(rsyms, repeat=2):
            if rng.random() < (0.6 if thorough else 0.15):
                cases.append(dict(kind='rdb', cfg=list(form), fs=[list(x) for x in fs], how=rng.choice(RDB_ENTRIES)))
        for _ in range(ctx.scale(14, 120)):
            fs = transient_script(None, rng.randint(2, 9), cut=cuts)
            if rng.random() < 0.25:
                fs.append([0, rng.choice((404, 403, 401, 400))])
            cases.append(dict(kind='rdb', cfg=list(form), fs=fs, how=rng.choice(RDB_ENTRIES)))
    return cases


def session_cases(ctx):
    """Histories of get_chunk calls on one store object."""
    rng = ctx.rng
    _, pls = env()
    thorough = ctx.tier == 'thorough'
    cases = []
    G = list(GLITCHES)
    # (a) all histories up to a length bound over a call alphabet x 2 buckets; budgets read = status = 1, so that
    #     [503, 503] exhausts the listing and one cut body uses up the read budget of ONE call
    def alphabet(pi):
        k = rng.choice(offsets(pls[pi])[:-1] + [0])
        return [dict(state=0, fs=[[0, 404]], fsb=[]),
                dict(state=1, fs=[[0, 404]], fsb=[]),
                dict(state=2, fs=[[0, 404]], fsb=[]),
                dict(state=0, fs=[[0, 404]], fsb=[[0, 503], [0, 503]]),
                dict(state=1, fs=[[0, 404]], fsb=[[0, rng.choice(G)], [0, rng.choice(G)]]),
                dict(state=rng.choice((0, 1)), fs=[[0, 404]], fsb=[[0, rng.choice((403, 401, 400))]]),
                dict(state=1, fs=[[0, 404]], fsb=[rng.choice(([1, 5], [2, 20], [4, 0], [0, 503]))]),
                dict(state=rng.choice((0, 1, 2)), fs=[], fsb=[]),
                dict(state=0, fs=[rng.choice(([1, k], [2, k]))], fsb=[]),
                dict(state=0, fs=[rng.choice(([4, 0], [4, 2]))], fsb=[]),
                dict(state=rng.choice((1, 2)), fs=[[0, rng.choice(G)], [0, 404]], fsb=[])]

    def calls(pi):
        return [dict(o, bucket=b, payload=rng.randrange(len(pls)) if o['fs'] != [[0, 404]] else pi)
                for b in (0, 1) for o in alphabet(pi)]

    cfg1 = [10, 1, 1, 1, G]
    for n in (1, 2):
        for ops in itertools.product(calls(rng.randrange(len(pls))), repeat=n):
            cases.append(dict(kind='session', cfg=list(cfg1), ops=[dict(o) for o in ops]))
    if thorough:   # length 3 over the 404 half of the alphabet (one bucket + one call in a second bucket)
        al = [dict(o, bucket=0, payload=0) for o in alphabet(0)[:7]] + [dict(alphabet(0)[0], bucket=1, payload=1),
                                                                        dict(alphabet(0)[8], bucket=0, payload=2),
              dict(alphabet(0)[9], bucket=0, payload=3)]
        for ops in itertools.product(al, repeat=3):
            cases.append(dict(kind='session', cfg=list(cfg1), ops=[dict(o) for o in ops]))
    # (b) random longer histories: 3 buckets whose state changes now and then, random budgets, all symbols
    slow_left = [ctx.scale(9, 200)]

    def rand_sym(p, listing=False):
        r = rng.random()
        ks = offsets(p) if not listing else [0, 3, 20, 60]
        if r < 0.35:
            return [0, rng.choice(G)]
        if r < 0.60:
            return [1, rng.choice(ks)]
        if r < 0.72:
            return [2, rng.choice(ks)]
        if r < 0.84:
            return [4, rng.choice((0, 2))]
        if r < 0.90 and slow_left[0] > 0:
            slow_left[0] -= 1
            return rng.choice(([3, rng.choice(ks)], [4, 1]))
        if listing:
            return [0, rng.choice((403, 401, 400, 503))]
        return [0, 503]

    for _ in range(ctx.scale(170, 2500)):
        r0 = rng.random()
        if r0 < 0.45:
            cfg = list(cfg1)
        elif r0 < 0.6:
            cfg = list(rng.choice(USER_FORMS))
        else:
            opt = lambda hi: rng.choice([None] + list(range(hi + 1)) * 2)
            cfg = [rng.choice((10, 10, None, 2, 3, 4)), rng.choice((0, 1, 2)), opt(2), opt(2),
                   list(rng.choice([GLITCHES, GLITCHES, (503,), ()]))]
        state = [rng.choice((0, 0, 1, 2)) for _ in BUCKET_NAMES]
        ops = []
        for _ in range(rng.randint(2, 7)):
            b = rng.choice((0, 0, 0, 1, 1, 2))
            if rng.random() < 0.12:
                state[b] = rng.choice((0, 1, 2))
            pi = rng.randrange(len(pls))
            r = rng.random()
            fs = [rand_sym(pls[pi]) for _ in range(rng.choice((0, 0, 0, 1, 1, 2)))]
            if r < 0.62:
                fs.append([0, 404])
            elif r < 0.70:
                fs.append([0, rng.choice((403, 401, 400))])
            fsb = [rand_sym(pls[pi], listing=True) for _ in range(rng.choice((0, 0, 0, 1, 2, 3)))]
            ops.append(dict(bucket=b, state=state[b], payload=pi, fs=fs, fsb=fsb))
        cases.append(dict(kind='session', cfg=cfg, ops=ops))
    # (c) SEVERAL store objects in one history (evidence is per bucket AND per store object): all histories of 2 calls
    #     (the first on object 0) over 5 call shapes x 2 buckets x 2 objects, random ones of 3-6 calls over 3 objects
    #     constructed with different `retries` arguments
    def shapes():
        return [dict(state=0, fs=[[0, 404]], fsb=[]), dict(state=1, fs=[[0, 404]], fsb=[]),
                dict(state=2, fs=[[0, 404]], fsb=[]), dict(state=rng.choice((0, 1)), fs=[], fsb=[]),
                dict(state=0, fs=[[0, 404]], fsb=[[0, 503], [0, 503]])]
    two = [dict(o, bucket=b, store=k, payload=rng.randrange(len(pls))) for k in (0, 1) for b in (0, 1) for o in shapes()]
    for o1 in two:
        if o1['store'] != 0:
            continue
        for o2 in two:
            cases.append(dict(kind='session', cfg=list(cfg1), cfgs=[list(cfg1), list(cfg1)], ops=[dict(o1), dict(o2)]))
    for _ in range(ctx.scale(70, 1500)):
        cfgs = [list(cfg1), list(rng.choice(USER_FORMS)), [10, 1, rng.choice((0, 1, 2)), rng.choice((0, 1, 2)), G]]
        state = [rng.choice((0, 0, 1, 2)) for _ in BUCKET_NAMES]
        ops = []
        for _ in range(rng.randint(3, 6)):
            b = rng.choice((0, 0, 1))
            if rng.random() < 0.25:
                state[b] = rng.choice((0, 1, 2))
            pi = rng.randrange(len(pls))
            fs = [rand_sym(pls[pi])] if rng.random() < 0.25 else []
            if rng.random() < 0.75:
                fs.append([0, 404])
            fsb = [rand_sym(pls[pi], listing=True) for _ in range(rng.choice((0, 0, 0, 1, 2)))]
            ops.append(dict(bucket=b, store=rng.randrange(3), state=state[b], payload=pi, fs=fs, fsb=fsb))
        cases.append(dict(kind='session', cfg=cfgs[0], cfgs=cfgs, ops=ops))
    # histories over several store objects first: a cache that outlives its store object (class / module level) makes
    # every LATER case of the same process start dirty; the first reports should be histories that fail on their own
    multi = [c for c in cases if 'cfgs' in c]
    for j, c in enumerate(multi):
        c['serial'] = j
    return multi + [c for c in cases if 'cfgs' not in c]


# ---------------------------------------------------------------------------------------------------
# tokens

def b64(d):
    return base64.urlsafe_b64encode(d).rstrip(b'=').decode()


def make_token(header, claims, sig):
    h = header if isinstance(header, str) else b64(json.dumps(header).encode())
    c = claims if isinstance(claims, str) else b64(json.dumps(claims).encode())
    return h + '.' + c + '.' + sig


def token_cases(ctx):
    rng = ctx.rng
    fake, pls = env()
    now = int(time.time())
    far, past = now + 10 ** 7, now - 10 ** 6
    ES = {"alg": "ES256", "typ": "JWT"}
    path = 'bkt/arr/00000_00000.npy'
    base_claims = {"prefix": ["bkt"], "exp": far}
    out = []

    def add(label, tokstr, feats, scheme='http', host='127.0.0.1', url=None, class_named=True, fs=None, pi=0):
        a = pls[pi]['array']
        p = 'bkt/arr/' + '_'.join('%05d' % 0 for _ in a.shape) + '.npy'
        f = dict(nseg=3, header_ok=True, alg='ES256', siglen=86, claims_ok=True, exp=far, has_prefix=True,
                 prefixes=['bkt'])
        f.update(feats)
        out.append(dict(kind='token', label=label, token_str=tokstr, token=f, scheme=scheme, host=host, now=now,
                        path=p, cfg=[10, 1, 1, 1, list(GLITCHES)], payload=pi, fs=fs or [], url=url,
                        class_named=class_named))

    S = 'A' * 86
    good = make_token(ES, base_claims, S)
    add('good', good, {})
    add('good+faults', good, {}, fs=[[0, 503], [1, 9]])
    add('good+401', good, {}, fs=[[0, 401]])
    for k in sorted({0, 1, 5, len(good) // 3, len(good) - 87, len(good) - 86, len(good) - 40, len(good) - 1}
                    | {rng.randrange(len(good)) for _ in range(ctx.scale(12, 80))}):
        t = good[:k]
        segs = t.split('.')
        feats = dict(nseg=len(segs))
        if len(segs) == 3:
            feats['siglen'] = len(segs[2])
        add('truncated', t, feats)
    add('4segments', good + '.x', dict(nseg=4))
    add('empty', '', dict(nseg=1))
    add('header-garbage', make_token('!!!', base_claims, S), dict(header_ok=False))
    add('header-not-json', make_token(b64(b'notjson'), base_claims, S), dict(header_ok=False))
    add('header-not-dict', make_token(b64(b'[1]'), base_claims, S), dict(header_ok=False))
    add('no-alg', make_token({"typ": "JWT"}, base_claims, S), dict(alg=''))
    add('hs256-short-sig', make_token({"alg": "HS256"}, base_claims, 'A' * 10), dict(alg='HS256', siglen=10))
    for n in (0, 1, 43, 85, 87, 88, 172):
        add('siglen', make_token(ES, base_claims, 'A' * n), dict(siglen=n))
    add('sig-bad-chars', make_token(ES, base_claims, '!' * 86), dict(claims_ok=False))
    add('claims-garbage', make_token(ES, '!!!', S), dict(claims_ok=False))
    add('claims-not-dict', make_token(ES, b64(b'[1,2]'), S), dict(claims_ok=False))
    add('claims-not-json', make_token(ES, b64(b'xx'), S), dict(claims_ok=False))
    add('expired', make_token(ES, {"prefix": ["bkt"], "exp": past}, S), dict(exp=past))
    add('expired-long-ago', make_token(ES, {"prefix": ["bkt"], "exp": 1000}, S), dict(exp=1000))
    add('exp-string-int', make_token(ES, {"prefix": ["bkt"], "exp": str(far)}, S), dict(exp=far))
    add('exp-string-bad', make_token(ES, {"prefix": ["bkt"], "exp": "soon"}, S), dict(exp='bad'))
    add('exp-huge', make_token(ES, {"prefix": ["bkt"], "exp": 10 ** 30}, S), dict(exp='bad'))
    add('no-exp', make_token(ES, {"prefix": ["bkt"]}, S), dict(exp=None))
    add('no-prefix', make_token(ES, {"exp": far}, S), dict(has_prefix=False, prefixes=[]))
    add('prefix-other', make_token(ES, {"prefix": ["other"], "exp": far}, S), dict(prefixes=['other']))
    add('prefix-two', make_token(ES, {"prefix": ["other", "bk"], "exp": far}, S), dict(prefixes=['other', 'bk']))
    add('prefix-empty-list', make_token(ES, {"prefix": [], "exp": far}, S), dict(prefixes=[]))
    add('prefix-longer', make_token(ES, {"prefix": [path + 'x'], "exp": far}, S), dict(prefixes=[path + 'x']))
    add('prefix-exact', make_token(ES, {"prefix": [path], "exp": far}, S), dict(prefixes=[path]))
    add('prefix-empty-string', make_token(ES, {"prefix": [""], "exp": far}, S), dict(prefixes=['']))
    add('http-not-loopback', good, {}, scheme='http', host='localhost', url='http://localhost:%d' % fake.port)
    add('expired+http', make_token(ES, {"prefix": ["bkt"], "exp": past}, S), dict(exp=past), scheme='http',
        host='localhost', url='http://localhost:%d' % fake.port)
    return out


# ---------------------------------------------------------------------------------------------------
# token histories: uses of token strings in one process under a scripted clock

T0 = 2000000000          # base of the scripted clock (s); the real clock is never consulted by the code under test
ES256 = {"alg": "ES256", "typ": "JWT"}
REASONS = (("does not have exactly two dots", {1}), ("Could not decode token", {2, 4}), ("Encoded signature has", {3}),
           ("Expiration time must be", {5}), ("Token expired at", {6}), ("no 'prefix' claim", {7}),
           ("only be used with https", {8}), ("does not grant access", {9}))


class _Clock:
    """Stand-in for the `time` module inside katdal.chunkstore_s3: time() is what the history says."""

    def __init__(self, real):
        self._real = real
        self.now = None

    def time(self):
        return self._real.time() if self.now is None else self.now

    def __getattr__(self, name):
        return getattr(self._real, name)


def hist_tokens():
    """The token table: (label, header, claims with exp relative to T0 (int offset | None | str), signature length)."""
    return [dict(label='exp100', claims={"prefix": ["bkt"], "exp": T0 + 100}),
            dict(label='exp200', claims={"prefix": ["bkt"], "exp": T0 + 200, "iss": "kat"}),
            dict(label='noexp', claims={"prefix": ["bkt"]}),
            dict(label='expired', claims={"prefix": ["bkt"], "exp": T0 - 50}),
            dict(label='exp100str', claims={"prefix": ["bkt"], "exp": str(T0 + 100)}),
            dict(label='exp100other', claims={"prefix": ["other"], "exp": T0 + 100}),
            dict(label='exp100short', claims={"prefix": ["bkt"], "exp": T0 + 100}, siglen=85),
            dict(label='exp100noprefix', claims={"exp": T0 + 100}),
            dict(label='exp150two', claims={"prefix": ["zz", "bk"], "exp": T0 + 150}),
            dict(label='exp100float', claims={"prefix": ["bkt"], "exp": T0 + 100.75})]


def hist_claims(case, t, attempt=0):
    """Every history has token strings of its own (claim `jti`), so that nothing a process-wide layer may have kept
    from an earlier history can bear on this one and a replay of the history alone behaves the same."""
    return dict(t['claims'], jti=case.get('nonce', 0) + 1000000 * attempt)


def hist_token_str(case, t, attempt=0):
    return make_token(ES256, hist_claims(case, t, attempt), 'B' * (t.get('siglen', 86) - 1) + 'A')


def hist_token_feats(t):
    c = t['claims']
    exp = c.get('exp')
    return dict(nseg=3, header_ok=True, alg='ES256', siglen=t.get('siglen', 86), claims_ok=True,
                exp=None if exp is None else int(exp), has_prefix='prefix' in c, prefixes=list(c.get('prefix', [])))


def hist_path(u, pls):
    if u['entry'] == 'rdb':
        return 'bkt/x.rdb'
    a = pls[u['payload']]['array']
    return 'bkt/arr/' + '_'.join('%05d' % 0 for _ in a.shape) + '.npy'


def hist_model_case(case):
    """Times go over the wire in ms (exp claims * 1000) so that fractions of a second after the expiry are exact."""
    _, pls = env()
    codes = lambda s: [ord(c) for c in s]
    toks = []
    for t in case['tokens']:
        f = hist_token_feats(t)
        toks.append([f['nseg'], 1, codes(f['alg']), f['siglen'], 1, [] if f['exp'] is None else [f['exp'] * 1000],
                     int(f['has_prefix']), [codes(x) for x in f['prefixes']]])
    uses = []
    for u in case['uses']:
        e = {'decode': 0, 'open': 1, 'rdb': 1, 'call': 2}[u['entry']]
        proc = [1, len(rdb_bytes())] if u['entry'] == 'rdb' else [0, pls[u['payload']]['segs']]
        sch, host = ('http', '127.0.0.1') if u.get('loopback', True) else ('http', 'localhost')
        uses.append([e, u.get('store', 0), u['tok'], T0 * 1000 + u['ms'], codes(sch), codes(host),
                     codes(hist_path(u, pls)), proc, u['fs']])
    return [93, [wire_cfg(case['cfg']), toks, uses]]


def impl_hist(case, mout, read_timeout, attempt=0):
    """All uses of the history in this process, the clock of katdal.chunkstore_s3 set before each.
    Per use: (class, request kinds, log, reason codes | None, token string expected in the Authorization header)."""
    import katdal.chunkstore_s3 as s3mod
    from katdal.chunkstore_s3 import S3ChunkStore
    from katdal.datasources import DataSourceNotFound, TelstateDataSource
    fake, pls = env()
    fake.max_wait = read_timeout + 2.0
    strs = [hist_token_str(case, t, attempt) for t in case['tokens']]   # a re-run gets strings of its own
    real = s3mod.time
    if isinstance(real, _Clock):
        real = real._real
    clock = _Clock(real)
    out = []
    stores = []         # aligned with the model's list of store objects: (store | None, token id)
    s3mod.time = clock
    try:
        for i, u in enumerate(case['uses']):
            if i >= len(mout):
                break
            clock.now = T0 + u['ms'] / 1000.0
            tokstr = strs[u['tok']]
            base = fake.url if u.get('loopback', True) else 'http://localhost:%d' % fake.port
            p = pls[u.get('payload', 0)]
            a = p['array']
            slices = tuple(slice(0, n) for n in a.shape)
            exc = None
            made = None
            fake.arm([action(s) for s in u['fs']], [], 'full', rdb_bytes() if u['entry'] == 'rdb' else p['data'])
            try:
                if u['entry'] == 'decode':
                    claims = s3mod.decode_jwt(tokstr)
                    cls = OK if isinstance(claims, dict) and claims == hist_claims(case, case['tokens'][u['tok']], attempt) else 7
                elif u['entry'] == 'rdb':
                    src = TelstateDataSource.from_url(
                        base + '/bkt/x.rdb?capture_block_id=1234567890&stream_name=sdp_l0&token=' + tokstr,
                        chunk_store=None, timeout=(2, read_timeout), retries=retries_of(case['cfg']))
                    good = src.telstate['int_time'] == 2.0 and len(src.timestamps) == 2
                    cls = OK if good else 7
                else:
                    if u['entry'] == 'open':
                        store = made = S3ChunkStore(base, timeout=(2, read_timeout), retries=retries_of(case['cfg']),
                                                    token=tokstr)
                    else:
                        store, tid = stores[u['store']]
                        tokstr = strs[tid]
                    c = store.get_chunk('bkt/arr', slices, a.dtype)
                    ok = isinstance(c, np.ndarray) and c.dtype == a.dtype and c.shape == a.shape and np.array_equal(c, a)
                    cls = OK if ok else 7
            except DataSourceNotFound as e:
                exc = e.__cause__ if e.__cause__ is not None else e
                cls = classify_exc(exc) if e.__cause__ is not None else RAW
            except Exception as e:
                exc = e
                cls = classify_exc(e)
            log = fake.requests()
            reason = None
            if exc is not None:
                for text, codes_ in REASONS:
                    if text in str(exc):
                        reason = sorted(codes_)
            # keep the list of store objects aligned with the model's
            if u['entry'] in ('open', 'rdb') and mout[i][3] > len(stores):
                stores.append((made, u['tok']))
            out.append((cls, ''.join(k[0] for k in log), log, reason, tokstr, made is not None))
    finally:
        clock.now = None
        s3mod.time = real
    return out


def hist_signature(case, k, mout, what, impl_cls, want_cls):
    u = case['uses'][k]
    tid = u['tok']
    label = case['tokens'][tid]['label'] if u['entry'] != 'call' else 'store-token'
    before = [j for j in range(k) if case['uses'][j]['tok'] == tid and case['uses'][j]['entry'] != 'call']
    seen = sorted({'accepted' if mout[j][4][0][0] not in (INVALIDTOK, AUTH) else 'rejected' for j in before})
    return 'kind=tokhist;entry=%s;token=%s;expired_now=%d;same_token_before=%s;clock=%s;faults=%s;what=%s;impl=%s;want=%s' % (
        u['entry'], label, int(mout[k][5]), '+'.join(seen) or 'never',
        'set_back' if k and u['ms'] < case['uses'][k - 1]['ms'] else 'forward',
        '+'.join(sorted({sym_kind(s) for s in u['fs']})) or 'none', what,
        CLASS_NAMES.get(impl_cls, impl_cls), CLASS_NAMES.get(want_cls, want_cls))


def compare_hist(ctx, case, mout, read_timeout=0.5, confirm=True):
    """Per use: verdict and number of requests vs the stateless spec (property), vs the model (tie); the Authorization
    header of every request that was sent; the reason given for a rejection vs the model's decision (tie).  Only the
    first disagreeing use is reported; the replay keeps the history up to it."""
    res = impl_hist(case, mout, read_timeout, attempt=0 if confirm else 1)
    stale = bool(_state.get('stale'))
    first = {}
    for k, (icls, ireq, log, reason, tokstr, made) in enumerate(res):
        (mres, mn), mdec, _, mstores, (sres, sn), expired = mout[k]
        if mdec == 99 and case['uses'][k]['entry'] == 'call':
            ctx.count('tokhist_call_without_store')
            break
        mcls, scls = mres[0], sres[0]
        rejected = scls in (INVALIDTOK, AUTH) and sn == 0
        nreq = len(log)
        if rejected:
            if icls in (OK, 7) or nreq:
                first.setdefault('property', (k, 'bad_token_not_rejected_before_request', icls, scls))
            elif icls not in (INVALIDTOK, AUTH):
                first.setdefault('property', (k, 'result', icls, scls))
        else:
            if icls != scls:
                first.setdefault('property', (k, 'result', icls, scls))
            elif ireq != 'O' * sn:
                first.setdefault('property', (k, 'requests', icls, scls))
            elif any(e[3] != 'Bearer ' + tokstr for e in log):
                first.setdefault('property', (k, 'authorization_header', icls, scls))
        if not stale:
            if icls != mcls or ireq != 'O' * mn:
                first.setdefault('tie', (k, 'result' if icls != mcls else 'requests', icls, mcls))
            elif reason is not None and mdec not in reason and mdec != 99:
                first.setdefault('tie', (k, 'reject_reason', icls, mcls))
            if (mres, mn) != (sres, sn) and not first:
                first.setdefault('property', (k, 'model_vs_spec', mcls, scls))
        if 'property' in first:
            break
    if first and confirm and read_timeout < 2.0 and any(u['fs'] for u in case['uses']):
        return compare_hist(ctx, case, mout, read_timeout=2.5, confirm=False)
    ctx.traces_validated += len(res)
    if first and len({d['signature'] for d in ctx.disagreements}) >= 30:
        first = {}
        ctx.count('disagreements_beyond_30_signatures')
    for kind, (at, what, a, b) in sorted(first.items()):
        short = dict(case, uses=case['uses'][:at + 1])
        icls, ireq, _, reason, _, _ = res[at]
        ctx.disagree(hist_signature(case, at, mout, what, a, b), short,
                     dict(use=at, result=CLASS_NAMES.get(icls, icls), requests=ireq, reject_reason=reason,
                          earlier=[CLASS_NAMES.get(r[0], r[0]) for r in res[:at]]),
                     dict(model=mout[:at + 1]),
                     'use %d of the history of token uses in one process (clock T0%+.3f s): implementation %s differs '
                     'from %s (%s)' % (at, case['uses'][at]['ms'] / 1000.0, what,
                                       'spec' if kind == 'property' else 'model', CLASS_NAMES.get(b, b)),
                     spec=[m[4] for m in mout[:at + 1]], kind=kind)
    return not first


def hist_cases(ctx):
    rng = ctx.rng
    _, pls = env()
    thorough = ctx.tier == 'thorough'
    toks = hist_tokens()
    G = list(GLITCHES)
    cfg1 = [10, 1, 1, 1, G]
    cases = []

    def accepted(tid, ms, loopback=True):
        """Would a store be constructed?  (only used to aim `call` uses at a store object that exists)"""
        t = toks[tid]
        exp = t['claims'].get('exp')
        return (loopback and t.get('siglen', 86) == 86 and 'prefix' in t['claims']
                and (exp is None or T0 * 1000 + ms <= int(exp) * 1000))

    def finish(uses):
        """Turn `call_of` (index of an earlier open use) into the index of its store object; drop dangling calls."""
        idx, out = {}, []
        n = 0
        for j, u in enumerate(uses):
            u = dict(u)
            if u['entry'] in ('open', 'rdb'):
                if accepted(u['tok'], u['ms'], u.get('loopback', True)):
                    if u['entry'] == 'open':
                        idx[j] = n
                    n += 1
            elif u['entry'] == 'call':
                j0 = u.pop('call_of')
                if j0 not in idx:
                    continue
                u['store'] = idx[j0]
                u['tok'] = uses[j0]['tok']
            out.append(u)
        return out

    # (a) all histories of 2 uses over 2 tokens x {decode, open, rdb} (+ a call on the store of the first use) and
    #     clock pairs around the expiry second of the first token (T0+100 s), incl. a clock set back
    pairs = [(0, 100000), (0, 100001), (99500, 100250), (100000, 101000), (0, 250000), (101000, 0)]
    if thorough:
        pairs += [(100001, 100001), (50000, 50000), (0, 200001), (150000, 250000)]
    for ti, tj in itertools.product((0, 1), repeat=2):
        for e1, e2 in itertools.product(('decode', 'open', 'rdb'), ('decode', 'open', 'rdb', 'call')):
            if e2 == 'call' and (e1 != 'open' or ti != tj):
                continue
            for (m1, m2) in pairs:
                pi = rng.randrange(len(pls))
                uses = [dict(entry=e1, tok=ti, ms=m1, payload=pi, fs=[]),
                        dict(entry=e2, tok=tj, ms=m2, payload=pi, fs=[], call_of=0) if e2 == 'call'
                        else dict(entry=e2, tok=tj, ms=m2, payload=pi, fs=[])]
                cases.append(dict(kind='tokhist', cfg=list(cfg1), tokens=toks, uses=finish(uses)))
    # (b) random histories of 3-8 uses over the whole table
    marks = [0, 50000, 99999, 100000, 100001, 100250, 101000, 149000, 150000, 150500, 199000, 200000, 200001, 260000,
             -50000, -50001, -49000]
    for _ in range(ctx.scale(110, 1200)):
        n = rng.randint(3, 8)
        ms = rng.choice((0, 0, 50000, 99000))
        uses = []
        focus = rng.sample(range(len(toks)), rng.choice((1, 2, 2, 3)))
        for j in range(n):
            r = rng.random()
            if r < 0.55:
                ms = max(ms, rng.choice(marks)) if rng.random() < 0.7 else ms + rng.choice((1, 250, 1000, 60000))
            elif r < 0.70:
                ms = rng.choice(marks)                        # the clock may be set back
            tid = rng.choice(focus) if rng.random() < 0.85 else rng.randrange(len(toks))
            pi = rng.randrange(len(pls))
            opens = [k for k, x in enumerate(uses) if x['entry'] == 'open']
            e = rng.choice(('decode', 'open', 'open', 'rdb', 'call', 'call') if opens else ('decode', 'open', 'open', 'rdb'))
            fs = []
            if e != 'decode' and rng.random() < 0.25:
                fs = [rng.choice(([0, 503], [1, rng.choice(offsets(pls[pi])[:3])], [4, 0], [0, 401], [0, 403], [0, 400]))]
            u = dict(entry=e, tok=tid, ms=ms, payload=pi, fs=fs)
            if e == 'rdb':
                u['fs'] = [s for s in fs if s[0] != 1]       # cut positions are those of the chunk payloads
            if e == 'call':
                u['call_of'] = rng.choice(opens)
                u['payload'] = uses[u['call_of']]['payload'] if rng.random() < 0.5 else pi
            if e in ('open', 'rdb') and rng.random() < 0.06:
                u['loopback'] = False
            uses.append(u)
        cfg = list(cfg1) if rng.random() < 0.7 else [10, 1, rng.choice((0, 1, 2)), rng.choice((0, 1, 2)), G]
        cases.append(dict(kind='tokhist', cfg=cfg, tokens=toks, uses=finish(uses)))
    for n, c in enumerate(cases):
        c['nonce'] = n + 1
    return cases


# ---------------------------------------------------------------------------------------------------
# the other request sites of the public API: put_chunk, is_complete, mark_complete

def impl_site(case, read_timeout):
    """(class | ('bool', value), request paths, log) of one call on a fresh store object."""
    from katdal.chunkstore_s3 import S3ChunkStore
    fake, pls = env()
    p = pls[case['payload']]
    a = p['array']
    slices = tuple(slice(0, n) for n in a.shape)
    fake.max_wait = read_timeout + 2.0
    fake.arm([action(s) for s in case['fs']], [], 'full', b'' if case.get('empty', True) else p['data'])
    val = None
    try:
        store = S3ChunkStore(fake.url, timeout=(2, read_timeout), **retries_kw(case['cfg']))
        if case['site'] == 'put':
            val = store.put_chunk('bkt/arr', slices, a)
            cls = OK if val is None else 7
        elif case['site'] == 'complete':
            val = store.is_complete('bkt/arr')
            cls = OK if val is True else (10 if val is False else 7)
        else:
            val = store.mark_complete('bkt/arr')
            cls = OK if val is None else 7
    except Exception as e:
        cls = classify_exc(e)
    log = fake.requests()
    return cls, log


def compare_site(ctx, case, mout, read_timeout=0.5, confirm=True):
    import hashlib
    _, pls = env()
    icls, log = impl_pre(case, read_timeout, confirm)
    site = case['site']
    names = dict(CLASS_NAMES)
    names[10] = 'False'
    problems = []
    paths = [e[2].split('?')[0] for e in log]
    if confirm:
        idx = '_'.join('%05d' % 0 for _ in pls[case['payload']]['array'].shape)
        check_paths(ctx, case, log, ['bkt', 'bkt/arr/complete'] if site == 'mark' else
                    ['bkt/arr/complete'] if site == 'complete' else ['bkt/arr/%s.npy' % idx])
    if site == 'mark':
        mcls, nb, n = mout[0][0], mout[1], mout[2]
        scls, snb, sn = mout[3][0], mout[4], mout[5]
        want = ['/bkt'] * nb + ['/bkt/arr/complete'] * n
        case['_consumed'] = nb + n
        if icls != scls:
            problems.append(('property', 'result', icls, scls))
        elif paths != ['/bkt'] * snb + ['/bkt/arr/complete'] * sn:
            problems.append(('property', 'requests', icls, scls))
        if icls != mcls or paths != want:
            problems.append(('tie', 'result' if icls != mcls else 'requests', icls, mcls))
        if any(e[1] != 'PUT' for e in log):
            problems.append(('property', 'method', icls, mcls))
        if '/bkt/arr/complete' in paths and icls == OK and not stale_ok(paths):
            problems.append(('property', 'marker_before_bucket', icls, mcls))
    else:
        if site == 'put':
            mcls, mn, scls, sn = mout[0][0], mout[1], mout[2][0], mout[3]
        else:
            code = lambda r: OK if r[0] == 0 else (10 if r[0] == 1 else r[1])
            mcls, mn, scls, sn = code(mout[0]), mout[1], code(mout[2]), mout[3]
        case['_consumed'] = mn
        guarded = case.get('empty', True)       # answers without a body: the counting spec applies (theorem)
        if guarded and icls != scls:
            problems.append(('property', 'result', icls, scls))
        elif guarded and len(log) != sn:
            problems.append(('property', 'requests', icls, scls))
        if icls != mcls or len(log) != mn:
            problems.append(('tie', 'result' if icls != mcls else 'requests', icls, mcls))
        if site == 'put':
            p = pls[case['payload']]
            good = (len(p['data']), hashlib.md5(p['data']).hexdigest())
            if any(e[1] != 'PUT' or tuple(e[4:6]) != good for e in log):
                problems.append(('property', 'altered_upload', icls, scls))
        elif any(e[1] != 'GET' or e[0] != 'O' for e in log):
            problems.append(('property', 'listing_or_method', icls, scls))
        if mcls != scls and guarded and not problems:
            problems.append(('property', 'model_vs_spec', mcls, scls))
        auto = case.get('_auto')
        if auto is not None and not _state.get('stale'):
            # the counting automaton of requests that are not streamed (theorem: = the model of the loop, for all inputs)
            acls, an = (OK if auto[1][0][0] == 0 else auto[1][0][0]), auto[1][1]
            if site == 'complete':
                acls = OK if auto[1][0][0] == 0 else (10 if auto[1][0][0] in (NOTFOUND, GLITCH) else auto[1][0][0])
            if (icls, len(log)) != (acls, an) and not problems:
                problems.append(('tie', 'unstreamed_automaton', icls, acls))
            if icls == OK and site == 'complete' and auto[1][0] != [0, len(pls[case['payload']]['data'])]:
                problems.append(('property', 'answer_without_its_whole_body_accepted', icls, acls))
    if problems and confirm and read_timeout < 2.0:
        return compare_site(ctx, case, mout, read_timeout=2.5, confirm=False)
    ctx.traces_validated += 1
    if _state.get('stale'):
        problems = [q for q in problems if q[0] == 'property']
    if problems and len({d['signature'] for d in ctx.disagreements}) >= 30:
        problems = []
        ctx.count('disagreements_beyond_30_signatures')
    for (k, what, a, b) in problems:
        used = case['fs'][:case['_consumed']]
        sig = 'kind=site;site=%s;answer=%s;faults=%s%s;what=%s;impl=%s;want=%s' % (
            site, 'empty' if case.get('empty', True) else 'body', '+'.join(sorted({sym_kind(x) for x in used})) or 'none',
            '' if cfg_form(case['cfg']) == 'Retry' else ';retries=' + cfg_form(case['cfg']),
            what, names.get(a, a), names.get(b, b))
        ctx.disagree(sig, case, dict(result=names.get(icls, icls), requests=[(e[1], e[2]) for e in log]),
                     dict(model=mout), '%s: implementation %s differs from %s (%s)' % (
                         site, what, 'spec' if k == 'property' else 'model', names.get(b, b)), spec=mout, kind=k)
    return not problems


def stale_ok(paths):
    """The marker is requested only after a bucket request."""
    return paths.index('/bkt/arr/complete') > 0 and paths[0] == '/bkt'


def site_cases(ctx):
    rng = ctx.rng
    _, pls = env()
    thorough = ctx.tier == 'thorough'
    G = list(GLITCHES)
    cases = []
    # no `cut after 0 bytes` of an empty answer: the server would merely close a keep-alive connection after a complete
    # answer, and whether the NEXT request of the same call notices that in time is a race inside urllib3
    syms = [[0, 503], [0, 500], [0, 404], [0, 403], [0, 401], [0, 400], [0, 409], [4, 0], [4, 2], [0, 502]]
    budgets = ((1, 1), (0, 1), (2, 0)) if not thorough else tuple(itertools.product((0, 1, 2), repeat=2))
    for site in ('put', 'complete', 'mark'):
        for read, status in budgets:
            for n in range(4 if thorough and (read, status) == (1, 1) else 3):
                for fs in itertools.product(syms, repeat=n):
                    if n == 2 and not thorough and rng.random() < 0.5:
                        continue
                    cases.append(dict(kind='site', site=site, cfg=[10, 1, read, status, G],
                                      payload=rng.randrange(len(pls)), fs=[list(x) for x in fs], empty=True))
    slow_left = [ctx.scale(4, 100)]
    for _ in range(ctx.scale(120, 2000)):
        opt = lambda hi: rng.choice([None] + list(range(hi + 1)) * 2)
        cfg = [rng.choice((10, 10, None, 2, 3)), rng.choice((0, 1, 2)), opt(3), opt(3),
               list(rng.choice([GLITCHES, GLITCHES, (503,), ()]))]
        if rng.random() < 0.3:
            cfg = list(rng.choice(USER_FORMS))
        pi = rng.randrange(len(pls))
        site = rng.choice(('put', 'complete', 'mark'))
        # an answer without a body cannot be cut; a reset after it would race with the complete answer
        empty = rng.random() < 0.7 or site == 'mark'
        fs = []
        for _ in range(rng.randint(1, 5)):
            r = rng.random()
            if r < 0.07 and slow_left[0] > 0:
                slow_left[0] -= 1
                fs.append([4, 1])
            elif empty or r < 0.6:
                fs.append(list(rng.choice(syms)))
            else:
                fs.append([rng.choice((1, 2)), rng.choice(offsets(pls[pi])[:-1])])
        cases.append(dict(kind='site', site=site, cfg=cfg, payload=pi, fs=fs, empty=empty))
    # answers WITH a body to requests that are not streamed (theorem C09_unstreamed_request: the counting automaton):
    # all scripts of length <= 2 over {503, reset before the header, close before the header, body cut early / late,
    # body reset, 404, 403} + the shapes in which what the adapter retried is forgotten, for `put` and `complete`
    for site in ('put', 'complete'):
        for read, status in ((1, 1), (0, 1), (2, 1), (1, 0)) if not thorough else tuple(itertools.product((0, 1, 2), repeat=2)):
            pi = rng.choice((0, 2, 3))
            ks = offsets(pls[pi])
            bs = [[0, 503], [4, 0], [4, 2], [1, ks[0]], [1, ks[-1]], [2, ks[2]], [0, 404], [0, 403]]
            scripts = [list(x) for n in (1, 2) for x in itertools.product(bs, repeat=n)]
            cut = [1, rng.choice(ks)]
            scripts += [[[4, 0], cut, [4, 0]], [[0, 503], cut, [0, 503]], [[0, 503], cut, [0, 503], cut, [0, 503]],
                        [cut, [4, 0], cut], [[4, 0], [0, 503], cut, [4, 0], [0, 503]], [cut, cut, [0, 503]],
                        [[0, 503], [4, 2], cut, [0, 502], [0, 403]]]
            for fs in scripts:
                if len(fs) == 2 and not thorough and rng.random() < 0.4:
                    continue
                cases.append(dict(kind='site', site=site, cfg=[10, 1, read, status, G], payload=pi,
                                  fs=[list(x) for x in fs], empty=False))
    return cases


# ---------------------------------------------------------------------------------------------------
# the retry budget in force at every request site: the Retry object handed to the HTTP adapter for the FIRST attempt

BUDGET_SITES = ('chunk', 'rdb', 'listing', 'put', 'bucket', 'marker', 'complete')     # order of S3Budget.all_sites
RDB_ENTRIES = ('from_url', 'from_url_auto', 'open')


def impl_budget(case):
    """One fault-free call per request site on stores / data sets configured with the `retries` form of the case;
    {site or rdb:<entry>: Retry tuple of the first attempt | 'raised X' | None (no such request seen)}."""
    from katdal.chunkstore_s3 import S3ChunkStore
    fake, pls = env()
    p = pls[0]
    a = p['array']
    slices = tuple(slice(0, n) for n in a.shape)
    fake.max_wait = 3.0
    out = {}

    def spied(fn, pick):
        _state['spy'] = spy = []
        try:
            fn()
        except Exception as e:
            if not spy:
                return 'raised %s' % type(e).__name__
        finally:
            _state['spy'] = None
        return pick(spy)

    first = lambda method, listing=False: (lambda spy: next((r[3] for r in spy if r[0] == method and r[2] == listing), None))
    path = lambda suffix: (lambda spy: next((r[3] for r in spy if r[1].endswith(suffix) and not r[2]), None))
    try:
        store = S3ChunkStore(fake.url, timeout=(2, 2.0), **retries_kw(case['cfg']))
    except Exception as e:
        return {k: 'raised %s' % type(e).__name__ for k in BUDGET_SITES}
    out['store'] = _retry_tuple(getattr(store, 'retries', None))
    fake.arm([], [], 'full', p['data'])
    out['chunk'] = spied(lambda: store.get_chunk('bkt/arr', slices, a.dtype), first('GET'))
    fake.arm([('status', 404)], [], 'full', p['data'])
    out['listing'] = spied(lambda: store.get_chunk('b_2/arr', slices, a.dtype), first('GET', True))
    fake.arm([], [], 'full', b'')
    out['put'] = spied(lambda: store.put_chunk('bkt/arr', slices, a), first('PUT'))
    both = {}

    def mark():
        _state['spy'] = spy = []
        try:
            store.mark_complete('bkt/arr')
        except Exception:
            pass
        finally:
            _state['spy'] = None
        both['bucket'] = next((r[3] for r in spy if r[0] == 'PUT' and r[1].rstrip('/').endswith('/bkt')), None)
        both['marker'] = next((r[3] for r in spy if r[0] == 'PUT' and r[1].endswith('/complete')), None)
    mark()
    out.update(both)
    out['complete'] = spied(lambda: store.is_complete('bkt/arr'), first('GET'))
    for how in RDB_ENTRIES:
        c = dict(kind='rdb', cfg=case['cfg'], fs=[], how=how)
        out['rdb:' + how] = spied(lambda: impl_rdb(c, 2.0), path('x.rdb'))
    return out


def compare_budget(ctx, case, mout):
    """Property: the Retry object every request site starts from carries the STORE-LEVEL budget of the `retries`
    argument (total, connect, read, status, forcelist); tie: it is what the model computes for that site."""
    conv = lambda c: [(x[0] if x else None) for x in c[:4]] + [sorted(c[4])]
    store = conv(mout[0])
    per_site = {k: conv(c) for k, c in zip(BUDGET_SITES, mout[1:])}
    got = impl_budget(case)
    ctx.traces_validated += len(got)
    stale = bool(_state.get('stale'))
    ok = True
    fields = ('total', 'connect', 'read', 'status', 'forcelist')
    for key in sorted(got):
        site = key.split(':')[0]
        have = got[key]
        want_m = store if site == 'store' else per_site[site]
        for kind, want in (('property', store), ('tie', want_m)):
            if have == want or (kind == 'tie' and stale):
                continue
            ok = False
            diff = '+'.join(f for f, x, y in zip(fields, have, want) if x != y) if isinstance(have, list) and \
                len(have) == 5 else 'no_retry_object'
            sig = 'kind=budget;site=%s%s;retries=%s;what=budget_in_force;differs=%s' % (
                site, ';entry=' + key.split(':')[1] if ':' in key else '', cfg_form(case['cfg']), diff)
            ctx.disagree(sig, dict(case, site=key), dict(first_attempt_retry=have), dict(model=want_m),
                         'request site %s with retries=%s: the first attempt starts from Retry%s, the %s is %s'
                         % (key, cfg_form(case['cfg']), have, 'configured (store-level) budget' if kind == 'property'
                            else 'model of this site', want), spec=store, kind=kind)
            break
    return ok


def budget_cases(ctx):
    rng = ctx.rng
    cases = [dict(kind='budget', cfg=list(f)) for f in USER_FORMS]
    cases += [dict(kind='budget', cfg=[10, 1, 1, 1, list(GLITCHES)]), dict(kind='budget', cfg=[None, 0, 2, None, [503]]),
              dict(kind='budget', cfg=[rng.choice((3, 7)), rng.choice((0, 2)), rng.choice((0, 3)), rng.choice((0, 4)), []])]
    return cases


# ---------------------------------------------------------------------------------------------------
# which object is asked for: make_url / _bucket_url on generated relative paths

def url_cases(ctx):
    rng = ctx.rng
    words = ['bkt', 'b_2', 'c3', '1557528200_sdp_l0', 'correlator_data', 'a_b_c', '_', '__x', 'x_', '-', 'a-b_c', 'arr',
             '00000_00012_00512.npy', 'complete', 'w.x_y', '_-_']
    rels = ['bkt/arr/00000_00000.npy', 'b_2/arr/00000.npy', '1557528200_sdp_l0/correlator_data/00012_00000_00512.npy',
            'b_2', '/b_2/x_y', 'b_2/', 'a_b/c_d', '_/_', '']
    for _ in range(ctx.scale(150, 1500)):
        n = rng.choice((1, 2, 2, 3, 3, 4))
        segs = [rng.choice(words) if rng.random() < 0.7 else
                ''.join(rng.choice('ab_-.09Z') for _ in range(rng.randint(1, 6))) for _ in range(n)]
        segs = [x if x not in ('.', '..') else 'd' + x for x in segs]
        rel = '/'.join(segs)
        if rng.random() < 0.1:
            rel = '/' + rel
        if rng.random() < 0.1:
            rel += '/'
        rels.append(rel)       # no empty or dot components in the middle: urljoin drops / resolves them (urllib, not katdal)
    return [dict(kind='url', rel=r) for r in dict.fromkeys(rels) if not r.startswith('//')]


def compare_url(ctx, case, mout):
    import urllib.parse
    from katdal.chunkstore_s3 import S3ChunkStore, _bucket_url
    fake, _ = env()
    store = _state.get('url_store')
    if store is None:
        store = _state['url_store'] = S3ChunkStore(fake.url)
    txt = lambda codes: ''.join(chr(c) for c in codes)
    want_path, want_bucket = txt(mout[0]), txt(mout[1])
    problems = []
    try:
        url = store.make_url(case['rel'])
        sp = urllib.parse.urlsplit(url)
        got_path = sp.path
        got_bucket = urllib.parse.urlsplit(_bucket_url(url)).path.lstrip('/')
        base_ok = url.startswith(fake.url) and not sp.query and not sp.fragment
    except Exception as e:
        got_path = got_bucket = 'raised %s' % type(e).__name__
        base_ok = True
    ctx.traces_validated += 1
    if got_path != want_path or not base_ok:
        problems.append(('path', got_path, want_path))
    elif got_bucket != want_bucket:
        problems.append(('bucket', got_bucket, want_bucket))
    for what, a, b in problems:
        first = case['rel'].lstrip('/').split('/')[0]
        sig = 'kind=url;components=%d;underscore_in_bucket=%d;underscore_in_key=%d;leading_slash=%d;what=%s' % (
            len([x for x in case['rel'].split('/') if x]), int('_' in first),
            int('_' in case['rel'].lstrip('/')[len(first):]), int(case['rel'].startswith('/')), what)
        ctx.disagree(sig, case, dict(got=a), dict(model=b),
                     'make_url / _bucket_url: %s of the request differs from the model (%r, want %r)' % (what, a, b),
                     spec=b, kind='property')
    return not problems


def expected_paths(ctx):
    """Object paths the other case kinds must ask for, from the model: chunk name -> path on the wire."""
    _, pls = env()
    names = {}
    for b in BUCKET_NAMES:
        for p in pls:
            idx = '_'.join('%05d' % 0 for _ in p['array'].shape)
            names['%s/arr/%s.npy' % (b, idx)] = None
        names[b + '/arr/complete'] = None
        names[b] = None
    keys = sorted(names)
    outs = ctx.model([[94, [[ord(c) for c in k]]] for k in keys])
    return {k: ''.join(chr(c) for c in o[0]) for k, o in zip(keys, outs)}


def check_paths(ctx, case, log, names):
    """Every object request of a case asks for one of the expected objects (by the model of make_url)."""
    exp = _state.get('expected_paths')
    if not exp or _state.get('stale'):
        return
    ok = {exp[n] for n in names if n in exp}
    # a request for the (correctly addressed) object of ANOTHER case is a straggler of that case on the shared loopback
    # endpoint (a retry that was still in flight when its case was judged), not a mis-addressed request of this one:
    # only objects that no case may ask for are reported (one such straggler was seen once in ~25 000 thorough cases)
    legit = set(exp.values())
    bad = [e[2] for e in log if e[0] == 'O' and e[2].split('?')[0] not in ok and e[2].split('?')[0] not in legit]
    if bad:
        ctx.disagree('kind=%s;what=another_object_requested' % case['kind'], case, dict(requested=bad[:3]),
                     dict(expected=sorted(ok)), 'a request asked for %s, expected one of %s' % (bad[0], sorted(ok)),
                     spec=sorted(ok), kind='property')


# ---------------------------------------------------------------------------------------------------

# ---------------------------------------------------------------------------------------------------
# The counting spec once more, in Python.  Used ONLY for the failing-input search on a tree on which the model files of
# this property do not compile (broken translator item: the pipeline leaves their wires out of the model binary) - and,
# on every normal run, compared with the extracted spec on all chunk / rdb / put / is_complete cases.

def py_store_budget(cfg):
    if len(cfg) == 5:
        return cfg
    c, r = (2, 2) if not cfg else (cfg[0], cfg[0]) if len(cfg) == 1 else cfg
    return [10, c, r, 5, list(GLITCHES)]


def py_spec(cfg, length, fs):
    """(class, number of requests) by counting faults against the store-level budget."""
    total, _, read, status, fl = py_store_budget(cfg)
    nr = ns = n = 0
    for s in fs:
        if (s[0] in (1, 2, 3) and s[1] < length) or s[0] == 4:
            nr += 1
        elif s[0] == 0 and s[1] in fl:
            ns += 1
        elif s[0] == 0:
            return (AUTH if s[1] in (401, 403) else NOTFOUND if s[1] == 404 else UNAVAIL), n + 1
        else:
            return OK, n + 1
        n += 1
        if (read is not None and nr > read) or (status is not None and ns > status) or (total is not None and n > total):
            return GLITCH, n
    return OK, n + 1


def py_mout(case):
    """Output in the format of the wire of the case kind with the python spec in both halves; None = no fallback."""
    _, pls = env()
    kind = case['kind']
    if kind == 'rdb':
        cls, n = py_spec(case['cfg'], len(rdb_bytes()), case['fs'])
        return [[0 if cls == OK else 1, 0], n, [cls, 0], n]
    if kind == 'chunk':
        cls, n = py_spec(case['cfg'], len(pls[case['payload']]['data']), case['fs'])
        if cls == NOTFOUND:
            return None              # the 404 rule needs the model of the listing request
        return [[cls, 0], n, 0, int(case.get('verified', False)), [cls, 0]]
    if kind == 'token':
        t = case['token']
        bad = (t['nseg'] != 3 or not t['header_ok'] or not t['claims_ok'] or (t['alg'] == 'ES256' and t['siglen'] != 86)
               or (t['exp'] is not None and (not isinstance(t['exp'], int) or case['now'] > t['exp']))
               or not t['has_prefix'] or (case['scheme'] != 'https' and case['host'] != '127.0.0.1')
               or not any(case['path'].startswith(x) for x in t['prefixes']))
        cls, n = py_spec(case['cfg'], len(pls[case['payload']]['data']), case['fs'])
        return [[INVALIDTOK, 0], 0, 1, 0] if bad else [[cls, 0], n, 0, 0]
    if kind == 'site' and case['site'] in ('put', 'complete') and case.get('empty', True):
        cls, n = py_spec(case['cfg'], 0, case['fs'])
        if case['site'] == 'put':
            return [[cls, 0], n, [cls, 0], n]
        r = [0, 0] if cls == OK else [1, 0] if cls in (NOTFOUND, GLITCH) else [2, cls]
        return [r, n, r, n]
    return None


def safe_model(ctx, cases):
    """Model / spec outputs of `cases`.  Kinds whose wire is not in the driver get the python spec (property half
    only: ties are not judged then) or None."""
    left = _state.get('left_out', set())
    mcs = [model_case(c) for c in cases]
    have = [i for i, m in enumerate(mcs) if str(m[0]) not in left]
    out = [None] * len(cases)
    if have:
        for i, o in zip(have, ctx.model([mcs[i] for i in have])):
            out[i] = o
    body = [c for c in cases if c['kind'] == 'site' and c['site'] != 'mark' and not c.get('empty', True)]
    if body and '96' not in left and ctx.model_ok and not _state.get('stale'):
        _, pls = env()
        for c, o in zip(body, ctx.model([[96, [wire_cfg(c['cfg']), len(pls[c['payload']]['data']), c['fs']]] for c in body])):
            c['_auto'] = o
    for i, c in enumerate(cases):
        if out[i] is None:
            out[i] = py_mout(c)
            ctx.count('python_spec_fallback' if out[i] is not None else 'skipped_no_model_wire')
        elif not left and c['kind'] == 'token' and not _state.get('stale'):
            ctx.count('python_spec_crosschecked')
            if py_mout(c)[2] != out[i][2]:
                ctx.disagree('kind=token;what=python_reference_spec_differs_from_extracted_spec', c,
                             dict(python=py_mout(c)[2]), dict(extracted=out[i][2]), 'harness: the python copy of the '
                             'bad-token disjunction differs from the extracted spec', kind='tie')
        elif not left and c['kind'] in ('rdb', 'chunk', 'site') and not _state.get('stale'):
            ref = py_mout(c)
            if ref is not None:
                whole = c['kind'] == 'site' and c['site'] == 'complete'
                cut = (lambda r: r) if whole else (lambda r: r[0])
                spec = (cut(out[i][2]), out[i][3]) if c['kind'] != 'chunk' else (out[i][4][0], None)
                mine = (cut(ref[2]), ref[3]) if c['kind'] != 'chunk' else (ref[4][0], None)
                ctx.count('python_spec_crosschecked')
                if spec != mine:
                    ctx.disagree('kind=%s;what=python_reference_spec_differs_from_extracted_spec' % c['kind'], c,
                                 dict(python=mine), dict(extracted=spec), 'harness: the python copy of the counting '
                                 'spec (used when the model does not build) differs from the extracted spec', kind='tie')
    return out


# ---------------------------------------------------------------------------------------------------
# Worker processes for the implementation runs.  A case of kind chunk / rdb / site / session is a pure function of the case
# (fresh store object(s), its own fault script): K fresh interpreters, each with a loopback endpoint of its own, run them
# side by side (client and fake server of ONE process share a GIL, and the stall symbols are pure waiting).  The parent
# still does every comparison; a disagreement is re-run IN the parent with the generous timeout before it is reported.
# Token kinds stay in the parent (scripted clock, exception texts).

WORKER_KINDS = ('chunk', 'rdb', 'site', 'session')


def impl_any(case, read_timeout):
    kind = case['kind']
    if kind == 'chunk':
        return impl_chunk(case, read_timeout)
    if kind == 'rdb':
        return impl_rdb(case, read_timeout)
    if kind == 'site':
        return impl_site(case, read_timeout)
    if kind == 'session':
        return impl_session(case, read_timeout)
    raise ValueError(kind)


def impl_pre(case, read_timeout, confirm):
    """The result a worker computed for this case (first look only), else a run in this process."""
    pre = case.pop('_pre', None)
    if pre is not None and confirm and read_timeout == 0.5:
        return pre
    return impl_any(case, read_timeout)


def worker_main():
    import sys
    out = os.fdopen(os.dup(1), 'w')
    os.dup2(2, 1)                      # nothing but results on the result pipe
    quiet()
    env()
    rdb_bytes()
    for line in sys.stdin:
        try:
            r = impl_any(json.loads(line), 0.5)
        except Exception as e:         # the parent runs the case itself
            r = None
        out.write(json.dumps(r) + '\n')
        out.flush()
    out.write(json.dumps({'slept': len(_state['nosleep'].slept)}) + '\n')
    out.flush()


class _Workers:
    def __init__(self, n):
        import subprocess
        import sys
        self.procs = [subprocess.Popen([sys.executable, '-c', 'from props import c09; c09.worker_main()'],
                                       stdin=subprocess.PIPE, stdout=subprocess.PIPE, text=True, bufsize=1)
                      for _ in range(n)]
        self.dead = set()
        self.feeders = []
        self.slept = 0

    def submit(self, cases):
        """Hands the cases out round-robin; returns for each case the worker that has it (the results of one worker come back
        in the order of submission)."""
        import threading
        n = len(self.procs)
        lines = [[] for _ in range(n)]
        owner = []
        for j, c in enumerate(cases):
            w = j % n
            owner.append(w)
            lines[w].append(json.dumps({k: v for k, v in c.items() if not k.startswith('_')}) + '\n')

        def feed(w):
            try:
                for ln in lines[w]:
                    self.procs[w].stdin.write(ln)
                self.procs[w].stdin.flush()
            except Exception:
                self.dead.add(w)
        for w in range(n):
            t = threading.Thread(target=feed, args=(w,), daemon=True)
            t.start()
            self.feeders.append(t)
        return owner

    def result(self, w):
        if w in self.dead:
            return None
        try:
            line = self.procs[w].stdout.readline()
            if not line:
                raise EOFError
            return json.loads(line)
        except Exception:
            self.dead.add(w)           # everything still owed by this worker is run in the parent
            return None

    def close(self):
        for t in self.feeders:
            t.join(5)
        for w, p in enumerate(self.procs):
            try:
                p.stdin.close()
                if w not in self.dead:
                    last = p.stdout.readline()
                    self.slept += json.loads(last).get('slept', 0) if last else 0
                p.wait(10)
            except Exception:
                p.kill()


def farm_out(ctx, cases):
    """Attaches to every farmable case the result of a worker (`_pre`); yields nothing when there are no workers."""
    pool = _state.get('workers')
    todo = [c for c in cases if c['kind'] in WORKER_KINDS]
    if pool is None or len(todo) < 8:
        return lambda c: None
    owner = {id(c): w for c, w in zip(todo, pool.submit(todo))}

    def fetch(c):
        w = owner.get(id(c))
        if w is None:
            return
        r = pool.result(w)
        if r is not None:
            c['_pre'] = r
            ctx.count('impl_runs_in_worker_processes')
    return fetch


def canon(case):
    return json.dumps({k: v for k, v in case.items() if k not in ('token_str', 'url') and not k.startswith('_')},
                      sort_keys=True, default=str)


def run_cases(ctx, cases):
    mouts = safe_model(ctx, cases) if (ctx.model_ok or _state.get('stale')) else None
    fetch = farm_out(ctx, [c for i, c in enumerate(cases) if mouts is not None and mouts[i] is not None])
    for i, c in enumerate(cases):
        if mouts is None or mouts[i] is None:
            continue
        fetch(c)
        compare(ctx, c, mouts[i])
        if c['kind'] == 'session':
            ctx.note_case(canon(c), nontrivial=any(o['fs'] for o in c['ops']),
                          sample=c if i % 97 == 0 else None)
            ctx.count('kind=session')
            ctx.count('session_calls', len(c['ops']))
            ctx.count('session_len=%d' % len(c['ops']))
            ctx.count('session_store_objects=%d' % len(c.get('cfgs', [0])))
            for k, o in enumerate(c['ops']):
                if 'cfgs' in c and o['fs'][-1:] == [[0, 404]] and not mouts[i][k][5] and any(
                        c['ops'][j]['bucket'] == o['bucket'] and c['ops'][j]['store'] != o['store']
                        and mouts[i][j][4][0] == NOTFOUND for j in range(k)):
                    ctx.count('session_404_in_bucket_that_only_another_store_object_verified')
                ctx.count('session_result=' + CLASS_NAMES.get(mouts[i][k][4][0], '?'))
                if k and mouts[i][k][4][0] == UNAVAIL and any(
                        c['ops'][j]['bucket'] == o['bucket'] and c['ops'][j].get('store', 0) == o.get('store', 0)
                        and mouts[i][j][4][0] in (UNAVAIL, GLITCH, AUTH)
                        and c['ops'][j]['fs'][-1:] == [[0, 404]] for j in range(k)):
                    ctx.count('session_repeated_404_in_unverified_bucket')
                if mouts[i][k][5] and o['fs'][-1:] == [[0, 404]]:
                    ctx.count('session_404_in_cached_bucket')
            continue
        if c['kind'] == 'tokhist':
            ctx.note_case(canon(c), nontrivial=True, sample=dict(c, tokens=[t['label'] for t in c['tokens']]) if i % 97 == 0 else None)
            ctx.count('kind=tokhist')
            ctx.count('tokhist_uses', len(c['uses']))
            seen_ok = set()
            for k, u in enumerate(c['uses']):
                ctx.count('tokhist_entry=' + u['entry'])
                acc = mouts[i][k][4][0][0] not in (INVALIDTOK, AUTH)
                ctx.count('tokhist_verdict=' + ('accepted' if acc else 'rejected'))
                if mouts[i][k][5]:
                    ctx.count('tokhist_expired_now')
                    if u['tok'] in seen_ok:
                        ctx.count('tokhist_expired_after_same_token_was_accepted')
                    if u['entry'] == 'call':
                        ctx.count('tokhist_expired_on_live_store')
                if acc and u['entry'] != 'call':
                    seen_ok.add(u['tok'])
                if k and u['ms'] < c['uses'][k - 1]['ms']:
                    ctx.count('tokhist_clock_set_back')
            continue
        if c['kind'] == 'url':
            ctx.note_case(canon(c), nontrivial='_' in c['rel'], sample=c if i % 97 == 0 else None)
            ctx.count('kind=url')
            first = c['rel'].lstrip('/').split('/')[0]
            ctx.count('url_underscore=bucket:%d,key:%d' % (int('_' in first), int('_' in c['rel'].lstrip('/')[len(first):])))
            continue
        if c['kind'] == 'budget':
            ctx.note_case(canon(c), nontrivial=True, sample=c if i % 5 == 0 else None)
            ctx.count('kind=budget')
            ctx.count('budget_retries=' + cfg_form(c['cfg']))
            continue
        if c['kind'] == 'site':
            ctx.count('site_retries=' + cfg_form(c['cfg']))
            ctx.note_case(canon(c), nontrivial=bool(c['fs']), sample=c if i % 97 == 0 else None)
            ctx.count('kind=site')
            ctx.count('site=%s;answer=%s' % (c['site'], 'empty' if c.get('empty', True) else 'body'))
            ctx.count('site_len=%d' % len(c['fs']))
            if c.get('_auto') is not None:
                ctx.count('unstreamed_with_body')
                if c['_auto'][1] != c['_auto'][2]:
                    ctx.count('unstreamed_adapter_retries_forgotten_visible')
                if c['_auto'][0] != c['_auto'][1]:
                    ctx.disagree('kind=site;what=extracted_model_differs_from_extracted_automaton', c, None, None,
                                 'wire 96: request cfg PListing differs from spec_unstreamed (theorem C09_unstreamed_request)',
                                 kind='tie')
            continue
        nontrivial = bool(c.get('fs')) or c['kind'] == 'token'
        ctx.note_case(canon(c), nontrivial=nontrivial,
                      sample={k: v for k, v in c.items() if k not in ('token_str', 'url', 'token')} if i % 97 == 0 else None)
        ctx.count('kind=' + c['kind'])
        if c['kind'] in ('chunk', 'rdb'):
            ctx.count('%s_retries=%s' % (c['kind'], cfg_form(c['cfg'])))
        if c['kind'] == 'rdb':
            ctx.count('rdb_entry=' + c.get('how', 'from_url'))
        ctx.count('len=%d' % len(c.get('fs', [])))
        for s in c.get('fs', []):
            ctx.count('sym=' + sym_kind(s))
        if c['kind'] != 'token':
            ctx.count('result=' + CLASS_NAMES.get(mouts[i][0][0] if c['kind'] == 'chunk' else mouts[i][2][0], '?'))


def run(ctx):
    quiet()
    if not ctx.model_ok:
        # broken translator / model build: search for a failing input against the SPEC computed by the model binary of
        # the last good build (the spec does not depend on the tree); ties are not judged with a stale model
        from vh import core
        if not os.path.exists(os.path.join(core.EXTRACT_DIR, 'driver')):
            return
        _state['stale'] = True
    else:
        # the pipeline falls back to the last driver when the model no longer builds (broken translator item): its SPEC
        # half is still the property, its MODEL half describes another tree - ties are not judged with it
        from vh import core
        stamp = os.path.join(core.EXTRACT_DIR, 'stamp')
        # stamp = <hash of the model sources>|<model files left out of the driver>; the second part is judged below
        if not os.path.exists(stamp) or open(stamp).read().split('|')[0] != core.model_hash():
            _state['stale'] = True
    env()
    _state['left_out'] = left_out_wires()
    if _state['left_out'] & {'9', '91', '92', '93', '94', '95', '96', '97'}:
        _state['stale'] = True
    # known-finding witnesses first (fixed ones must pass, open ones must still fail)
    for f in ctx.findings:
        w = dict(f['witness'])
        w.setdefault('label', 'witness')
        mo = safe_model(ctx, [w])[0]
        if mo is not None:
            compare(ctx, w, mo)
        ctx.count('known_finding_witnesses')
    cdir = os.path.join(os.path.dirname(os.path.dirname(os.path.dirname(os.path.abspath(__file__)))), 'corpus', 'C09')
    if os.path.isdir(cdir):
        for fn in sorted(os.listdir(cdir)):
            if fn.endswith('.json'):
                run_cases(ctx, [json.load(open(os.path.join(cdir, fn)))])
    if ctx.model_ok and not _state.get('stale'):
        _state['expected_paths'] = expected_paths(ctx)
    walls = ctx.extra.setdefault('wall_s_by_case_family', {})
    nworkers = int(os.environ.get('VERIF_C09_WORKERS', '4'))
    if nworkers > 0:
        _state['workers'] = _Workers(nworkers)
        ctx.extra['worker_processes'] = nworkers
    for name, gen in (('url', url_cases), ('token', token_cases), ('tokhist', hist_cases), ('site', site_cases),
                      ('session', session_cases), ('chunk+rdb', gen_cases), ('budget', budget_cases)):
        t0 = time.time()
        run_cases(ctx, gen(ctx))
        walls[name] = round(time.time() - t0, 1)
    ctx.exhaustive = False
    ctx.extra['exhaustive_part'] = ('all fault scripts of length <= %d over the %d fast symbols for the 9 (read, status) '
                                    'budgets in {0,1,2}^2 (18 symbols for the zero-size payload); all histories of <= 2 get_chunk calls on one store object '
                                    'over 11 call shapes x 2 buckets%s' % (3 if ctx.tier == 'thorough' else 2, 20,
                                    ', of 3 calls over 10 call shapes' if ctx.tier == 'thorough' else ''))
    if ctx.tier == 'thorough':
        from vh import core
        allc = gen_cases(ctx) + token_cases(ctx) + session_cases(ctx)[::7] + hist_cases(ctx)[::5] + site_cases(ctx)[::9]
        sample = [model_case(c) for c in allc[::max(1, len(allc) // 250)][:250]]
        a = ctx.model(sample)
        # the clean rebuild of the thorough tier only compiled the cone of Props/C09.v: Dispatch needs every model
        targets = ' '.join(x[:-2] + '.vo' for x in core.coq_sources() if x.startswith(('Base/', 'Gen/', 'Model/')))
        with core.BuildLock():
            core.sh('timeout 1500 make -j4 %s' % targets, cwd=core.COQ, timeout=1600)
            core.sh('timeout 600 coqc -Q . KV Extract/Dispatch.v', cwd=core.COQ, timeout=700)
        b = core.run_model_in_coq(sample, 'c09')
        if a != b:
            ctx.disagree('what=extraction_vs_vm_compute', dict(kind='extraction'), None, None,
                         'extracted model differs from vm_compute', kind='tie')
        ctx.extra['extraction_crosscheck_cases'] = len(sample)
    slept_in_workers = 0
    if _state.get('workers') is not None:
        _state['workers'].close()
        slept_in_workers = _state['workers'].slept
    ctx.extra['backoff_sleeps_skipped'] = len(_state['nosleep'].slept) + slept_in_workers
    _state['fake'].close()
    remove_library_hooks()
    _state.clear()


def replay(ctx, doc):
    quiet()
    case = doc.get('case') or doc.get('witness')
    if not case or 'kind' not in case:
        return
    _state['left_out'] = left_out_wires()
    if _state['left_out'] & {'9', '91', '92', '93', '94', '95', '96', '97'}:
        _state['stale'] = True
    if ctx.model_ok and not _state.get('stale'):
        env()
        _state['expected_paths'] = expected_paths(ctx)
    mo = safe_model(ctx, [case])[0]
    if mo is None:
        return
    ok = compare(ctx, case, mo)
    ctx.note_case(canon(case))
    log = __import__('sys').stderr
    print('replay: %s -> %s; model/spec output %s' % (canon(case)[:300], 'agrees' if ok else 'DISAGREES', mo), file=log)
