"""C01 (round 5): the time axis H5DataV3.__init__ builds from the file -- resynthesis of the timestamps from the ADC
sample counter (time_scale= / time_origin= overrides, sync time moved forward on the evidence of the regular sensors,
counter wraps inside the observation), the refusals and the shift to mid-dump -- against Model/DataSetResyn.v
(wire_1006) through katdal.open.

Files: a small MVF v3 file (c01files.write_v3) whose timestamps / CBF attributes / regular sensors are then rewritten:
the TRUE dump times are generated first, the stored timestamps are what a 48-bit counter at 2 ** 48 / W samples per
second (wrap period W = 32 s ... 2 ** 28 s) would have recorded.  Everything is dyadic, so float64 is exact and the
comparison is exact equality with the rationals of the model.

Oracles: MODEL = wire_1006 (the translated statements), SPEC = the documented times computed here over Fractions
(`spec_times`, hand-written, also the fallback while no model binary has the wire), and -- independent of both -- the
TRUE dump times the file was generated from, whenever the generator stayed inside the domain where unwrapping must
recover them (consecutive dumps less than half a wrap period apart, no override, origin not moved)."""
import os
import random
import shutil
from fractions import Fraction as Fr

import h5py
import numpy as np

import katdal
from fixtures import c01files as cf
from fixtures.v4 import scratch_dir

REGULAR = ('air_temperature', 'air_relative_humidity', 'air_pressure', 'pos_actual_scan_azim', 'pos_actual_scan_elev',
           'script_log')
T0 = 1500000000.0
ERR_OF = {'AssertionError': 1, 'BrokenFile': 2, 'IndexError': 4}


def q(x):
    f = Fr(x)
    return [f.numerator, f.denominator]


def optq(x):
    return [] if x is None else [q(x)]


def gen_case(rng, k):
    """A file description (all values exact binary fractions)."""
    strat = ['plain', 'wrap_inside', 'origin_old', 'overrides', 'boundary', 'malformed'][k % 6] if k < 12 else \
        rng.choice(['plain', 'wrap_inside', 'wrap_inside', 'origin_old', 'origin_old', 'overrides', 'overrides', 'boundary',
                    'boundary', 'malformed'])
    T = rng.choice([1, 1, 2, 2, 3, 4, 5, 6, 8])
    if strat == 'boundary':
        T = max(T, 2)
    dt = rng.choice([1.0, 2.0, 4.0])
    W = 2.0 ** rng.choice([5, 6, 8, 20, 28] if strat != 'wrap_inside' else [5, 5, 6])
    # true start of every dump: quarter-dump grid, never early, sometimes late / dropped dumps
    g, grid4 = 0, []
    for i in range(T):
        grid4.append(g)
        g += 4 + rng.choice([0, 0, 0, 1, 2, 4])
    two_wraps = strat == 'wrap_inside' and (k == 7 or (k >= 12 and rng.random() < 0.35))
    if two_wraps:
        # an observation longer than the wrap period: the counter wraps TWICE (or more) between first and last dump
        W, dt, T = 32.0, 4.0, rng.choice([6, 7, 8])
        grid4 = [0]
        for i in range(T - 1):
            grid4.append(grid4[-1] + rng.choice([6, 8]))
    true = [T0 + dt / 4 * x for x in grid4]
    # the counter started (sync time) s0 seconds before the first dump
    if strat == 'wrap_inside':
        span = true[-1] - true[0]
        s0 = W - rng.choice([0.25, dt, dt * 1.5, max(0.25, span / 2), max(0.25, span)])     # a wrap during (or right after) the data
        s0 = max(0.0, s0)
        if two_wraps:
            s0 = W - rng.choice([0.25, dt, 2 * dt])
    else:
        s0 = rng.choice([0.0, 0.25, dt, W / 2, W - 0.25]) if rng.random() < 0.5 else rng.randrange(0, int(min(W, 4096) * 4)) / 4.0
    sync = T0 - s0
    wraps_before = 0
    if strat == 'origin_old':
        wraps_before = rng.choice([1, 1, 2, 3, 7])          # the counter had already wrapped before the observation
    stored = [(((t - sync) % W) + sync) for t in true]      # time implied by the counter modulo 2 ** 48
    sync_file = sync - 0.0
    true_sync = sync                                        # the sync time that makes the stored counters right
    if wraps_before:
        sync_file = sync - wraps_before * W
        stored = [s - wraps_before * W for s in stored]
    case = dict(strat=strat, T=T, dt=dt, W=W, grid4=grid4, stored=stored, sync=sync_file, scale=2.0 ** 48 / W,
                cbf_dt=rng.choice([0.25, 0.5]), ref=rng.choice([None, None, 'centroid']), dup=rng.random() < 0.25,
                rows_extra=0, time_scale=None, time_origin=None, time_offset=rng.choice([0.0, 0.0, 0.5, -1.25]),
                sens=[], true=true, wraps_before=wraps_before)
    # the regular sensors (cache order = HDF5 order of the TelescopeModel group: anc/* first, then m000/*, m001/*)
    dur = stored[-1] + dt - stored[0]
    kinds = ['short', 'equal', 'long']

    def record(kind, first):
        length = dict(short=max(0.25, dur - rng.choice([0.25, dur / 2])), equal=dur, long=dur + rng.choice([0.25, 16.0, 640.0]))[kind]
        return [first, first + length]
    if strat == 'origin_old':
        # the observation really started at true[0]: sensors start a little before it
        lead = rng.choice([0.0, 0.25, 8.0, W / 4])
        rec = [(nm, record(rng.choice(kinds if rng.random() < 0.4 else ['long']), true[0] - lead)) for nm in ('anc_t', 'az0', 'el0')]
        if rng.random() < 0.4:
            # boundary of the loop test: the record starts EXACTLY a whole number of wrap periods after the file's sync time
            rec[0] = ('anc_t', record('long', sync_file + rng.choice([1, 2, wraps_before, wraps_before + 1]) * W))
    else:
        first = rng.choice([stored[0] - 10.0, stored[0] - 0.25, sync_file + W, sync_file + W + 0.25, sync_file + 2 * W,
                            sync_file + 3 * W - 0.25, stored[0] - 40.0])
        rec = [(nm, record(rng.choice(kinds), first + rng.choice([0.0, 0.0, 4.0]))) for nm in ('anc_t', 'az0', 'el0')]
    if rng.random() < 0.2:
        rec = rec[1:]                                       # no ancillary sensor at all
    case['sens'] = rec
    if strat == 'overrides':
        case['time_scale'] = rng.choice([None, case['scale'], case['scale'] / 2, case['scale'] * 2, case['scale'] * 4])
        case['time_origin'] = rng.choice([None, sync_file, sync_file + W, sync_file + 8.0, sync_file - 16.0, T0 - 100.0])
        if case['time_scale'] is None and case['time_origin'] is None:
            case['time_scale'] = case['scale'] / 2
    if strat == 'boundary' and T >= 2:
        # a backward step of EXACTLY half a wrap period (not a wrap), or one quarter of a second more (a wrap), or a small one
        i = rng.randrange(1, T)
        steps = [-W / 2, -W / 2 - 0.25, -W / 2 + 0.25, -dt, -W + 0.25]
        step = steps[(k // 6) % 5] if k < 60 else rng.choice(steps)      # every kind of step in every run
        shift = (stored[i - 1] + step) - stored[i]
        case['stored'] = stored[:i] + [s + shift for s in stored[i:]]
        case['true'] = None
    if strat == 'malformed':
        m = rng.choice(['rows', 'rows', 'ref', 'nocbf', 'nocbf_centroid'])
        if m == 'rows':
            case['rows_extra'] = rng.choice([-1, 1, 2]) if T > 1 else 1
        elif m == 'ref':
            case['ref'] = 'start'
        elif m == 'nocbf':
            case['cbf_dt'], case['ref'] = None, None
        else:
            case['cbf_dt'], case['ref'] = None, 'centroid'
        case['malformed'] = m
    if case['time_scale'] is not None or case['time_origin'] is not None or strat in ('boundary',):
        case['true'] = None
    return case


def stored_list(case):
    return case['stored'] + ([case['stored'][-1]] if case['dup'] else [])


def candidates(case):
    """(first, last) of the regular sensors in cache order (HDF5 visits TelescopeModel by name: anc/air_temperature,
    then pos_actual_scan_azim / _elev of m000 and of m001, which carry the same records), as the file was written."""
    d = dict(case['sens'])
    return ([tuple(d['anc_t'])] if 'anc_t' in d else []) + [tuple(d['az0']), tuple(d['el0']), tuple(d['az0']), tuple(d['el0'])]


def written(case):
    """The Data/timestamps dataset as written: the stored list, or (malformed) with rows_extra entries more / fewer."""
    st = stored_list(case)
    rows = len(st) + case['rows_extra']
    return (st + [st[-1] + case['dt'] * (i + 1) for i in range(3)])[:rows] if rows >= len(st) else st[:rows]


def wire_case(case):
    st = written(case)
    rows = len(stored_list(case))
    ref = [] if case['ref'] is None else [1 if case['ref'] == 'centroid' else 0]
    f = [[q(t) for t in st], rows, q(case['dt']), optq(case['cbf_dt']), ref, q(case['scale']), q(case['sync']),
         [[q(a), q(b)] for a, b in candidates(case)]]
    o = [optq(case['time_scale']), optq(case['time_origin']), q(case['time_offset'])]
    return [1006, [f, o]]


def spec_times(case):
    """The DOCUMENTED outcome over exact rationals (hand-written; independent of the translator and of the Coq model):
    ('err', code) or ('ok', [timestamps], origin)."""
    st = [Fr(t) for t in written(case)]
    if case['ref'] not in (None, 'centroid'):
        return ('err', 1)
    if case['ref'] is None and case['cbf_dt'] is None:
        return ('err', 2)
    if not st:
        return ('err', 4)
    scale, sync = Fr(case['scale']), Fr(case['sync'])
    tscale = Fr(case['time_scale']) if case['time_scale'] is not None else scale
    origin = Fr(case['time_origin']) if case['time_origin'] is not None else sync
    wrap = Fr(2 ** 48) / tscale
    dur = st[-1] + Fr(case['dt']) - st[0]
    ss = Fr(0)
    for a, b in candidates(case):
        if Fr(b) - Fr(a) > dur:
            ss = Fr(a)
            break
    k = 0
    while ss - (origin + k * wrap) > wrap:      # smallest k >= 0 with the sensor start at most one wrap period later
        k += 1
    origin += k * wrap
    counts = [scale * (t - sync) for t in st]
    w, out = 0, []
    for i, n in enumerate(counts):
        if i and n - counts[i - 1] < -(2 ** 47):
            w += 1
        out.append((n + w * 2 ** 48) / tscale + origin)
    if len(st) != len(stored_list(case)):
        return ('err', 3)
    if len(out) > 1 and out[-1] == out[-2]:
        out = out[:-1]
    mid = Fr(0) if case['ref'] == 'centroid' else Fr(case['cbf_dt']) / 2
    return ('ok', [t + mid + Fr(case['time_offset']) for t in out], origin)


def write_file(case, tmp):
    fn = os.path.join(tmp, '1500000000.h5')
    T = case['T']
    az = dict(case['sens'])['az0']
    el = dict(case['sens'])['el0']
    hist = dict(num=dict((a, dict(azim=[(az[0], 10.), (az[1], 20.)], elev=[(el[0], 30.), (el[1], 40.)])) for a in ('m000', 'm001')),
                cat=dict((a, [(T0 - 10, 'mode0')]) for a in ('m000', 'm001')))
    cf.write_v3(fn, T=T, F=3, dt=case['dt'], t0=T0, acts=[(0, 'track')], targets=[(0, 'azel, 10, 40')], labels=[(0, 'track')],
                dup_last=case['dup'], centroid=False, cbf_dt=case['cbf_dt'] if case['cbf_dt'] is not None else 0.5, hist=hist)
    with h5py.File(fn, 'r+') as f:
        del f['Data/timestamps']
        st = written(case)
        ds = f['Data'].create_dataset('timestamps', data=np.array(st, dtype=np.float64))
        if case['ref'] is not None:
            ds.attrs['timestamp_reference'] = case['ref']
        cbf = f['TelescopeModel/cbf']
        cbf.attrs['scale_factor_timestamp'] = case['scale']
        cbf.attrs['sync_time'] = case['sync']
        if case['cbf_dt'] is None:
            del cbf.attrs['int_time']
        d = dict(case['sens'])
        if 'anc_t' in d:
            g = f['TelescopeModel'].create_group('anc')
            g.attrs['class'] = 'AncillaryDevices'
            g.create_dataset('air_temperature', data=cf._num([(d['anc_t'][0], 20.), (d['anc_t'][1], 21.)]))
            # a sensor that is NOT regular, with a very long record, earlier in the cache: must be ignored
            g.create_dataset('aaa_wind_speed', data=cf._num([(T0 - 9000., 1.), (T0 + 9000., 2.)]))
    return fn


def short(case):
    return dict((k, v) for k, v in case.items() if k not in ('true',))


def run_case(ctx, case, hid, model_out=None):
    tmp = scratch_dir('c01resyn')
    try:
        fn = write_file(case, tmp)
        kw = dict(centre_freq=1284e6, time_offset=case['time_offset'])
        if case['time_scale'] is not None:
            kw['time_scale'] = case['time_scale']
        if case['time_origin'] is not None:
            kw['time_origin'] = case['time_origin']
        try:
            d = katdal.open(fn, **kw)
            impl = ('ok', [Fr(float(t)) for t in d.timestamps[:]], None)
            extra = dict(n=int(d.shape[0]), sensor_ts=[Fr(float(t)) for t in d.sensor.timestamps[:]],
                         start=Fr(float(d.start_time.secs)), end=Fr(float(d.end_time.secs)), lens=len(d.dumps))
            del d
        except Exception as e:      # noqa: BLE001
            impl = ('err', ERR_OF.get(type(e).__name__, type(e).__name__), repr(e)[:160])
            if type(e).__name__ == 'BrokenFile':
                impl = ('err', 2 if 'CBF dump period unknown' in str(e) else 3 if 'differs from number of dumps' in str(e) else 'BrokenFile', repr(e)[:160])
            extra = None
    finally:
        shutil.rmtree(tmp, ignore_errors=True)
    spec = spec_times(case)
    ctx.traces_validated += 1
    in_domain = case['strat'] != 'malformed'
    ctx.note_case(['resyn', hid['rseed'], hid['k']], nontrivial=case['strat'] != 'plain',
                  sample=dict(strat=case['strat'], T=case['T'], W=case['W']))
    ctx.count('resyn:strat=' + case['strat'])
    ctx.count('resyn:T=%s' % ('1' if case['T'] == 1 else '2' if case['T'] == 2 else '3+'))
    if sum(1 for a, b in zip(case['stored'], case['stored'][1:]) if b - a < -case['W'] / 2) > 1:
        ctx.count('resyn:several_wraps_inside')
    ctx.count('resyn:outcome=' + (spec[0] if spec[0] == 'ok' else 'err%s' % spec[1]))
    cdoc = dict(hid=hid, fail_at=0, spec=dict(fmt='v3', resyn=short(case)),
                ops=['katdal.open(file, time_scale=%r, time_origin=%r, time_offset=%r); d.timestamps[:]'
                     % (case['time_scale'], case['time_origin'], case['time_offset'])])

    def fl(r):
        return [r[0], [float(x) for x in r[1]]] if r[0] == 'ok' else list(r[:2])
    base = 'fmt=v3;resyn;strat=%s;' % case['strat']
    # ---- the tie: model (translated statements) against the implementation
    if model_out is not None:
        m = model_out
        if len(m[0]) == 1 and isinstance(m[0][0], int):
            mod = ('err', m[0][0])
            mspec = None
        else:
            mod = ('ok', [Fr(a, b) for a, b in m[0][0]], Fr(*m[0][1]))
            mspec = [Fr(a, b) for a, b in m[1]]
        if mod[:2] != impl[:2]:
            what = ('refusal' if 'err' in (mod[0], impl[0]) else 'n_dumps' if len(mod[1]) != len(impl[1]) else
                    'shifted_by_constant' if len(set(a - b for a, b in zip(mod[1], impl[1]))) == 1 else 'timestamps')
            ctx.disagree(base + 'what=%s;vs=model' % what, cdoc, fl(impl), fl(mod),
                         'H5DataV3 time axis differs from the model of the resynthesis block', spec=fl(spec), kind='tie')
        if mod[0] == 'ok' and spec[0] == 'ok' and (mod[2] != spec[2]):
            ctx.disagree(base + 'what=origin;model_vs_spec', cdoc, None, float(mod[2]), 'model sync time differs from the documented one',
                         spec=float(spec[2]), kind='tie')
        if mod[0] == 'ok' and mspec is not None and spec[0] == 'ok':
            # the Coq spec lists the times before the duplicate is dropped
            if mspec[:len(spec[1])] != spec[1]:
                ctx.disagree(base + 'what=coq_spec_vs_harness_spec', cdoc, None, [float(x) for x in mspec], 'the two spec sides differ',
                             spec=fl(spec), kind='tie')
    # ---- the property: implementation against the documented times
    if impl[0] == 'ok':
        if spec[0] == 'err':
            if in_domain:
                ctx.disagree(base + 'what=opens_but_documented_refusal', cdoc, fl(impl), None, 'file should not open', spec=fl(spec))
            # out of domain: data returned for a file the documentation refuses: a violation only when data are wrong;
            # there is no documented right answer here, so only count it
            ctx.count('resyn:malformed_opened')
        elif impl[1] != spec[1]:
            diffs = set(a - b for a, b in zip(impl[1], spec[1]))
            what = ('n_dumps' if len(impl[1]) != len(spec[1]) else 'shifted_by_constant' if len(diffs) == 1 else 'timestamps')
            ctx.disagree(base + 'what=%s;overrides=%d;origin_moved=%d' % (
                what, int(case['time_scale'] is not None or case['time_origin'] is not None), int(spec[2] != Fr(case['sync']))),
                cdoc, fl(impl), None, 'd.timestamps[:] are not the documented times of the stored sample counters', spec=fl(spec))
        else:
            if extra['sensor_ts'] != impl[1] or extra['n'] != len(impl[1]) or extra['lens'] != len(impl[1]):
                ctx.disagree(base + 'what=sensor_cache_or_shape_vs_timestamps', cdoc, [float(x) for x in extra['sensor_ts']], None,
                             'sensor.timestamps / shape[0] / len(dumps) differ from d.timestamps', spec=fl(spec))
            half = Fr(case['dt']) / 2
            if extra['start'] != impl[1][0] - half or extra['end'] != impl[1][-1] + half:
                ctx.disagree(base + 'what=start_end_time', cdoc, [float(extra['start']), float(extra['end'])], None,
                             'start_time / end_time are not the edges of the first / last dump',
                             spec=[float(impl[1][0] - half), float(impl[1][-1] + half)])
            # the independent oracle: the true dump times the counters were generated from
            if case.get('true') is not None and spec[2] == Fr(case['sync']) + case['wraps_before'] * Fr(case['W']):
                half_w = Fr(case['W']) / 2
                tr = [Fr(t) for t in case['true']]
                if all(b - a < half_w for a, b in zip(tr, tr[1:])):
                    mid = Fr(0) if case['ref'] == 'centroid' else Fr(case['cbf_dt']) / 2
                    want = [t + mid + Fr(case['time_offset']) for t in tr]
                    ctx.count('resyn:true_times_checked')
                    if impl[1] != want:
                        ctx.disagree(base + 'what=not_the_true_dump_times', cdoc, fl(impl), None,
                                     'unwrapping did not recover the true dump times', spec=[float(x) for x in want])
    else:
        if spec[0] == 'ok' and in_domain:
            ctx.disagree(base + 'what=open_raises;exc=%s' % impl[1], cdoc, impl[2], None, 'a well-formed file does not open', spec=fl(spec))
        elif spec[0] == 'ok':
            ctx.count('resyn:malformed_refused')
        elif spec[0] == 'err' and impl[1] != spec[1]:
            ctx.count('resyn:refused_with_another_error')


def model_outs(ctx, cases):
    """wire_1006 answers, or None for every case when no model binary has the wire (the Python spec then stands in)."""
    if not ctx.model_ok:
        return [None] * len(cases)
    try:
        outs = ctx.model([wire_case(c) for c in cases])
    except Exception as e:      # noqa: BLE001   (wire left out of a partial / last-good driver)
        ctx.extra['resyn_model'] = 'wire_1006 unavailable (%s): searching with the documented times only' % str(e)[:80]
        return [None] * len(cases)
    if any(o == [-999] for o in outs):
        ctx.extra['resyn_model'] = 'wire_1006 unavailable: searching with the documented times only'
        return [None] * len(cases)
    return outs


def run(ctx):
    n = ctx.scale(48, 400)
    rseed = ctx.rng.randrange(1 << 30)
    rng = random.Random(rseed)
    cases = [gen_case(rng, k) for k in range(n)]
    outs = model_outs(ctx, cases)
    for k, (case, mo) in enumerate(zip(cases, outs)):
        run_case(ctx, case, dict(kind='resyn', rseed=rseed, k=k), mo)


def replay(ctx, hid):
    rng = random.Random(hid['rseed'])
    case = None
    for k in range(hid['k'] + 1):
        case = gen_case(rng, k)
    mo = model_outs(ctx, [case])[0]
    run_case(ctx, case, hid, mo)
