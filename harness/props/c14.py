"""C14 — Calibration solutions become corrections by the documented interpolation rules.

The real katdal functions (complex_interp, calc_delay/bandpass/gain_correction, calibrate_flux, the virtual product /
correction sensors registered by add_applycal_sensors on a real SensorCache, _normalise_cal_products) are run on
generated inputs given in POLAR form (dyadic magnitude, rational phase in turns) and compared with the extracted Coq
model (Model/CalInterp.v, wire_14).  Structure (which entries are NaN, events, which solution is held, target
grouping, name lists) is compared exactly; finite complex values within 8 ulp of complex64.
"""
import itertools
import math
import warnings
from fractions import Fraction as Fr

import numpy as np

import katpoint
from katdal.applycal import (INVALID_GAIN, add_applycal_sensors, calc_bandpass_correction, calc_delay_correction,
                             calc_gain_correction, calibrate_flux, complex_interp, get_cal_product)
from katdal.categorical import CategoricalData, ComparableArrayWrapper
from katdal.sensordata import SensorCache, SimpleSensorGetter
from katdal.visdatav4 import SENSOR_PROPS, _normalise_cal_products

RULE = ('solution histories in polar form (magnitudes 2^k or k/4; phases k/odd turns that wrap freely (complex128) or '
        'k/16..k/48 turns inside a window narrower than half a turn (complex64); no two phases of one history differ by '
        'exactly half a turn): (ci) complex_interp on random nodes / abscissae '
        '(nodes, midpoints, outside, dyadic points) x left/right in {None, INVALID_GAIN, value} x complex64/128; '
        '(K) delays with NaN; (B) bandpasses with NaN runs incl. edges and all-NaN, data channels on/between/outside '
        'cal channels; (G) gain histories with the INVALID_GAIN placeholder, NaN solutions, 1 or several channels, '
        'optional per-dump target sequence (self-cal); (F) flux tables with valid/NaN/zero/negative fluxes, aliases, '
        'overrides, disabled; (D) the K / B correction array calc_correction delivers per dump, DATA channel and correlation '
        'product for cal channelisations equal to / within 1 mHz of / offset from / narrower / coarser than the data (same '
        'count) or of another count (1..12 channels); (S) multi-part products through a real SensorCache with missing parts / missing '
        'timestamps per part and several substreams; (E) the registered Calibration/Corrections sensors end to end, the '
        'calculator chosen by the model dispatch table; (N) _normalise_cal_products exhaustively over <= 2 streams x all '
        'request forms; (P0) calc_correction on injected correction sensors: 1-7 products of 3 streams x 5 types, with '
        'duplicates, each complete / absent / lacking some data inputs, skip on/off; (P1) requests (38 fixed forms + random '
        'lists of streams / types / stream.type) on l1 / l2 streams registered by add_applycal_sensors from raw solutions '
        '(1-2 substreams, a substream lacking a product, cal antennas a subset of the data antennas, missing spectral '
        'attributes); (O) whole VisibilityDataV4 data sets: 0-2 cal and 0-2 imager streams (0-2 targets) in telstate, '
        'archived or not, in any order, 6 requests each; (L) whole data sets whose sdp_archived_streams lists SEVERAL streams '
        'of each type in random order: 0-3 sdp.cal streams (some untyped / wrongly typed / unarchived / without cal input '
        'map), 1-4 imager streams each with 1-3 self-cal targets / an empty targets dict / no targets attribute / another '
        'stream type / unarchived (half of the layouts put an imager without targets before a productive one), unknown '
        'names; 4 requests each (default + 3 of 14 forms); observed: applycal_products, which stream\'s solutions the l1 / '
        'l2 product sensors hold, the l2 corrections; (T) 2-3 data sets opened one after the other and kept open.  '
        'B, G and E outputs are compared with the documented-decision spec and with the source-following model.  A case '
        'is non-trivial when it has >= 2 valid solutions (ci/B/G), >= 1 missing piece (S), a non-empty request (N), or '
        'some but not all expanded products present (P0/P1/O); distinct by its full canonical input.')
ASSUMPTIONS = [
    'the ONE tolerance: finite complex outputs are compared with |impl - model| <= 8 * 2^-23 * |model| (8 ulp of '
    'complex64), needed because cos/sin/angle/sqrt are computed in floating point (cos(pi/2) is not 0); '
    'NaN-ness, events, lengths, names and product lists are compared exactly; the product of two corrections delivered '
    'by calc_correction (stream D) is compared within 16 ulp of complex64',
    'consecutive valid phases never differ by exactly half a turn (mod 1): np.unwrap decides that case on rounding '
    'noise of np.angle',
    'complex64 solutions are generated with unwrapped phase excursions below 1 turn (np.angle of complex64 is float32, '
    'so longer excursions lose more than 8 ulp in the unwrapped phase); longer excursions use complex128 solutions',
    'magnitudes are non-zero and finite; frequencies / dump indices are exactly representable; timestamps of cal '
    'product samples coincide with dump mid-times (event placement itself is property C10)',
    'katpoint.Target(name | alias, radec, ...) exposes .name and .aliases',
    'data sets have at least one data input; the self-cal substreams of one imager stream share antennas, polarisations '
    'and channel count; solutions of different substreams have different timestamps',
    'names in sdp_archived_streams are non-empty and listed once; the targets of one imager have distinct names; '
    'telstate.join(a, b) is a + \'_\' + b',
    'harness SensorCaches are built with their own virtual={} (the default argument of SensorCache is one shared dict); '
    'every `opened` case first drops applycal templates left in visdatav4.VIRTUAL_SENSORS by earlier data sets (no-op '
    'with the fix of finding C14-F1) - what data sets do to each other is checked by the two_sets stream',
]

TOL = 8 * 2.0 ** -23
N_INV = None


# ------------------------------------------------------------------ conversions

def q(x):
    f = Fr(x)
    return [f.numerator, f.denominator]


def fq(p):
    return Fr(p[0], p[1])


_EXACT = {Fr(0): (1.0, 0.0), Fr(1, 4): (0.0, 1.0), Fr(1, 2): (-1.0, 0.0), Fr(-1, 4): (0.0, -1.0)}


def to_c(m, p):
    """(magnitude, phase in turns) -> complex128, reducing the phase exactly first."""
    p = Fr(p)
    r = p - math.floor(p + Fr(1, 2))          # in [-1/2, 1/2)
    if r == Fr(-1, 2):
        r = Fr(1, 2)
    if r in _EXACT:
        c, s = _EXACT[r]
    else:
        a = 2 * math.pi * float(r)
        c, s = math.cos(a), math.sin(a)
    return complex(float(m) * c, float(m) * s)


def opv_c(v):
    """polar-or-None -> complex (NaN for None)"""
    return complex(np.nan, np.nan) if v is None else to_c(v[0], v[1])


def wire_pv(v):
    return [q(v[0]), q(v[1])]


def wire_opv(v):
    return [] if v is None else [wire_pv(v)]


def parse_opv(x):
    return None if not x else (fq(x[0][0]), fq(x[0][1]))


def same(z, mv):
    """implementation complex z vs model polar-or-None mv: exact NaN structure, 8 ulp otherwise"""
    z = complex(z)
    if mv is None:
        return math.isnan(z.real) and math.isnan(z.imag)
    if math.isnan(z.real) or math.isnan(z.imag):
        return False
    e = to_c(mv[0], mv[1])
    return abs(z - e) <= TOL * abs(e)


def same_array(zs, mvs):
    zs = np.asarray(zs).ravel()
    return len(zs) == len(mvs) and all(same(z, m) for z, m in zip(zs, mvs))


def show(zs):
    return [repr(complex(z)) for z in np.asarray(zs).ravel()[:12]]


def show_m(mvs):
    return [None if m is None else [str(m[0]), str(m[1])] for m in list(mvs)[:12]]


# ------------------------------------------------------------------ generators

SMALL_DEN = [16, 48, 12, 5, 32]
ODD_DEN = [3, 5, 7, 9, 15]


def gen_mag(rng):
    return rng.choice([Fr(1), Fr(2), Fr(1, 2), Fr(4), Fr(3, 4), Fr(5, 4), Fr(8), Fr(1, 4), Fr(3)])


def gen_phases(rng, n, small):
    """n phases in (-1/2, 1/2] such that NO two of them differ by exactly half a turn (mod 1), so the rule survives
    dropping invalid solutions and grouping by target.  small: all within a window narrower than half a turn that does
    not straddle +-1/2, so no sub-sequence is ever wrapped (the complex64 / float32-phase path then stays within the
    tolerance); otherwise multiples of 1/odd, which wrap freely."""
    if small:
        den = rng.choice(SMALL_DEN)
        lo_k, hi_k = -(den // 2) + 1, den // 2          # k/den in (-1/2, 1/2]
        w = max(0, (7 * den) // 16 - 1)                 # window width w/den < 1/2
        a = rng.randint(lo_k, hi_k - w)
        return [Fr(rng.randint(a, a + w), den) for _ in range(n)]
    den = rng.choice(ODD_DEN)
    return [Fr(rng.randint(-(den - 1) // 2, (den - 1) // 2), den) for _ in range(n)]


def gen_values(rng, n, small, p_nan=0.0):
    ph = gen_phases(rng, n, small)
    return [None if rng.random() < p_nan else (gen_mag(rng), ph[i]) for i in range(n)]


def c_array(vals, dtype):
    return np.array([opv_c(v) for v in vals], dtype=dtype)


def pick_dtype(rng):
    """(dtype, small): complex64 only with small excursions"""
    if rng.random() < 0.6:
        return np.complex64, True
    return np.complex128, rng.random() < 0.3


# ------------------------------------------------------------------ (U) numpy.unwrap itself

def check_unwrap(ctx, ph):
    mo = [fq(p) for p in ctx.model([[14, [0, [q(p) for p in ph]]]])[0]]
    got = np.unwrap(2 * np.pi * np.array([float(p) for p in ph])) / (2 * np.pi)
    turns_i = [round(g - float(p)) for g, p in zip(got, ph)]
    turns_m = [m - p for m, p in zip(mo, ph)]
    case = dict(kind='unwrap', phases=[str(p) for p in ph])
    if any(t.denominator != 1 for t in turns_m) or [int(t) for t in turns_m] != turns_i:
        ctx.disagree('kind=unwrap;symptom=turns_differ', case, turns_i, [str(t) for t in turns_m],
                     'numpy.unwrap shifts a sample by a different number of whole turns than the model', kind='tie')
    ctx.traces_validated += 1
    ctx.note_case(('unwrap', tuple(ph)), nontrivial=len(ph) >= 2, sample=case)
    ctx.count('unwrap')


def gen_unwrap(rng):
    n = rng.randint(1, 8)
    den = rng.choice(ODD_DEN + [16, 12])
    out = []
    for _ in range(n):
        for _ in range(50):
            p = Fr(rng.randint(-2 * den, 2 * den), den)
            if not out or (p - out[-1] - Fr(1, 2)).denominator != 1:
                break
        else:
            p = out[-1]
        out.append(p)
    return out


# ------------------------------------------------------------------ (ci) complex_interp

def wire_ext(e):
    if e == 'hold':
        return [0]
    if e == 'inv':
        return [1]
    return [2, wire_pv(e)]


def ext_arg(e):
    if e == 'hold':
        return None
    if e == 'inv':
        return INVALID_GAIN
    return to_c(*e)


def check_cinterp(ctx, case):
    xi = [Fr(x) for x in case['xi']]
    vals = [(Fr(m), Fr(p)) for m, p in case['yi']]
    xs = [Fr(x) for x in case['x']]
    left = case['left'] if isinstance(case['left'], str) else (Fr(case['left'][0]), Fr(case['left'][1]))
    right = case['right'] if isinstance(case['right'], str) else (Fr(case['right'][0]), Fr(case['right'][1]))
    dtype = np.dtype(case['dtype'])
    mo = ctx.model([[14, [1, [q(x) for x in xs], [[q(a), wire_pv(v)] for a, v in zip(xi, vals)],
                          wire_ext(left), wire_ext(right)]]])[0]
    mo = [parse_opv(o) for o in mo]
    with warnings.catch_warnings():
        warnings.simplefilter('ignore')
        y = complex_interp(np.array([float(x) for x in xs]), np.array([float(x) for x in xi]),
                           c_array(vals, dtype), left=ext_arg(left), right=ext_arg(right))
    if y.dtype != dtype or not same_array(y, mo):
        where = [i for i, (z, m) in enumerate(zip(y, mo)) if not same(z, m)]
        pos = 'none'
        if where:
            x = xs[where[0]]
            pos = 'left' if x < xi[0] else 'right' if x > xi[-1] else 'node' if x in xi else 'between'
        ctx.disagree('kind=cinterp;at=%s;symptom=%s' % (pos, 'nan_structure' if where and (
            (mo[where[0]] is None) != bool(np.isnan(y[where[0]]))) else 'value'), case, show(y), show_m(mo),
            'complex_interp differs from magnitude / unwrapped-phase linear interpolation')
    ctx.traces_validated += 1
    ctx.note_case(('ci', repr(case)), nontrivial=len(xi) >= 2, sample=case if len(xi) <= 3 else None)
    ctx.count('cinterp:' + case['dtype'])


def gen_cinterp(rng):
    n = rng.randint(1, 6)
    dtype, small = pick_dtype(rng)
    xi = sorted(rng.sample(range(-8, 24), n))
    if rng.random() < 0.3:
        xi = [Fr(x, 2) for x in xi]
    vals = gen_values(rng, n, small)
    xs = list(xi)
    xs += [(Fr(a) + Fr(b)) / 2 for a, b in zip(xi[:-1], xi[1:])]
    xs += [Fr(xi[0]) - 1, Fr(xi[0]) - Fr(1, 4), Fr(xi[-1]) + Fr(1, 2), Fr(xi[-1]) + 3]
    xs += [Fr(rng.randint(-40, 100), 4) for _ in range(4)]
    rng.shuffle(xs)

    def ext():
        r = rng.random()
        if r < 0.4:
            return 'hold'
        if r < 0.7:
            return 'inv'
        return (gen_mag(rng), Fr(rng.choice([-3, -2, -1, 1, 2, 3]), 7))
    left, right = ext(), ext()
    # explicit left/right phases are k/7 (k != 0): never half a turn from a node phase with the denominators used
    return dict(kind='cinterp', xi=[str(x) for x in xi], yi=[[str(m), str(p)] for m, p in vals],
                x=[str(x) for x in xs], left=left if isinstance(left, str) else [str(left[0]), str(left[1])],
                right=right if isinstance(right, str) else [str(right[0]), str(right[1])],
                dtype=np.dtype(dtype).name)


# ------------------------------------------------------------------ categorical helpers

def make_cat(values, events):
    return CategoricalData(values, events)


def cat_segments(s):
    return [(int(seg.start), v) for seg, v in s.segments()]


# ------------------------------------------------------------------ (K) delays

def check_delay(ctx, case):
    delays = [None if d is None else Fr(d) for d in case['delays']]
    freqs = [Fr(f) for f in case['freqs']]
    events = case['events']
    npol, nant, idx = case['shape'][0], case['shape'][1], tuple(case['index'])
    vals = []
    for k, d in enumerate(delays):
        a = np.full((npol, nant), 0.125 * (k + 1))
        a[idx] = np.nan if d is None else float(d)
        vals.append(ComparableArrayWrapper(a))
    sensor = make_cat(vals, events)
    mo = ctx.model([[14, [2, [[] if d is None else [q(d)] for d in delays], [q(f) for f in freqs]]]])[0]
    out = calc_delay_correction(sensor, idx, np.array([float(f) for f in freqs]))
    ok = list(out.events) == list(events)
    segs = cat_segments(out)
    ok = ok and len(segs) == len(delays)
    bad = None
    if ok:
        for k, ((st, v), m) in enumerate(zip(segs, mo)):
            mv = [(fq(e[0]), fq(e[1])) for e in m]
            if v.dtype != np.complex64 or not same_array(v, mv):
                bad = (k, v, mv)
                break
    if not ok or bad:
        sig = 'kind=delay;delay=%s;symptom=%s' % ('nan' if bad and delays[bad[0]] is None else 'finite',
                                                  'value' if bad else 'events')
        ctx.disagree(sig, case, show(bad[1]) if bad else list(map(int, out.events)), show_m(bad[2]) if bad else events,
                     'delay correction is not exp(-2 pi i d f) (missing delay = 0) per solution')
    ctx.traces_validated += 1
    ctx.note_case(('K', repr(case)), nontrivial=any(d is not None and d != 0 for d in delays),
                  sample=case if len(delays) <= 2 else None)
    ctx.count('delay')


def gen_delay(rng):
    n = rng.randint(1, 4)
    N = rng.randint(n, 12)
    events = sorted(rng.sample(range(1, N), n - 1)) if n > 1 else []
    events = [0] + events + [N]
    delays = [None if rng.random() < 0.3 else str(Fr(rng.randint(-64, 64), rng.choice([64, 256, 1024]))) for _ in range(n)]
    f0 = rng.choice([0, 856, 1284, 100])
    freqs = [str(Fr(f0) + Fr(k, rng.choice([1, 2]))) for k in range(rng.randint(1, 6))]
    return dict(kind='delay', delays=delays, freqs=freqs, events=events, shape=[2, 2],
                index=[rng.randint(0, 1), rng.randint(0, 1)])


# ------------------------------------------------------------------ (B) bandpass

def check_bandpass(ctx, case):
    segs = [[None if v is None else (Fr(v[0]), Fr(v[1])) for v in s] for s in case['segs']]
    cf = [Fr(f) for f in case['cal_freqs']]
    df = [Fr(f) for f in case['data_freqs']]
    events = case['events']
    dtype = np.dtype(case['dtype'])
    idx = tuple(case['index'])
    vals = []
    for k, s in enumerate(segs):
        a = np.full((len(cf), 2, 2), 1 + k, dtype=dtype)
        a[(slice(None),) + idx] = c_array(s, dtype)
        vals.append(ComparableArrayWrapper(a))
    sensor = make_cat(vals, events)
    payload = [[[wire_opv(v) for v in s] for s in segs], [q(f) for f in cf], [q(f) for f in df]]
    # model (follows the decisions regenerated from the source) and spec (documented decisions written out)
    mo, sp = ctx.model([[14, [3] + payload], [14, [23] + payload]])
    with warnings.catch_warnings():
        warnings.simplefilter('ignore')
        out = calc_bandpass_correction(sensor, idx, np.array([float(f) for f in df]), np.array([float(f) for f in cf]))
    got = cat_segments(out)

    def mismatch(ref):
        if list(out.events) != list(events) or len(got) != len(segs):
            return ('events', list(map(int, out.events)), events, 0, 0)
        for k, ((st, v), m) in enumerate(zip(got, ref)):
            mv = [parse_opv(e) for e in m]
            if not same_array(v, mv):
                j = [i for i, (z, e) in enumerate(zip(np.asarray(v).ravel(), mv)) if not same(z, e)]
                j = j[0] if j else 0
                valid_f = [f for f, s in zip(cf, segs[k]) if s is not None]
                f = df[j] if j < len(df) else None
                pos = ('allinvalid' if not valid_f else 'outside' if f is not None and (f < valid_f[0] or f > valid_f[-1])
                       else 'atvalid' if f in valid_f else 'inside')
                nanflip = j < len(mv) and j < v.size and ((mv[j] is None) != bool(np.isnan(np.asarray(v).ravel()[j])))
                return ('nan_structure' if nanflip else 'value', show(v), show_m(mv), pos, k)
        return None
    bad = mismatch(sp)
    if bad:
        ctx.disagree('kind=bandpass;at=%s;symptom=%s' % (bad[3], bad[0]), case, bad[1], bad[2],
                     'bandpass correction is not the reciprocal of the interpolation across invalid channels '
                     '(INVALID outside the outermost valid channels)', spec=bad[2])
    tie = mismatch(mo)
    if tie:
        ctx.disagree('kind=bandpass;at=%s;symptom=%s' % (tie[3], tie[0]), case, tie[1], tie[2],
                     'calc_bandpass_correction differs from its model', kind='tie')
    ctx.traces_validated += 1
    nv = max(sum(v is not None for v in s) for s in segs)
    ctx.note_case(('B', repr(case)), nontrivial=nv >= 2, sample=case if len(cf) <= 3 else None)
    ctx.count('bandpass:' + case['dtype'])


def nan_pattern(rng, n):
    r = rng.random()
    if r < 0.1:
        return [True] * n
    if r < 0.2:
        return [False] * n
    pat = [rng.random() < 0.35 for _ in range(n)]
    if rng.random() < 0.4:
        k = rng.randint(0, n // 2)
        pat[:k] = [True] * k
    if rng.random() < 0.4:
        k = rng.randint(0, n // 2)
        pat[n - k:] = [True] * k
    return pat


def gen_bandpass(rng):
    C = rng.randint(1, 8)
    dtype, small = pick_dtype(rng)
    step = rng.choice([1, 2, 4])
    c0 = rng.choice([0, 100, 856])
    cf = [Fr(c0 + step * k) for k in range(C)]
    r = rng.random()
    if r < 0.35:
        df = list(cf)
    elif r < 0.6:
        df = [Fr(c0) + Fr(step * k, 2) for k in range(-2, 2 * C + 2)]
    else:
        df = sorted({Fr(c0) + Fr(rng.randint(-8, 4 * step * C + 8), 4) for _ in range(rng.randint(1, 10))})
    nseg = rng.randint(1, 3)
    N = rng.randint(nseg, 9)
    events = [0] + (sorted(rng.sample(range(1, N), nseg - 1)) if nseg > 1 else []) + [N]
    segs = []
    for _ in range(nseg):
        pat = nan_pattern(rng, C)
        valid = [i for i in range(C) if not pat[i]]
        vv = gen_values(rng, len(valid), small)
        s = [None] * C
        for i, v in zip(valid, vv):
            s[i] = [str(v[0]), str(v[1])]
        segs.append(s)
    return dict(kind='bandpass', segs=segs, cal_freqs=[str(f) for f in cf], data_freqs=[str(f) for f in df],
                events=events, dtype=np.dtype(dtype).name, index=[rng.randint(0, 1), rng.randint(0, 1)])


# ------------------------------------------------------------------ (G) gains

def build_gain_sensor(case):
    """CategoricalData with one value per solution; value None = the INVALID_GAIN placeholder object"""
    dtype = np.dtype(case['dtype'])
    idx = tuple(case['index'])
    C = case['chans']
    vals = []
    for k, s in enumerate(case['sols']):
        if s is None:
            vals.append(INVALID_GAIN)
            continue
        g = [None if v is None else (Fr(v[0]), Fr(v[1])) for v in s]
        if C == 0:
            a = np.full((2, 2), 2 + k, dtype=dtype)
            a[idx] = c_array(g, dtype)[0]
        else:
            a = np.full((C, 2, 2), 2 + k, dtype=dtype)
            a[(slice(None),) + idx] = c_array(g, dtype)
        vals.append(ComparableArrayWrapper(a))
    return make_cat(vals, case['events'] + [case['N']])


def wire_sols(sols, events):
    return [[e, [] if s is None else [[wire_opv(None if v is None else (Fr(v[0]), Fr(v[1]))) for v in s]]]
            for e, s in zip(events, sols)]


def gain_symptom(case, out, mo):
    """classify the first differing entry"""
    N = case['N']
    out = np.asarray(out)
    if out.shape != (N, len(mo[0]) if mo else 0):
        return 'shape', 'shape'
    tg = case['targets']
    for d in range(N):
        for c in range(out.shape[1]):
            if not same(out[d, c], mo[d][c]):
                ev = [e for e, s in zip(case['events'], case['sols'])
                      if s is not None and s[c] is not None and (tg is None or tg[e] == tg[d])]
                pos = ('novalid' if not ev else 'before' if d < ev[0] else 'after' if d > ev[-1]
                       else 'atsolution' if d in ev else 'between')
                flip = (mo[d][c] is None) != bool(np.isnan(out[d, c]))
                return pos, 'nan_structure' if flip else 'value'
    return None, None


def check_gain(ctx, case):
    sensor = build_gain_sensor(case)
    tg = case['targets']
    targets = None
    if tg is not None:
        ev = [0] + [d for d in range(1, case['N']) if tg[d] != tg[d - 1]]
        targets = CategoricalData([tg[e] for e in ev], ev + [case['N']])
    payload = [case['N'], wire_sols(case['sols'], case['events']), [] if tg is None else [tg]]
    mo, sp = ctx.model([[14, [4] + payload], [14, [24] + payload]])
    mo = [[parse_opv(e) for e in row] for row in mo]
    sp = [[parse_opv(e) for e in row] for row in sp]
    with warnings.catch_warnings():
        warnings.simplefilter('ignore')
        out = calc_gain_correction(sensor, tuple(case['index']), targets)
    pos, sym = gain_symptom(case, out, sp)
    if sym:
        ctx.disagree('kind=gain;selfcal=%s;at=%s;symptom=%s' % (tg is not None, pos, sym), case,
                     show(out), show_m(itertools.chain(*mo)),
                     'gain correction is not the reciprocal of the time interpolation of the valid '
                     '(same-target) solutions, held before the first / after the last',
                     spec=show_m(itertools.chain(*sp)))
    pos, sym = gain_symptom(case, out, mo)
    if sym:
        ctx.disagree('kind=gain;selfcal=%s;at=%s;symptom=%s' % (tg is not None, pos, sym), case,
                     show(out), show_m(itertools.chain(*mo)), 'calc_gain_correction differs from its model', kind='tie')
    ctx.traces_validated += 1
    nv = sum(1 for s in case['sols'] if s is not None and any(v is not None for v in s))
    ctx.note_case(('G', repr(case)), nontrivial=nv >= 2, sample=case if case['N'] <= 5 else None)
    ctx.count('gain:selfcal' if tg is not None else 'gain:plain')
    ctx.count('gain:' + case['dtype'])


def gen_targets(rng, N):
    k = rng.randint(1, 3)
    out = []
    cur = rng.randrange(k)
    for _ in range(N):
        if rng.random() < 0.3:
            cur = rng.randrange(k)
        out.append(cur)
    return out


def gen_gain(rng, selfcal=None):
    N = rng.randint(1, 14)
    dtype, small = pick_dtype(rng)
    C = rng.choice([0, 0, 1, 2, 3])            # 0 = scalar gain per input (G), else per-channel (GPHASE)
    nsol = rng.randint(0, min(N, 6))
    events = sorted(rng.sample(range(N), nsol))
    placeholder = rng.random() < 0.6
    if placeholder:
        if not events or events[0] != 0:
            events = [0] + events
    elif events:
        events[0] = 0
        events = sorted(set(events))
    else:
        events = [0]
        placeholder = True
    nch = max(C, 1)
    tg = gen_targets(rng, N) if (selfcal if selfcal is not None else rng.random() < 0.5) else None
    sols = []
    # phases are generated per channel along time so that the no-half-turn rule holds along the interpolation axis;
    # with targets the valid sub-sequence of ONE target is what gets unwrapped, so draw per (target, channel)
    n = len(events)
    cols = {}
    for c in range(nch):
        for t in (set(tg) if tg is not None else {0}):
            cols[(c, t)] = iter(gen_values(rng, n, small))
    all_nan_prob = rng.choice([0.0, 0.2, 0.6])
    for k, e in enumerate(events):
        if k == 0 and placeholder:
            sols.append(None)
            continue
        t = tg[e] if tg is not None else 0
        row = []
        for c in range(nch):
            v = next(cols[(c, t)])
            row.append(None if rng.random() < all_nan_prob else [str(v[0]), str(v[1])])
        sols.append(row)
    return dict(kind='gain', N=N, events=events, sols=sols, chans=C, targets=tg, dtype=np.dtype(dtype).name,
                index=[rng.randint(0, 1), rng.randint(0, 1)])


# ------------------------------------------------------------------ (F) flux calibration

NAMES = ['gaincal1', 'gaincal2', 'other', 'j1939', 'unknown_gaincal']
FLUXES = [Fr(16), Fr(4), Fr(1, 4), Fr(9), Fr(1), Fr(25, 4), None, Fr(0), Fr(-4)]


def rsqrt_exact(f):
    n, d = f.numerator, f.denominator
    return Fr(math.isqrt(d), math.isqrt(n))


def flux_float(f):
    return np.nan if f is None else float(f)


def wire_ftable(tbl):
    return [[NAMES.index(n), [] if f is None else [q(f)]] for n, f in tbl]


def make_targets(tdefs, per_dump):
    """tdefs: list of name lists; per_dump: index into tdefs per dump"""
    objs = [katpoint.Target('%s, radec, 0, -%d' % (' | '.join(names), 80 + i)) for i, names in enumerate(tdefs)]
    N = len(per_dump)
    ev = [0] + [d for d in range(1, N) if per_dump[d] != per_dump[d - 1]]
    return CategoricalData([objs[per_dump[e]] for e in ev], ev + [N])


def flux_tables(case):
    measured = [(n, None if f is None else Fr(f)) for n, f in case['measured']]
    ov = None if case['overrides'] is None else [(n, None if f is None else Fr(f)) for n, f in case['overrides']]
    return measured, ov


def wire_flux(case, sols, events):
    measured, ov = flux_tables(case)
    names = [[NAMES.index(n) for n in case['tdefs'][t]] for t in case['per_dump']]
    rt = [[q(f), q(rsqrt_exact(f))] for f in FLUXES if f is not None and f > 0]
    return [14, [5, wire_sols(sols, events), names, wire_ftable(measured), [] if ov is None else [wire_ftable(ov)], rt]]


def check_flux(ctx, case):
    """calibrate_flux directly, with the merged dict built the way add_applycal_sensors builds it"""
    g = case['gain']
    sensor = build_gain_sensor(g)
    targets = make_targets(case['tdefs'], case['per_dump'])
    measured, ov = flux_tables(case)
    if ov is None:
        merged = {}
    else:
        merged = {n: flux_float(f) for n, f in measured}
        merged.update({n: flux_float(f) for n, f in ov})
    mo = ctx.model([wire_flux(case, g['sols'], g['events'])])[0]
    out = calibrate_flux(sensor, targets, merged)
    got = cat_segments(out)
    bad = None
    if list(out.events) != g['events'] + [g['N']] or len(got) != len(mo):
        bad = ('events', -1)
    else:
        idx = tuple(g['index'])
        for k, ((st, v), m) in enumerate(zip(got, mo)):
            if not m[1]:
                if v is not INVALID_GAIN:
                    bad = ('placeholder', k)
                    break
                continue
            if v is INVALID_GAIN:
                bad = ('placeholder', k)
                break
            mv = [parse_opv(e) for e in m[1][0]]
            a = np.asarray(v)
            z = a[(Ellipsis,) + idx] if g['chans'] == 0 else a[(slice(None),) + idx]
            if not same_array(z, mv):
                bad = ('value', k)
                break
    if bad:
        ctx.disagree('kind=flux;overrides=%s;symptom=%s' % ('none' if ov is None else 'dict', bad[0]), case,
                     [show(v) if v is not INVALID_GAIN else 'INVALID' for _, v in got][:6], mo[:6],
                     'gain solutions are not scaled by 1/sqrt(flux of the gain calibrator at the solution time)')
    ctx.traces_validated += 1
    ctx.note_case(('F', repr(case)), nontrivial=bool(merged), sample=case if g['N'] <= 4 else None)
    ctx.count('flux:' + ('disabled' if ov is None else 'on'))


def gen_flux(rng):
    g = gen_gain(rng, selfcal=False)
    ntd = rng.randint(1, 3)
    tdefs = []
    pool = list(NAMES)
    rng.shuffle(pool)
    for i in range(ntd):
        k = rng.randint(1, 2)
        tdefs.append([pool.pop() for _ in range(min(k, len(pool)))] or ['other'])
    per_dump = gen_targets(rng, g['N'])
    per_dump = [t % ntd for t in per_dump]

    def tbl():
        names = rng.sample(NAMES, rng.randint(0, 4))
        return [[n, None if f is None else str(f)] for n in names for f in [rng.choice(FLUXES)]]
    measured = tbl()
    r = rng.random()
    overrides = None if r < 0.15 else ([] if r < 0.4 else tbl())
    return dict(kind='flux', gain=g, tdefs=tdefs, per_dump=per_dump, measured=measured, overrides=overrides)


# ------------------------------------------------------------------ (S) stitching through a real SensorCache

ATTRS0 = dict(antlist=['m000', 'm001'], pol_ordering=['v', 'h'])
INPUTS = {'m000v': (0, 0), 'm001v': (0, 1), 'm000h': (1, 0), 'm001h': (1, 1)}


def raw_sensor(ts, vals):
    return SimpleSensorGetter(None, np.array(ts, dtype=float), np.array([ComparableArrayWrapper(v) for v in vals]))


def block(vals, idx, dtype, fill):
    a = np.full((len(vals), 2, 2), fill, dtype=dtype)
    a[(slice(None),) + idx] = c_array(vals, dtype)
    return a


def build_cache(case):
    """parts: dict part-number -> list of (timestamp, [polar|None per channel]); substreams: list of such dicts"""
    N = case['N']
    idx = tuple(case['index'])
    dtype = np.dtype(case['dtype'])
    cache = {'Observation/target': CategoricalData([0], [0, N])}
    for sname, sub in zip(case['substreams'], case['data']):
        for pn, samples in sub.items():
            ts = [s[0] for s in samples]
            if case['ptype'] == 'K' and case['kind'] == 'e2e':
                vals = []
                for k, s in enumerate(samples):
                    a = np.full((2, 2), 0.125 * (k + 1))
                    a[idx] = np.nan if s[1][0] is None else float(Fr(s[1][0]))
                    vals.append(a)
            else:
                vals = [block([None if v is None else (Fr(v[0]), Fr(v[1])) for v in s[1]], idx, dtype, 3 + int(pn))
                        for s in samples]
            cache['%s_product_%s%s' % (sname, case['ptype'], pn if case['n_parts'] else '')] = raw_sensor(ts, vals)
    if case.get('decoy'):
        # a sensor under the OTHER naming: unsuffixed although the stream has product_<type>_parts, or suffixed 0
        # although it has not - it must not be read
        dts = [s[0] for s in case['decoy']]
        dvals = [block([None if v is None else (Fr(v[0]), Fr(v[1])) for v in s[1]], idx, dtype, 7) for s in case['decoy']]
        for sname in case['substreams']:
            cache['%s_product_%s%s' % (sname, case['ptype'], '' if case['n_parts'] else '0')] = raw_sensor(dts, dvals)
    sc = SensorCache(cache, timestamps=np.arange(N, dtype=float), dump_period=1., props=SENSOR_PROPS, virtual={})
    nchan = case['cal_chans']
    attrs = dict(ATTRS0, center_freq=float(case['cal_centre']), bandwidth=float(nchan * case['cal_width']),
                 n_chans=nchan)
    if case['n_parts']:
        attrs['product_%s_parts' % case['ptype']] = case['n_parts']
    if case.get('measured') is not None:
        attrs['measured_flux'] = {n: flux_float(None if f is None else Fr(f)) for n, f in case['measured']}
    return sc, attrs


def check_stitch(ctx, case):
    sc, attrs = build_cache(case)
    data_freqs = np.array([float(Fr(f)) for f in case['data_freqs']])
    add_applycal_sensors(sc, attrs, data_freqs, 'cal', cal_substreams=case['substreams'], gaincal_flux=None)
    idx = tuple(case['index'])
    subs = case['data']
    nparts = case['n_parts']

    def wire_samples(samples):
        return [[q(s[0]), [wire_opv(None if v is None else (Fr(v[0]), Fr(v[1]))) for v in s[1]]] for s in samples]
    # model: per part every substream's samples (or absent); the rule "a substream lacking the part makes the part
    # absent", the merge of the substreams and the stitching are all in the model (stitch_substreams)
    decoy = [wire_samples(case['decoy'])] if case.get('decoy') else []
    if len(subs) == 1 and (nparts or decoy):
        # one substream: the model also decides WHICH sensors are read from the parts attribute (indirect_product)
        if nparts:
            w = [144, [2, [nparts], decoy, [[wire_samples(subs[0][str(pn)])] if str(pn) in subs[0] else []
                                            for pn in range(nparts)]]]
        else:
            w = [144, [2, [], [wire_samples(subs[0]['0'])], [decoy]]]
        mo = ctx.model([w])[0]
        mo = None if not mo else mo[0]
        if nparts:
            m61 = ctx.model([[14, [61, [[[wire_samples(subs[0][str(pn)])] if str(pn) in subs[0] else []] for pn in range(nparts)]]]])[0]
            if (None if not m61 else m61[0]) != mo:
                ctx.disagree('kind=stitch;parts=multi;symptom=model_parts_attribute', case, None, mo,
                             'indirect_product differs from stitch_substreams of the numbered parts', kind='tie')
    elif nparts:
        parts = [[[wire_samples(sub[str(pn)])] if str(pn) in sub else [] for sub in subs] for pn in range(nparts)]
        mo = ctx.model([[14, [61, parts]]])[0]
        mo = None if not mo else mo[0]
    else:
        streams = [wire_samples(sub['0']) for sub in subs]
        mo = streams[0] if len(streams) == 1 else ctx.model([[14, [7, streams]]])[0]
    crashed = None
    try:
        getter = sc.get('Calibration/Products/cal/' + case['ptype'], extract=False)
        sd = getter.get()
        got = [(Fr(float(t)), np.asarray(ComparableArrayWrapper.unwrap(v))[(slice(None),) + idx])
               for t, v in zip(sd.timestamp, sd.value)]
    except KeyError:
        got = None
    except Exception as e:       # noqa: BLE001 - a crash on an in-domain input is reported with the input
        got = None
        crashed = 'raises:' + type(e).__name__
    bad = None
    if crashed:
        bad = crashed
    elif (got is None) != (mo is None):
        bad = 'keyerror'
    elif got is not None:
        if [t for t, _ in got] != [fq(s[0]) for s in mo]:
            bad = 'timestamps'
        else:
            for (t, v), s in zip(got, mo):
                if not same_array(v, [parse_opv(e) for e in s[1]]):
                    bad = 'values'
                    break
    if bad:
        missing = [pn for pn in range(nparts or 0) if not any(str(pn) in sub for sub in subs)]
        sig = 'kind=stitch;parts=%s;missing=%s;substreams=%d;symptom=%s' % (
            ('one' if nparts == 1 else 'multi' if nparts else 'single') + (';decoy_sensor' if case.get('decoy') else ''), 'last' if missing and missing[-1] == (nparts or 0) - 1 else
            'some' if missing else 'none', len(subs), bad)
        ctx.disagree(sig, case, None if got is None else [[str(t), show(v)] for t, v in got][:6],
                     None if mo is None else mo[:6],
                     'multi-part / multi-substream product is not the timestamp-ordered union with parts in channel '
                     'order and absent parts INVALID')
    ctx.traces_validated += 1
    nmiss = 0 if not nparts else sum(1 for pn in range(nparts) if not all(str(pn) in sub for sub in subs))
    ctx.note_case(('S', repr(case)), nontrivial=nmiss >= 1 or len(subs) > 1, sample=case if case['N'] <= 4 else None)
    ctx.count('stitch:parts=%d' % (nparts or 0))
    ctx.count('stitch:substreams=%d' % len(subs))
    if case.get('decoy'):
        ctx.count('stitch:decoy_sensor:parts=%d' % (nparts or 0))
    return sc


def gen_stitch(rng):
    N = rng.randint(2, 10)
    dtype = np.complex64
    nparts = rng.choice([0, 1, 2, 3, 4])
    nsub = 1 if rng.random() < 0.7 else 2
    per = rng.randint(1, 2)                    # channels per part
    nchan = per * max(nparts, 1)
    tpool = list(range(N))
    subs = []
    used = set()
    for s in range(nsub):
        # distinct timestamps across substreams (argsort of ties is not specified)
        avail = [t for t in tpool if t not in used]
        k = rng.randint(0 if nparts else 1, min(3, len(avail))) if avail else 0
        times = sorted(rng.sample(avail, k))
        if not nparts and not times:
            times = [avail[0]] if avail else [0]
        used |= set(times)
        sub = {}
        for pn in range(max(nparts, 1)):
            if nparts and rng.random() < 0.25:
                continue                          # this part is absent altogether
            mine = [t for t in times if not nparts or rng.random() < 0.8]
            if nparts and not mine and rng.random() < 0.5:
                continue
            vals = gen_values(rng, len(mine) * per, True, p_nan=0.2)
            sub[str(pn)] = [[t, [None if v is None else [str(v[0]), str(v[1])] for v in vals[i * per:(i + 1) * per]]]
                            for i, t in enumerate(mine)]
        subs.append(sub)
    decoy = None
    if rng.random() < 0.4:
        dv = gen_values(rng, nchan, True)
        decoy = [[rng.randrange(N), [[str(v[0] * 7), str(v[1])] for v in dv]]]
    return dict(kind='stitch', N=N, ptype=rng.choice(['B', 'G', 'GPHASE']) if not nparts else 'B', decoy=decoy,
                n_parts=nparts, substreams=['cal'] if nsub == 1 else ['sc_a', 'sc_b'], data=subs,
                cal_chans=nchan, cal_centre=rng.choice([100, 856]), cal_width=rng.choice([1, 2]),
                data_freqs=[str(Fr(100 + k, 2)) for k in range(4)], dtype=np.dtype(dtype).name,
                index=[rng.randint(0, 1), rng.randint(0, 1)])


# ------------------------------------------------------------------ (E) registered correction sensors end to end

def check_end_to_end(ctx, case):
    """Calibration/Corrections/<stream>/<type>/<input> through the SensorCache; the model is fed the categorical
    product sensor the implementation itself extracted (event placement is C10), so this checks the dispatch by
    product type, the input -> (pol, ant) index map, flux calibration of G only, targets for self-cal products only"""
    N = case['N']
    idx = tuple(case['index'])
    inp = [k for k, v in INPUTS.items() if v == idx][0]
    ptype = case['ptype']
    sc, attrs = build_cache(case)
    tdefs, per_dump = case['tdefs'], case['per_dump']
    sc['Observation/target'] = make_targets(tdefs, per_dump)
    data_freqs = [Fr(f) for f in case['data_freqs']]
    ov = case['overrides']
    gf = None if ov is None else {n: flux_float(None if f is None else Fr(f)) for n, f in ov}
    cal_freqs = add_applycal_sensors(sc, attrs, np.array([float(f) for f in data_freqs]), 'cal', gaincal_flux=gf)
    prod = get_cal_product(sc, 'cal', ptype)
    segs = cat_segments(prod)
    events = [e for e, _ in segs]

    # map the segments of the implementation's product sensor back to the generated samples (by event dump; a
    # product without initial value extends its first sample back to dump 0)
    table = {s[0]: s[1] for s in case['data'][0]['0']}
    sols = []
    for e, v in segs:
        if v is INVALID_GAIN:
            sols.append(None)
        else:
            sols.append(table[e] if e in table else table[min(table)])
    with warnings.catch_warnings():
        warnings.simplefilter('ignore')
        out = sc.get('Calibration/Corrections/cal/%s/%s' % (ptype, inp))
    cf = [Fr(float(f)) for f in cal_freqs]
    bad = None
    # which calculator: the model's dispatch table (regenerated from calc_correction_per_input), not the harness
    kind, skind = ctx.model([[142, [0, codes(ptype)]], [142, [10, codes(ptype)]]])
    if kind != skind:
        ctx.disagree('kind=e2e;type=%s;symptom=dispatch_table' % ptype, case, kind, kind,
                     'the calculator chosen for this product type is not the documented one', spec=skind)
    if kind == [0]:
        mo = ctx.model([[14, [2, [[] if s[0] is None else [q(Fr(s[0]))] for s in sols], [q(f) for f in data_freqs]]]])[0]
        got = cat_segments(out)
        for (st, v), m in zip(got, mo):
            if not same_array(v, [(fq(e[0]), fq(e[1])) for e in m]):
                bad = 'value'
        if [e for e, _ in got] != events:
            bad = 'events'
    elif kind == [1]:
        mo = ctx.model([[14, [23, [[wire_opv(None if v is None else (Fr(v[0]), Fr(v[1]))) for v in s] for s in sols],
                              [q(f) for f in cf], [q(f) for f in data_freqs]]]])[0]
        got = cat_segments(out)
        for (st, v), m in zip(got, mo):
            if not same_array(v, [parse_opv(e) for e in m]):
                bad = 'value'
        if [e for e, _ in got] != events:
            bad = 'events'
    elif kind and kind[0] == 2:
        # flux calibration (or not) and per-target interpolation (or not) are decided by the model from the type
        fcase = dict(case, measured=case['measured'] or [])
        w = wire_flux(fcase, sols, events)
        mo, sp = ctx.model([[142, [1, codes(ptype), N] + w[1][1:] + [per_dump]],
                            [142, [11, codes(ptype), N] + w[1][1:] + [per_dump]]])
        mo = [[parse_opv(e) for e in row] for row in mo[0]]
        sp = [[parse_opv(e) for e in row] for row in sp[0]]
        g = dict(N=N, events=events, sols=sols, targets=per_dump if skind[2] else None)
        pos, sym = gain_symptom(g, out, sp)
        if sym:
            bad = '%s@%s' % (sym, pos)
        else:
            pos, sym = gain_symptom(g, out, mo)
            if sym:
                bad = 'model:%s@%s' % (sym, pos)
    else:
        bad = 'no_calculator_in_model'
    if bad:
        ctx.disagree('kind=e2e;type=%s;symptom=%s' % (ptype, bad), case, show(np.asarray(out[:]) if ptype not in 'KB'
                     else [v for _, v in cat_segments(out)][0]), None,
                     'registered correction sensor differs from the model of its product type')
    ctx.traces_validated += 1
    ctx.note_case(('E', repr(case)), nontrivial=len(sols) >= 2, sample=None)
    ctx.count('e2e:' + ptype)


def gen_end_to_end(rng):
    N = rng.randint(2, 10)
    ptype = rng.choice(['K', 'B', 'G', 'G', 'GPHASE', 'GAMP_PHASE'])
    nchan = rng.randint(1, 4)
    k = rng.randint(1, min(4, N))
    times = sorted(rng.sample(range(N), k))
    per = 1 if ptype in ('G', 'K') else nchan
    samples = []
    cols = [gen_values(rng, k, True) for _ in range(per)]
    if ptype == 'B':                        # interpolation runs along the channel axis: one phase window per sample
        rows = [gen_values(rng, per, True) for _ in range(k)]
        cols = [[rows[i][c] for i in range(k)] for c in range(per)]
    for i, t in enumerate(times):
        if ptype == 'K':
            samples.append([t, [None if rng.random() < 0.3 else str(Fr(rng.randint(-64, 64), 256) + Fr(i, 1024))]])
            continue
        row = []
        for c in range(per):
            v = cols[c][i]
            row.append(None if rng.random() < 0.25 else [str(v[0]), str(v[1])])
        samples.append([t, row])
    ntd = rng.randint(1, 3)
    pool = list(NAMES)
    rng.shuffle(pool)
    tdefs = [[pool.pop() for _ in range(rng.randint(1, 2)) if pool] or ['other'] for _ in range(ntd)]
    per_dump = [t % ntd for t in gen_targets(rng, N)]

    def tbl():
        return [[n, None if f is None else str(f)] for n in rng.sample(NAMES, rng.randint(0, 4))
                for f in [rng.choice(FLUXES)]]
    r = rng.random()
    return dict(kind='e2e', N=N, ptype=ptype, n_parts=0, substreams=['cal'], data=[{'0': samples}],
                cal_chans=nchan, cal_centre=rng.choice([100, 856]), cal_width=rng.choice([1, 2]),
                data_freqs=[str(Fr(2 * 100 + k, 2) - 1) for k in range(rng.randint(1, 6))],
                dtype='complex64', index=[rng.randint(0, 1), rng.randint(0, 1)],
                tdefs=tdefs, per_dump=per_dump, measured=tbl() if rng.random() < 0.7 else None,
                overrides=None if r < 0.15 else ([] if r < 0.4 else tbl()))


# ------------------------------------------------------------------ (N) product names

TYPES = ('K', 'B', 'G', 'GPHASE', 'GAMP_PHASE')


def codes(s):
    return [ord(c) for c in s]


def wire_req(r):
    return [0, codes(r)] if isinstance(r, str) else [1, [codes(x) for x in r]]


def check_normalise(ctx, req, streams, mo=None):
    if mo is None:
        mo = ctx.model([[14, [8, wire_req(req), [codes(s) for s in streams]]]])[0]
    mo = None if not mo else ([''.join(chr(c) for c in s) for s in mo[0]], bool(mo[1]))
    # the real caller passes dict keys
    keys = dict.fromkeys(streams).keys()
    try:
        got = _normalise_cal_products(req if isinstance(req, str) else list(req), keys)
        got = (list(got[0]), bool(got[1]))
    except ValueError:
        got = None
    case = dict(kind='normalise', request=req, streams=list(streams))
    want = spec_normalise(req, streams)
    if got != want:
        ctx.disagree('kind=normalise;form=%s;symptom=documented_list' % request_form(req, streams), case, got, mo,
                     'requested product names do not expand to the DOCUMENTED product list / skip flag', spec=want)
    if got != mo:
        form = request_form(req, streams)
        ctx.disagree('kind=normalise;form=%s;symptom=%s' % (form, 'error' if (got is None) != (mo is None) else
                     'skip_flag' if got and mo and got[0] == mo[0] else 'list'), case, got, mo,
                     'requested product names do not expand to the documented product list / skip flag')
    ctx.traces_validated += 1
    ctx.note_case(('N', repr(req), tuple(streams)), nontrivial=bool(req), sample=case if req in ('all', 'default') else None)
    ctx.count('normalise:' + ('str' if isinstance(req, str) else 'list'))


DOC_DEFAULT = ['l1.K', 'l1.B', 'l1.G', 'l2.GPHASE']


def spec_normalise(req, streams):
    """the documented expansion, written independently of the code and of the Coq model (documented tables)"""
    if isinstance(req, str):
        items = ([] if not req else list(streams) if req == 'all' else list(DOC_DEFAULT) if req == 'default'
                 else [x.strip() for x in req.split(',')])
    else:
        items = list(req)
    out = []
    for x in items:
        if '.' in x:
            out.append(x)
        elif x in streams:
            out += [x + '.' + t for t in TYPES]
        elif x in TYPES:
            out += [s + '.' + x for s in streams]
        else:
            return None
    return out, (req in ('all', 'default') if isinstance(req, str) else False) or any('.' not in x for x in items)


def request_form(req, streams):
    if req in ('all', 'default', ''):
        return req or 'empty'
    items = [x.strip() for x in req.split(',')] if isinstance(req, str) else list(req)
    kinds = set()
    for x in items:
        kinds.add('dotted' if '.' in x else 'stream' if x in streams else 'type' if x in TYPES else 'unknown')
    return '+'.join(sorted(kinds)) or 'emptylist'


def normalise_cases(ctx):
    atoms = ['l1', 'l2', 'K', 'B', 'G', 'GPHASE', 'GAMP_PHASE', 'l1.K', 'l1.G', 'l2.GPHASE', 'l2.GAMP_PHASE',
             'l3', 'l3.G', 'foo', 'l1.FOO', 'all', 'default', '', ' l1', 'G ', 'l1.', '.', 'g',
             # near misses: substrings / superstrings / other case of a stream or type must NOT match
             'l', '1', 'l11', 'L1', 'GPH', 'PHASE', 'GAMP', 'KB', 'l1l2', 'l1G', 'a.b.G', 'l1..G', 'AMP_PHASE', 'GG', 'al', 'defaul']
    reqs = ['', 'all', 'default'] + atoms
    for a, b in itertools.product(atoms, atoms):
        reqs.append(a + ',' + b)
        reqs.append(a + ' , ' + b)
    reqs += [[], ['all'], ['default'], ['l1', 'all']] + [[a] for a in atoms]
    reqs += [[a, b] for a, b in itertools.product(atoms[:14], atoms[:14])]
    reqs += [('l1', 'G'), ('l2.GPHASE',)]
    if ctx.tier == 'thorough':
        for a, b, c in itertools.product(atoms[:12], repeat=3):
            reqs.append(','.join((a, b, c)))
    seen = set()
    out = []
    for r in reqs:
        k = repr(r)
        if k not in seen:
            seen.add(k)
            out.append(r)
    return out


# besides what a data set offers: a stream named like a product type (the stream test comes first), a stream whose name
# contains another's, a dotted stream name
STREAM_SETS = [[], ['l1'], ['l2'], ['l1', 'l2'], ['l1', 'G'], ['l11', 'l1'], ['a.b', 'l1']]


# ------------------------------------------------------------------ (P) which products get APPLIED

def spec_select(products, inputs, avail, skip):
    """documented: with skipping every requested product that is in the data set (a correction sensor for EVERY data
    input) is applied once, in request order, the others are skipped; without, all must be there (KeyError)"""
    ok = [p for p in products if all(i in avail.get(p, ()) for i in inputs)]
    if not skip and len(ok) != len(products):
        return 'KeyError'
    return list(dict.fromkeys(ok))


def missing_shape(products, ok):
    """where the unavailable products stand in the (expanded) list"""
    miss = [k for k, p in enumerate(products) if p not in ok]
    if not miss:
        return 'none'
    if len(miss) == len(products):
        return 'all'
    last_ok = max(k for k, p in enumerate(products) if p in ok)
    return 'before_present' if miss[0] < last_ok else 'at_end'


def run_calc_correction(cache, inputs, products, all_cal_freqs, skip, nchan=2, ndump=2):
    from katdal.applycal import calc_correction
    corrprods = [(a, b) for i, a in enumerate(inputs) for b in inputs[i:]]
    chunks = ((ndump,), (nchan,), (len(corrprods),))
    try:
        final, corr = calc_correction(chunks, cache, corrprods, list(products), np.arange(nchan, dtype=float) + 100.0,
                                      all_cal_freqs, skip)
    except KeyError:
        return 'KeyError', None, corrprods
    except Exception as e:       # noqa: BLE001 - anything else on an in-domain input is reported with the input
        return 'raises:' + type(e).__name__, None, corrprods
    return list(final), corr, corrprods


def check_select(ctx, case):
    """calc_correction's product loop on a SensorCache holding injected correction sensors (one scalar per dump)"""
    products, inputs, skip = case['products'], case['inputs'], case['skip']
    avail = {p: list(l) for p, l in case['avail']}
    T = 2
    cache = SensorCache({}, np.arange(T, dtype=float), 1.0, virtual={})
    value = {}
    for k, (p, l) in enumerate(case['avail']):
        s, t = p.rsplit('.', 1)
        value[p] = 2.0 ** ((k % 3) - 1)
        for inp in l:
            cache['Calibration/Corrections/%s/%s/%s' % (s, t, inp)] = np.full(T, value[p], np.complex64)
    freqs = {p.rsplit('.', 1)[0]: np.arange(2, dtype=float) + 100.0 for p in avail}
    got, corr, corrprods = run_calc_correction(cache, inputs, products, freqs, skip)
    mo = ctx.model([[141, [0, int(skip), [codes(p) for p in products], [codes(i) for i in inputs],
                           [[codes(p), [codes(i) for i in l]] for p, l in case['avail']]]]])[0]
    mo = 'KeyError' if not mo else [''.join(chr(c) for c in s) for s in mo[0]]
    want = spec_select(products, inputs, avail, skip)
    ok = [p for p in products if all(i in avail.get(p, ()) for i in inputs)]
    shape = 'skip=%s;missing=%s' % (skip, missing_shape(products, ok))
    if got != want:
        ctx.disagree('kind=select;%s;symptom=%s' % (shape, symptom(got, want)),
                     case, got, mo, 'calc_correction does not apply exactly the requested products that are in the '
                     'data set (skipping) / does not insist on all of them (strict)', spec=want)
    if got != mo:
        ctx.disagree('kind=select;%s;symptom=%s' % (shape, symptom(got, mo)),
                     case, got, mo, 'calc_correction final_cal_products differ from the model', kind='tie')
    if isinstance(got, list):
        # the correction array must be made of exactly the products named: prod_p v_p^2
        exp = 1.0
        for p in got:
            exp *= value[p] ** 2
        try:
            arr = None if corr is None else corr.compute(scheduler='synchronous')
        except Exception as e:       # noqa: BLE001
            arr = 'raises:' + type(e).__name__
        if (corr is None) != (not got) or (corr is not None and (isinstance(arr, str) or not np.all(
                arr == np.complex64(exp)))):
            ctx.disagree('kind=select;%s;symptom=array_not_of_named_products' % shape, case,
                         arr if arr is None or isinstance(arr, str) else show(arr), exp,
                         'the corrections array is not the product of the corrections of final_cal_products')
    ctx.traces_validated += 1
    ctx.note_case(('P0', repr(case)), nontrivial=0 < len(ok) < len(products), sample=case if len(products) <= 3 else None)
    ctx.count('select:skip=%s' % skip)
    ctx.count('select:missing=' + missing_shape(products, ok))


PSTREAMS = ['l1', 'l2', 'l3']
PINPUTS = ['m000h', 'm000v', 'm001h', 'm001v', 'm002h']


def gen_select(rng):
    ninp = rng.randint(1, 4)
    inputs = sorted(rng.sample(PINPUTS, ninp))
    pool = [s + '.' + t for s in PSTREAMS for t in TYPES]
    n = rng.randint(1, 7)
    products = [rng.choice(pool) for _ in range(n)] if rng.random() < 0.3 else rng.sample(pool, n)
    r = rng.random()
    avail = []
    for p in dict.fromkeys(products + rng.sample(pool, 2)):
        q = rng.random()
        if r < 0.15 or q < 0.55:
            l = list(inputs)                                    # complete
        elif q < 0.75:
            l = []                                              # absent altogether
        else:
            l = [i for i in inputs if rng.random() < 0.6]       # some inputs lack a solution
            if rng.random() < 0.5:
                l = l + ['m009h']
        avail.append([p, l])
    return dict(kind='select', products=products, inputs=inputs, avail=avail, skip=rng.random() < 0.65)


def products_cache(case):
    """SensorCache with the raw solution sensors of every substream and the virtual sensors of every cal stream"""
    N = case['N']
    cache = {'Observation/target': CategoricalData([0], [0, N])}
    for st in case['streams']:
        npol, nant = len(st['pols']), len(st['ants'])
        for sub, types in zip(st['substreams'], st['sub_types']):
            for t in types:
                if t == 'K':
                    v = np.zeros((npol, nant))
                elif t == 'B':
                    v = np.full((st['n_chans'], npol, nant), 2, np.complex64)
                else:
                    v = np.full((npol, nant), 0.5, np.complex64)
                cache['%s_product_%s' % (sub, t)] = raw_sensor([1.0], [v])
    # virtual={} explicitly: the default argument of SensorCache is ONE shared dict (templates of earlier caches leak)
    sc = SensorCache(cache, timestamps=np.arange(N, dtype=float), dump_period=1., props=SENSOR_PROPS, virtual={})
    data_freqs = np.arange(case['F'], dtype=float) + 100.0
    cal_freqs = {}
    for st in case['streams']:
        attrs = dict(antlist=st['ants'], pol_ordering=st['pols'])
        if st['spectral']:
            attrs.update(center_freq=101.0, bandwidth=float(st['n_chans']), n_chans=st['n_chans'])
        f = add_applycal_sensors(sc, attrs, data_freqs, st['alias'], cal_substreams=st['substreams'], gaincal_flux=None)
        if f is not None:
            cal_freqs[st['alias']] = f
    return sc, cal_freqs


def wire_streams(streams):
    return [[codes(st['alias']), [codes(a + p) for p in st['pols'] for a in st['ants']],
             [[codes(t) for t in types] for types in st['sub_types']]]
            for st in streams if st['spectral'] and st['ants'] and st['pols']]


def spec_products(req, streams, inputs):
    """documented rules end to end, independent of the Coq model: (list | 'ValueError' | 'KeyError')"""
    reg = [st for st in streams if st['spectral'] and st['ants'] and st['pols']]
    names = [st['alias'] for st in reg]
    n = spec_normalise(req, names)
    if n is None:
        return 'ValueError', []
    avail = {}
    for st in reg:
        have = [a + p for p in st['pols'] for a in st['ants']]
        for t in TYPES:
            if all(t in types for types in st['sub_types']):
                avail[st['alias'] + '.' + t] = have
    return spec_select(n[0], inputs, avail, n[1]), n[0]


def parse_outcome(o):
    return 'ValueError' if o[0] == 0 else 'KeyError' if o[0] == 1 else [''.join(chr(c) for c in s) for s in o[1]]


def check_products(ctx, case):
    """request -> _normalise_cal_products -> calc_correction on a SensorCache whose streams were registered by
    add_applycal_sensors from raw solution sensors: which products are applied"""
    req = case['request'] if isinstance(case['request'], str) else list(case['request'])
    inputs = case['inputs']
    with warnings.catch_warnings():
        warnings.simplefilter('ignore')
        sc, cal_freqs = products_cache(case)
        try:
            norm, skip = _normalise_cal_products(req, cal_freqs.keys())
        except ValueError:
            got = 'ValueError'
        else:
            got = run_calc_correction(sc, inputs, norm, cal_freqs, skip, nchan=case['F'], ndump=case['N'])[0]
    mo = ctx.model([[141, [1, wire_req(req), wire_streams(case['streams']), [codes(i) for i in inputs]]]])[0]
    mo, mspec = parse_outcome(mo[0]), parse_outcome(mo[1])
    want, expanded = spec_products(req, case['streams'], inputs)
    sig = products_signature(req, case['streams'], expanded, want)
    if got != want or got != mspec:
        ctx.disagree(sig + ';symptom=%s' % symptom(got, want), case, got, mo,
                     'the products applied are not the documented expansion of the request with missing products '
                     'skipped (wildcard requests) / rejected (fully qualified requests)',
                     spec=want if got != want else mspec)
    if got != mo:
        ctx.disagree(sig + ';symptom=%s' % symptom(got, mo), case, got, mo,
                     'the products applied differ from the model of _normalise_cal_products + calc_correction',
                     kind='tie')
    ctx.traces_validated += 1
    ctx.note_case(('P1', repr(case)), nontrivial=isinstance(want, list) and 0 < len(want) < len(set(expanded)),
                  sample=case if req in ('all', 'default') else None)
    ctx.count('products:' + (want if isinstance(want, str) else 'applied'))
    ctx.count('products:missing=' + (missing_shape(expanded, want) if isinstance(want, list) else 'n/a'))


def symptom(got, want):
    if isinstance(got, str) or isinstance(want, str):
        return 'outcome_%s_instead_of_%s' % (got if isinstance(got, str) else 'list', want if isinstance(want, str) else 'list')
    if set(got) < set(want):
        return 'present_product_not_applied'
    if set(got) > set(want):
        return 'missing_product_applied'
    return 'order_or_duplicates' if set(got) == set(want) else 'applied_list'


def products_signature(req, streams, expanded, want):
    names = [st['alias'] for st in streams if st['spectral'] and st['ants'] and st['pols']]
    return 'kind=products;form=%s;missing=%s' % (
        request_form(req if isinstance(req, str) else list(req), names),
        missing_shape(expanded, want) if isinstance(want, list) else 'n/a')


P_REQUESTS = ['all', 'default', 'l1', 'l2', 'l1,l2', 'l2,l1', 'K', 'B', 'G', 'GPHASE', 'GAMP_PHASE', 'K,B,G', 'G,B,K',
              'K,B,G,GPHASE', 'GPHASE,G', 'l1.G', 'l1.K,l1.B,l1.G', 'l1.G,l2.GPHASE', 'l2.GPHASE,l1.G', 'l1.K,l1.G',
              'l2.GAMP_PHASE', 'l1.K, G', 'G,l1.K', 'l1.B,l2', 'l2,l1.B', 'GPHASE,l1', 'l1.GPHASE,l1',
              'l1.K,l1.B,l1.G,GPHASE', ['l1.B', 'G'], ['l2.GPHASE'], ['l1', 'GAMP_PHASE'], 'l3', 'l1.G,X', 'l3.G,l1',
              'l1.G,l1.G', 'G,G', 'l1,l1.K', '']


def gen_stream(rng, alias, ants, pols):
    nsub = 1 if alias == 'l1' or rng.random() < 0.5 else 2
    r = rng.random()
    if alias == 'l1':
        base = ['K', 'B', 'G'] if r < 0.4 else [t for t in TYPES if rng.random() < 0.55]
    else:
        base = ['GPHASE'] if r < 0.3 else ['GPHASE', 'GAMP_PHASE'] if r < 0.5 else [t for t in TYPES if rng.random() < 0.4]
    sub_types = [list(base) for _ in range(nsub)]
    if nsub == 2 and rng.random() < 0.4 and base:
        sub_types[rng.randrange(2)].remove(rng.choice(base))        # one substream lacks a product
    my_ants = list(ants)
    if rng.random() < 0.2 and len(my_ants) > 1:
        my_ants.pop(rng.randrange(len(my_ants)))                     # cal ran without one antenna
    if rng.random() < 0.3:
        rng.shuffle(my_ants)
    my_pols = list(pols) if rng.random() < 0.7 else list(reversed(pols))
    return dict(alias=alias, substreams=['cal'] if alias == 'l1' else ['img_%s_selfcal' % 'ab'[k] for k in range(nsub)],
                sub_types=sub_types, ants=my_ants, pols=my_pols, n_chans=rng.choice([1, 2, 4]),
                spectral=rng.random() < 0.93)


def gen_products(rng):
    ants = ['m000', 'm001', 'm002'][:rng.randint(1, 3)]
    pols = ['v', 'h']
    r = rng.random()
    aliases = ['l1', 'l2'] if r < 0.6 else ['l1'] if r < 0.85 else ['l2'] if r < 0.95 else []
    streams = [gen_stream(rng, a, ants, pols) for a in aliases]
    data_ants = list(ants) if rng.random() < 0.8 else ants[:max(1, len(ants) - 1)]
    inputs = sorted(a + p for a in data_ants for p in (pols if rng.random() < 0.8 else pols[:1]))
    if rng.random() < 0.6:
        req = rng.choice(P_REQUESTS)
    else:
        atoms = ['l1', 'l2', 'K', 'B', 'G', 'GPHASE', 'GAMP_PHASE'] + [s + '.' + t for s in ('l1', 'l2') for t in TYPES]
        items = [rng.choice(atoms) for _ in range(rng.randint(1, 4))]
        req = ','.join(items) if rng.random() < 0.6 else items
    return dict(kind='products', request=req, streams=streams, inputs=inputs, N=rng.randint(2, 4), F=rng.choice([1, 2, 4]))


# ------------------------------------------------------------------ (O) whole data sets opened with applycal=...

def wire_tel(tel):
    # `targets`: [] = the attribute is absent, [[names]] = present (possibly empty)
    return [[codes(st['name']), codes(st['type'] or ''),
             [] if st['targets'] is None else [[codes(t) for t in st['targets']]],
             [codes(a + p) for p in st['pols'] for a in st['ants']], int(bool(st['spectral'])),
             [codes(t) for t in st['types']]] for st in tel]


CAL_TYPE, IMAGE_TYPE = 'sdp.cal', 'sdp.continuum_image'


def spec_discover(tel, archived):
    """the documented choice over the whole list sdp_archived_streams, independent of the Coq model: L1 = the first
    archived sdp.cal stream (else 'cal'); L2 = the <imager>_<target>_selfcal substreams of the first archived imager
    stream THAT HAS self-cal targets (an imager whose `targets` is empty or absent is passed over wherever it stands)"""
    by = {st['name']: st for st in tel}
    cals = [n for n in archived if n in by and by[n]['type'] == CAL_TYPE]
    l1 = cals[0] if cals else 'cal'
    imgs = [n for n in archived if n in by and by[n]['type'] == IMAGE_TYPE and by[n]['targets']]
    l2 = ['%s_%s_selfcal' % (imgs[0], t) for t in by[imgs[0]]['targets']] if imgs else []
    return l1, l2


def layout_shape(tel, archived, full=False):
    """shape of the archived-stream layout for signatures: '' for at most one sdp.cal and one imager stream, else
    ';cals=multi' and ';imagers=productive_first | <empty|absent>_before_productive | none_productive' (archived imager
    streams in order: productive | empty | absent `targets`); full=True: the whole pattern (input distribution)"""
    by = {st['name']: st for st in tel}
    cals = [n for n in archived if n in by and by[n]['type'] == CAL_TYPE]
    kinds = ['productive' if by[n]['targets'] else 'absent' if by[n]['targets'] is None else 'empty'
             for n in archived if n in by and by[n]['type'] == IMAGE_TYPE]
    out = ''
    if len(cals) > 1:
        out += ';cals=%d' % len(cals) if full else ';cals=multi'
    if len(kinds) > 1:
        out += ';imagers=' + ('>'.join(kinds) if full else 'none_productive' if 'productive' not in kinds else
                              'productive_first' if kinds[0] == 'productive' else kinds[0] + '_before_productive')
    return out


def spec_opened(req, tel, archived, inputs):
    """documented behaviour of a data set, independent of the Coq model"""
    by = {st['name']: st for st in tel}
    l1, l2 = spec_discover(tel, archived)
    streams = []
    for alias, attrs_of, subs in (('l1', l1, [l1]), ('l2', l2[0] if l2 else None, l2)):
        st = by.get(attrs_of)
        if st is not None and st['ants'] and st['pols'] and st['spectral']:
            streams.append(dict(alias=alias, ants=st['ants'], pols=st['pols'], spectral=True,
                                sub_types=[by[n]['types'] if n in by else [] for n in subs]))
    return [st['alias'] for st in streams], spec_products(req, streams, inputs)


def isolate_templates():
    """Each `opened` case must be a function of ITS data set only (a replay runs it alone): drop applycal templates an
    earlier data set may have left in the module-level VIRTUAL_SENSORS (finding C14-F1; a no-op on fixed code).  What
    one data set does to another is the business of check_two_sets."""
    import katdal.visdatav4 as vd
    for k in [k for k in vd.VIRTUAL_SENSORS if k.startswith('Calibration/')]:
        del vd.VIRTUAL_SENSORS[k]


def l2_product_mismatch(ctx, case, d):
    """the self-cal product sensors of the data set must hold the solutions of ALL targets' substreams, merged by time:
    Calibration/Products/l2/<gain type> (raw samples) against merge_substreams of what the fixture stored"""
    from fixtures.c14streams import solution_offset
    reg, l2 = spec_streams(case['tel'], case['archived'])
    if 'l2' not in reg:
        return None
    by = {st['name']: (k, st) for k, st in enumerate(case['tel'])}
    for t in ('G', 'GPHASE', 'GAMP_PHASE'):
        if not all(n in by and t in by[n][1]['types'] for n in l2):
            continue
        streams = [[[q(Fr(solution_offset(*by[n]))), [wire_opv((Fr(1, 2 ** (by[n][0] + 1)), Fr(0)))]]] for n in l2]
        mo = streams[0] if len(streams) == 1 else ctx.model([[14, [7, streams]]])[0]
        try:
            sd = d.sensor.get('Calibration/Products/l2/' + t, extract=False).get()
        except Exception as e:       # noqa: BLE001
            return t, 'raises:' + type(e).__name__, mo
        t0 = 1600000000.0 + 123.0
        got = [[Fr((float(ts) - t0) / 2.0), complex(np.asarray(ComparableArrayWrapper.unwrap(v))[0, 0])]
               for ts, v in zip(sd.timestamp, sd.value)]
        if [g[0] for g in got] != [fq(m[0]) for m in mo] or not all(same(g[1], parse_opv(m[1][0])) for g, m in zip(got, mo)):
            return t, [[str(g[0]), repr(g[1])] for g in got], mo
    return None


def l2_corrections_mismatch(ctx, case, d):
    """self-cal corrections of a whole data set with several targets: Calibration/Corrections/l2/<gain type>/<inp> per
    dump against the spec (per-target interpolation, no flux) fed with the product sensor katdal extracted (event
    placement is C10) and the data set's own target sequence"""
    reg, l2 = spec_streams(case['tel'], case['archived'])
    if 'l2' not in reg:
        return None
    by = {st['name']: st for st in case['tel']}
    first = by[l2[0]]
    have = [a + p for p in first['pols'] for a in first['ants']]
    inps = [a + p for a in case['ants'] for p in 'hv' if a + p in have]
    if not inps:
        return None
    N = case['T']
    per_dump = [int(x) for x in d.sensor['Observation/target_index']]
    for t in ('GPHASE', 'GAMP_PHASE', 'G'):
        if not all(n in by and t in by[n]['types'] for n in l2):
            continue
        try:
            prod = get_cal_product(d.sensor, 'l2', t)
        except Exception as e:       # noqa: BLE001
            return t, 'product_raises', 'raises:' + type(e).__name__, None
        events, sols = [], []
        for e, v in cat_segments(prod):
            events.append(e)
            sols.append(None if v is INVALID_GAIN else [[str(Fr(float(np.asarray(v).ravel()[0].real))), '0']])
        fcase = dict(measured=[], overrides=None, tdefs=[['other']], per_dump=[0] * N)
        w = wire_flux(fcase, sols, events)
        sp = ctx.model([[142, [11, codes(t), N] + w[1][1:] + [per_dump]]])[0]
        sp = [[parse_opv(e) for e in row] for row in sp[0]]
        try:
            out = np.asarray(d.sensor['Calibration/Corrections/l2/%s/%s' % (t, inps[0])])
        except Exception as e:       # noqa: BLE001
            return t, 'raises', 'raises:' + type(e).__name__, sp
        g = dict(N=N, events=events, sols=sols, targets=per_dump if t != 'G' else None)
        ctx.traces_validated += 1
        ctx.count('opened:l2_correction_checked')
        ctx.count('opened:l2_correction:targets=%d,solutions=%d,invalid_dumps=%s' % (
            len(set(per_dump)), sum(1 for x in sols if x is not None),
            'some' if any(r[0] is None for r in sp) and any(r[0] is not None for r in sp) else
            'all' if all(r[0] is None for r in sp) else 'none'))
        pos, sym = gain_symptom(g, out, sp)
        if sym:
            return t, '%s@%s' % (sym, pos), show(out), show_m(itertools.chain(*sp))
    return None


def spec_streams(tel, archived):
    """(registered aliases, underlying L2 substreams) by the documented discovery rule"""
    by = {st['name']: st for st in tel}
    l1, l2 = spec_discover(tel, archived)
    reg = []
    for alias, attrs_of in (('l1', l1), ('l2', l2[0] if l2 else None)):
        st = by.get(attrs_of)
        if st is not None and st['ants'] and st['pols'] and st['spectral']:
            reg.append(alias)
    return reg, l2


def l1_product_mismatch(ctx, case, d):
    """WHICH sdp.cal stream became 'l1': the raw samples of Calibration/Products/l1/<type> must be the solution the
    fixture stored in the documented L1 stream (every stream's solution has its own timestamp and, for gain types, its
    own value 2^-(k+1))"""
    from fixtures.c14streams import solution_offset
    reg, _ = spec_streams(case['tel'], case['archived'])
    if 'l1' not in reg:
        return None
    l1, _ = spec_discover(case['tel'], case['archived'])
    k, st = [(k, st) for k, st in enumerate(case['tel']) if st['name'] == l1][0]
    for t in st['types']:
        want_ts = Fr(solution_offset(k, st))
        try:
            sd = d.sensor.get('Calibration/Products/l1/' + t, extract=False).get()
        except Exception as e:       # noqa: BLE001
            return t, 'raises:' + type(e).__name__, [str(want_ts)]
        t0 = 1600000000.0 + 123.0
        got_ts = [Fr((float(ts) - t0) / 2.0) for ts in sd.timestamp]
        ok = got_ts == [want_ts]
        if ok and t in ('G', 'GPHASE', 'GAMP_PHASE'):
            v = complex(np.asarray(ComparableArrayWrapper.unwrap(sd.value[0])).ravel()[0])
            ok = v == complex(0.5 ** (k + 1))
        ctx.count('opened:l1_product_checked')
        if not ok:
            return t, [str(x) for x in got_ts], [str(want_ts)]
    return None


V4_TARGETS = {'A': 'A, radec bpcal, 19:39:25.03, -63:42:45.6', 'B': 'B, radec gaincal, 10:00:00.0, -30:00:00.0',
              'Cee': 'C | Cee, radec target, 05:00:00.0, -20:00:00.0'}


def build_opened(case):
    from fixtures import v4
    from fixtures.c14streams import streams_hook
    seq = case.get('target_seq') or [[0, 'A']]
    return v4.build_v4(T=case['T'], F=case['F'], ants=tuple(case['ants']), telstate_hook=streams_hook(case['tel']),
                       targets=tuple((dd, V4_TARGETS[n]) for dd, n in seq), archived_override=case['archived'],
                       construct=False, tmp=v4.scratch_dir('c14'))


def check_opened(ctx, case, v=None):
    """katdal's VisibilityDataV4(applycal=request) on a synthetic telstate: stream discovery, registration, name
    expansion and skipping / rejecting of missing products, observed at d.applycal_products"""
    from fixtures import v4
    from fixtures.c14streams import streams_hook
    req = case['request'] if isinstance(case['request'], str) else list(case['request'])
    own = v is None
    if own:
        v = build_opened(case)
    isolate_templates()
    raw_bad = corr_bad = l1_bad = None
    try:
        if case.get('raw'):
            # on a data set opened without applycal: nothing has been extracted yet, the raw product is still there
            d0 = v4.reopen(v, open_kwargs=dict(applycal=''))
            raw_bad = l2_product_mismatch(ctx, case, d0)
            corr_bad = l2_corrections_mismatch(ctx, case, d0)
            l1_bad = l1_product_mismatch(ctx, case, d0)
            isolate_templates()
        try:
            d = v4.reopen(v, open_kwargs=dict(applycal=req))
            got = list(d.applycal_products)
        except ValueError:
            got = 'ValueError'
        except KeyError:
            got = 'KeyError'
        except Exception as e:       # noqa: BLE001
            got = 'raises:' + type(e).__name__
    finally:
        if own:
            v4.cleanup(v)
    inputs = sorted(a + p for a in case['ants'] for p in 'hv')
    mo = ctx.model([[141, [3, wire_req(req), wire_tel(case['tel']), [codes(n) for n in case['archived']],
                           [codes(i) for i in inputs]]]])[0]
    def text(x):
        return ''.join(chr(c) for c in x)
    mreg = [text(x) for x in mo[0]]
    # the Coq spec of discovery / registration (spec_discover, spec_aliases) and the model's walk
    cspec = ([text(x) for x in mo[3]], text(mo[6]), [text(x) for x in mo[7]]) if len(mo) > 7 else None
    mwalk = (text(mo[4]), [text(x) for x in mo[5]]) if len(mo) > 7 else None
    mo, mspec = parse_outcome(mo[1]), parse_outcome(mo[2])
    sreg, (want, expanded) = spec_opened(req, case['tel'], case['archived'], inputs)
    form = request_form(req, sreg)
    shape = layout_shape(case['tel'], case['archived'])
    sig = 'kind=opened;form=%s;streams=%s%s;missing=%s' % (form, '+'.join(sreg) or 'none', shape,
                                                            missing_shape(expanded, want)
                                                            if isinstance(want, list) else 'n/a')
    sl1, sl2 = spec_discover(case['tel'], case['archived'])
    if cspec is not None and (cspec != (sreg, sl1, sl2) or mwalk != (sl1, sl2)):
        # the walk of the model (which follows the guards regenerated from the source) or the Coq spec is not the
        # documented choice the harness knows: with an intact proof (C14_discover_is_spec) this cannot happen
        ctx.disagree('kind=opened;streams=%s%s;symptom=discovery_walk_not_documented_choice' % (
            '+'.join(sreg) or 'none', shape), case, list(mwalk), [list(cspec), [sreg, sl1, sl2]],
            'the model of the walk over sdp_archived_streams does not pick the documented L1 / L2 streams',
            kind='tie')
    if got != want or got != mspec:
        ctx.disagree(sig + ';symptom=%s' % symptom(got, want), case, got, mo,
                     'applycal_products of the opened data set are not the documented expansion of the request over '
                     'the L1 / L2 streams of the data set with missing products skipped / rejected',
                     spec=want if got != want else mspec)
    if l1_bad:
        ctx.disagree('kind=opened;streams=%s%s;product=l1.%s;symptom=solutions_of_first_cal_stream' % (
            '+'.join(sreg) or 'none', shape, l1_bad[0]), case, l1_bad[1], l1_bad[2],
            'the L1 product of the data set does not hold the solutions of the first archived sdp.cal stream')
    if raw_bad:
        ctx.disagree('kind=opened;streams=%s%s;product=l2.%s;symptom=selfcal_solutions_of_all_targets' % (
            '+'.join(sreg) or 'none', shape, raw_bad[0]), case, raw_bad[1], raw_bad[2],
            'the self-cal product of the data set is not the time-ordered union of the solutions of every target')
    if corr_bad:
        ctx.disagree('kind=opened;streams=%s%s;correction=l2.%s;symptom=%s' % ('+'.join(sreg) or 'none', shape,
                                                                               corr_bad[0], corr_bad[1]),
                     case, corr_bad[2], corr_bad[3],
                     'the self-cal correction of the data set is not the per-target interpolation of the solutions '
                     'derived on the target of each dump', spec=corr_bad[3])
    if got != mo or mreg != sreg:
        ctx.disagree(sig + ';symptom=%s' % (symptom(got, mo) if got != mo else 'registered_streams'), case, got,
                     [mreg, mo], 'applycal_products differ from the model of _register_standard_cal_streams + '
                     '_normalise_cal_products + calc_correction', kind='tie')
    ctx.traces_validated += 1
    ctx.note_case(('O', repr(case)), nontrivial=isinstance(want, list) and 0 < len(want) < len(set(expanded)),
                  sample=case if req == 'all' and len(case['tel']) <= 2 else None)
    ctx.count('opened:' + (want if isinstance(want, str) else 'applied'))
    ctx.count('opened:streams=' + ('+'.join(sreg) or 'none'))
    if shape:
        ctx.count('opened:layout' + layout_shape(case['tel'], case['archived'], full=True))


def gen_tel(rng):
    ants = ['m000', 'm001', 'm002'][:rng.randint(1, 2)]
    T = 6
    focus = rng.random() < 0.4            # a well-formed self-cal data set with several targets
    starts = [0] + sorted(rng.sample(range(1, T), rng.randint(1, 3) if focus else rng.randint(0, 3)))
    names = ['A', 'B', 'Cee']
    target_seq = []
    for dd in starts:
        target_seq.append([dd, rng.choice([n for n in names if not target_seq or n != target_seq[-1][1]])])
    on = {n: [d for d in range(T) if [x for dd, x in target_seq if dd <= d][-1] == n] for n in names}

    def attrs(kind):
        my_ants = list(ants)
        r = rng.random()
        if focus:
            pass
        elif r < 0.1:
            my_ants = []
        elif r < 0.25 and len(my_ants) > 1:
            my_ants.pop(rng.randrange(len(my_ants)))
        if kind == 'cal':
            types = ['K', 'B', 'G'] if rng.random() < 0.4 else [t for t in TYPES if rng.random() < 0.5]
        elif focus:
            types = ['GPHASE'] if rng.random() < 0.5 else ['GPHASE', 'GAMP_PHASE']
        else:
            types = ['GPHASE'] if rng.random() < 0.4 else [t for t in TYPES if rng.random() < 0.4]
        return dict(ants=my_ants, pols=['v', 'h'] if rng.random() < 0.8 else ['h', 'v'],
                    spectral=focus or rng.random() < 0.9, n_chans=rng.choice([1, 2]), types=types)
    tel, archived = [], ['sdp_l0']
    for name in rng.sample(['cal', 'cal2', 'calx'], rng.randint(0, 2)):
        tel.append(dict(name=name, type='sdp.cal' if rng.random() < 0.85 else rng.choice([None, 'sdp.beamformer_engineering']),
                        targets=None, **attrs('cal')))
        if rng.random() < 0.85:
            archived.append(name)
    for name in rng.sample(['continuum_image', 'img2'], 1 if focus else rng.choice([0, 1, 1, 2])):
        targets = rng.sample(names, rng.choice([2, 3]) if focus else rng.choice([0, 1, 1, 2, 2]))
        tel.append(dict(name=name, type='sdp.continuum_image' if focus or rng.random() < 0.9 else 'sdp.spectral_image',
                        targets=targets, targets_in_cb=rng.random() < 0.7, ants=[], pols=[], spectral=False,
                        n_chans=1, types=[]))
        shared = attrs('selfcal')          # self-cal runs on the same antennas / channels for every target
        for t in targets:
            if focus or rng.random() < 0.9:
                mine = attrs('selfcal')
                # the solution of this target's substream is derived while the target is observed (mostly)
                sol_dump = rng.choice(on[t]) if on[t] and rng.random() < 0.85 else rng.randrange(T)
                tel.append(dict(name='%s_%s_selfcal' % (name, t), type=None, targets=None, sol_dump=sol_dump,
                                **dict(shared, types=shared['types'] if focus or rng.random() < 0.5 else mine['types'])))
        if focus or rng.random() < 0.9:
            archived.append(name)
    if rng.random() < 0.2:
        archived.append('ghost')
    rng.shuffle(archived)
    return dict(tel=tel, archived=archived, ants=ants, T=T, F=2, target_seq=target_seq)


LAYOUT_REQUESTS = ['default', 'all', 'l2', 'GPHASE', 'l2.GPHASE', 'l1.G,GPHASE', 'l1', 'G', 'l1.G', 'GAMP_PHASE',
                   'l2,l1', 'K,B,G,GPHASE', ['l2.GPHASE'], 'l1.K,l1.B,l1.G,GPHASE']
IMAGER_KINDS = ['productive', 'productive', 'productive', 'empty', 'empty', 'absent', 'absent', 'wrongtype',
                'unarchived']


def gen_layout(rng):
    """A data set whose sdp_archived_streams lists SEVERAL streams of each type: 0-3 sdp.cal streams (some wrongly
    typed / untyped / unarchived / without a cal input map), 1-4 imager streams each of which is productive (1-3
    self-cal targets with well-formed substreams), has an EMPTY `targets` dict, has NO `targets` attribute, has
    another stream type, or is not archived; other names in between; random order.  Every stream's solutions can be
    told from every other's (timestamp, gain 2^-(k+1)), the imagers' substreams carry different product types."""
    ants = ['m000', 'm001'][:rng.randint(1, 2)]
    T = 6
    names = ['A', 'B', 'Cee']
    starts = [0] + sorted(rng.sample(range(1, T), rng.randint(1, 3)))
    target_seq = []
    for dd in starts:
        target_seq.append([dd, rng.choice([n for n in names if not target_seq or n != target_seq[-1][1]])])
    on = {n: [d for d in range(T) if [x for dd, x in target_seq if dd <= d][-1] == n] for n in names}

    def good(types, **kw):
        return dict(dict(ants=list(ants), pols=['v', 'h'], spectral=True, n_chans=rng.choice([1, 2]), types=types), **kw)
    cal_names = rng.sample(['cal', 'cal2', 'calx', 'wide_cal'], rng.choice([0, 1, 1, 2, 2, 3]))
    img_names = rng.sample(['continuum_image', 'img2', 'narrow_image', 'img_w'], rng.choice([1, 2, 2, 2, 3, 3, 4]))
    others = rng.sample(['ghost', 'sdp_l0_continuum', 'spectral_image'], rng.choice([0, 0, 1, 2]))
    order = cal_names + img_names + others + ['sdp_l0']
    rng.shuffle(order)
    # the imagers in archived order get their kinds: half of the layouts put an imager without targets first
    img_order = [n for n in order if n in img_names]
    kinds = [rng.choice(IMAGER_KINDS) for _ in img_order]
    r = rng.random()
    if len(kinds) > 1 and r < 0.5:
        kinds[0] = rng.choice(['empty', 'absent'])
        kinds[rng.randrange(1, len(kinds))] = 'productive'
    elif r < 0.6:
        kinds = [rng.choice(['empty', 'absent', 'wrongtype']) for _ in kinds]
    tel, archived = [], []
    cal_types = [['K', 'B', 'G'], ['G'], ['K', 'G'], ['B', 'G'], ['K', 'B'], ['G', 'GPHASE']]
    l2_types = [['GPHASE'], ['GPHASE', 'GAMP_PHASE'], ['G', 'GPHASE'], ['GAMP_PHASE']]
    rng.shuffle(cal_types)
    rng.shuffle(l2_types)
    for name in order:
        listed = True
        if name in cal_names:
            r = rng.random()
            st = good(cal_types.pop(), name=name, targets=None,
                      type=CAL_TYPE if r < 0.8 else None if r < 0.9 else 'sdp.beamformer_engineering')
            r = rng.random()
            if r < 0.08:
                st['ants'] = []
            elif r < 0.12:
                st['spectral'] = False
            tel.append(st)
            listed = rng.random() < 0.9
        elif name in img_names:
            kind = kinds[img_order.index(name)]
            with_targets = kind in ('productive', 'wrongtype', 'unarchived')
            targets = rng.sample(names, rng.randint(1, 3)) if with_targets else [] if kind == 'empty' else None
            tel.append(dict(name=name, type='sdp.spectral_image' if kind == 'wrongtype' else IMAGE_TYPE,
                            targets=targets, targets_in_cb=rng.random() < 0.7, ants=[], pols=[], spectral=False,
                            n_chans=1, types=[]))
            # an imager that had nothing to image may still have left-over substreams of an earlier run in telstate
            subs = targets if with_targets else rng.sample(names, 1) if rng.random() < 0.3 else []
            types = l2_types[img_order.index(name) % len(l2_types)]
            n_chans = rng.choice([1, 2])
            # the attributes of the FIRST substream decide whether 'l2' is registered: now and then one substream
            # (the first, or a later one) lacks its spectral attributes
            bare = rng.randrange(len(subs)) if subs and rng.random() < 0.2 else None
            for i, t in enumerate(subs):
                if rng.random() < 0.93:
                    sol_dump = rng.choice(on[t]) if on[t] and rng.random() < 0.85 else rng.randrange(T)
                    sub = good(list(types), name='%s_%s_selfcal' % (name, t), type=None, targets=None,
                               sol_dump=sol_dump, n_chans=n_chans, spectral=i != bare)
                    if rng.random() < 0.06:
                        sub['types'] = []
                    tel.append(sub)
            listed = kind != 'unarchived'
        elif name == 'spectral_image':
            tel.append(dict(name=name, type='sdp.spectral_image', targets=None, ants=[], pols=[], spectral=False,
                            n_chans=1, types=[]))
        if listed:
            archived.append(name)
    return dict(tel=tel, archived=archived, ants=ants, T=T, F=2, target_seq=target_seq)


def run_layouts(ctx, rng, n_sets, n_req):
    from fixtures import v4
    for _ in range(n_sets):
        base = gen_layout(rng)
        reqs = ['default'] + [rng.choice(LAYOUT_REQUESTS) for _ in range(n_req - 1)]
        v = build_opened(base)
        try:
            for k, req in enumerate(reqs):
                check_opened(ctx, dict(base, kind='opened', request=req, raw=(k == 0)), v)
        finally:
            v4.cleanup(v)
        ctx.count('layouts')


def opened_requests(rng, n):
    atoms = ['l1', 'l2', 'K', 'B', 'G', 'GPHASE', 'GAMP_PHASE'] + [s + '.' + t for s in ('l1', 'l2') for t in TYPES]
    out = ['all']
    while len(out) < n:
        if rng.random() < 0.6:
            out.append(rng.choice(P_REQUESTS))
        else:
            items = [rng.choice(atoms) for _ in range(rng.randint(1, 3))]
            out.append(','.join(items) if rng.random() < 0.6 else items)
    return out


def run_opened(ctx, rng, n_sets, n_req):
    from fixtures import v4
    from fixtures.c14streams import streams_hook
    for _ in range(n_sets):
        base = gen_tel(rng)
        v = build_opened(base)
        try:
            for k, req in enumerate(opened_requests(rng, n_req)):
                check_opened(ctx, dict(base, kind='opened', request=req, raw=(k == 0)), v)
        finally:
            v4.cleanup(v)


# ------------------------------------------------------------------ (T) several data sets open in one process

GTARGET = '%s, radec gaincal, 10:00:00.0, -30:00:00.0'


def check_two_sets(ctx, case):
    """Data sets opened one after the other and all kept open: each must behave as if it were alone — its
    applycal_products, and its (lazily evaluated) L1 gain correction scaled by ITS OWN flux table / override."""
    from fixtures import v4
    from fixtures.c14streams import streams_hook
    isolate_templates()
    opened = []
    try:
        for cfg in case['sets']:
            def hook(ts, cbid, stream, cfg=cfg):
                streams_hook(cfg['tel'])(ts, cbid, stream)
                if cfg['measured'] is not None:
                    ts.view('cal')['measured_flux'] = {n: flux_float(None if f is None else Fr(f)) for n, f in cfg['measured']}
            v = v4.build_v4(T=cfg['T'], F=cfg['F'], ants=tuple(cfg['ants']), telstate_hook=hook,
                            targets=((0, GTARGET % cfg['target']),), archived_override=cfg['archived'],
                            construct=False, tmp=v4.scratch_dir('c14'))
            kw = dict(applycal=cfg['request'])
            if cfg['overrides'] is None:
                kw['gaincal_flux'] = None
            else:
                kw['gaincal_flux'] = {n: flux_float(None if f is None else Fr(f)) for n, f in cfg['overrides']}
            try:
                d = v4.reopen(v, open_kwargs=kw)
                got = list(d.applycal_products)
            except ValueError:
                d, got = None, 'ValueError'
            except KeyError:
                d, got = None, 'KeyError'
            except Exception as e:       # noqa: BLE001
                d, got = None, 'raises:' + type(e).__name__
            opened.append((cfg, v, d, got))
        for k, (cfg, v, d, got) in enumerate(opened):
            which = 'first' if k == 0 else 'later'
            inputs = sorted(a + p for a in cfg['ants'] for p in 'hv')
            mo = ctx.model([[141, [3, wire_req(cfg['request']), wire_tel(cfg['tel']), [codes(n) for n in cfg['archived']],
                                   [codes(i) for i in inputs]]]])[0]
            mo = parse_outcome(mo[1])
            if got != mo:
                ctx.disagree('kind=two_sets;observed=%s;symptom=applied_products' % which, case, got, mo,
                             'applycal_products of a data set depend on another data set opened in the same process')
            if d is None:
                continue
            l1 = [st for st in cfg['tel'] if st['name'] == 'cal'][0]
            inp = cfg['probe']
            # the model of THIS data set: one solution 1/2 e^{0}, flux calibrated, interpolated, inverted
            fcase = dict(measured=cfg['measured'] or [], overrides=cfg['overrides'], tdefs=[[cfg['target']]],
                         per_dump=[0] * cfg['T'])
            sols = [[['1/2', '0']]]
            fm = ctx.model([wire_flux(fcase, sols, [0])])[0]
            wsols = [None if not m[1] else [None if not e else [str(fq(e[0][0])), str(fq(e[0][1]))] for e in m[1][0]]
                     for m in fm]
            gm = ctx.model([[14, [24, cfg['T'], wire_sols(wsols, [0]), []]]])[0]
            gm = [[parse_opv(e) for e in row] for row in gm]
            try:
                out = np.asarray(d.sensor['Calibration/Corrections/l1/G/' + inp])
            except Exception as e:       # noqa: BLE001
                out = None
                err = repr(e)[:200]
            if out is None or out.shape != (cfg['T'], 1) or not all(same(out[t, 0], gm[t][0]) for t in range(cfg['T'])):
                ctx.disagree('kind=two_sets;observed=%s;symptom=%s' % (which, 'raises' if out is None else 'flux_scale'),
                             case, err if out is None else show(out), show_m(itertools.chain(*gm)),
                             'the L1 gain correction of a data set is not scaled by 1/sqrt(flux) from ITS OWN flux '
                             'table / override once another data set has been opened in the same process')
            ctx.traces_validated += 1
    finally:
        for _, v, _, _ in opened:
            v4.cleanup(v)
    ctx.note_case(('T', repr(case)), nontrivial=len(case['sets']) >= 2, sample=None)
    ctx.count('two_sets')


def gen_two_sets(rng):
    sets = []
    for k in range(rng.choice([2, 2, 3])):
        ants = ['m000', 'm001'][:rng.randint(1, 2)]
        target = rng.choice(NAMES[:2])
        fl = [f for f in FLUXES if f is not None and f > 0 and f != 1]
        measured = None if rng.random() < 0.25 else [[target, str(rng.choice(fl))]]
        r = rng.random()
        # an override may name this data set's calibrator, ANOTHER calibrator (then the measured flux still counts) or both
        other = rng.choice([n for n in NAMES if n != target])
        overrides = (None if r < 0.3 else [] if r < 0.55 else [[target, str(rng.choice(fl))]] if r < 0.7 else
                     [[other, str(rng.choice(fl))]] if r < 0.9 else
                     [[other, str(rng.choice(fl))], [target, str(rng.choice(fl))]])
        tel = [dict(name='cal', type='sdp.cal', targets=None, ants=list(ants), pols=['v', 'h'], spectral=True,
                    n_chans=rng.choice([1, 2]), types=['K', 'B', 'G'] if rng.random() < 0.7 else ['G'])]
        sets.append(dict(tel=tel, archived=['sdp_l0', 'cal'], ants=ants, T=3, F=2, target=target, measured=measured,
                         overrides=overrides, probe=rng.choice(ants) + rng.choice('hv'),
                         request=rng.choice(['', '', 'l1.K', 'K', 'B']) if k == 0 else rng.choice(['', 'all', 'l1', 'G', 'l1.G'])))
    return dict(kind='two_sets', sets=sets)


# ------------------------------------------------------------------ (D) what calc_correction DELIVERS per data channel

TOL_DELIVERED = 16 * 2.0 ** -23      # a product of two complex64 corrections (each within TOL of its exact value)


def same_tol(z, mv, tol):
    z = complex(z)
    if mv is None:
        return math.isnan(z.real) and math.isnan(z.imag)
    if math.isnan(z.real) or math.isnan(z.imag):
        return False
    e = to_c(mv[0], mv[1])
    return abs(z - e) <= tol * abs(e)


def cal_grid(cal):
    """SpectralWindow.channel_freqs: centre + bandwidth * (k - n // 2) / n"""
    n, w, c = cal['n_chans'], Fr(cal['width']), Fr(cal['centre'])
    return [c + w * (k - n // 2) for k in range(n)]


def check_delivered(ctx, case):
    """K / B solutions -> add_applycal_sensors -> calc_correction: the correction array per dump, DATA channel and
    correlation product against the model (channel map + g1 conj g2) and the spec (the rule at the data channel's own
    frequency), for cal channelisations equal to / offset from / narrower / coarser than / of another size than the data's"""
    from katdal.applycal import calc_correction
    ptype, N = case['ptype'], case['N']
    ants, pols = case['ants'], case['pols']
    dtype = np.dtype(case['dtype'])
    cal = case['cal']
    cf = cal_grid(cal)
    df = [Fr(f) for f in case['data_freqs']]
    inputs = sorted(a + p for a in ants for p in pols)
    index = {a + p: (pi, ai) for pi, p in enumerate(pols) for ai, a in enumerate(ants)}
    ts, vals = [], []
    for dump, sol in case['sols']:
        ts.append(float(dump))
        if ptype == 'K':
            a = np.zeros((len(pols), len(ants)))
            for inp, d in sol.items():
                a[index[inp]] = np.nan if d is None else float(Fr(d))
        else:
            a = np.ones((cal['n_chans'], len(pols), len(ants)), dtype=dtype)
            for inp, bp in sol.items():
                a[(slice(None),) + index[inp]] = c_array([None if v is None else (Fr(v[0]), Fr(v[1])) for v in bp], dtype)
        vals.append(a)
    cache = {'Observation/target': CategoricalData([0], [0, N]), 'cal_product_' + ptype: raw_sensor(ts, vals)}
    sc = SensorCache(cache, timestamps=np.arange(N, dtype=float), dump_period=1., props=SENSOR_PROPS, virtual={})
    attrs = dict(antlist=ants, pol_ordering=pols, center_freq=float(Fr(cal['centre'])),
                 bandwidth=float(Fr(cal['width']) * cal['n_chans']), n_chans=cal['n_chans'])
    data_freqs = np.array([float(f) for f in df])
    pairs = [tuple(pr) for pr in case['pairs']]
    corrprods = [(inputs[a], inputs[b]) for a, b in pairs]
    # every input must take part (calc_correction only looks at the inputs of the corrprods)
    chunks = ((N,), (len(df),), (len(corrprods),))
    bad = None
    with warnings.catch_warnings():
        warnings.simplefilter('ignore')
        cal_freqs = add_applycal_sensors(sc, attrs, data_freqs, 'cal', gaincal_flux=None)
        if [Fr(float(f)) for f in cal_freqs] != cf:
            bad = ('cal_freqs', [str(Fr(float(f))) for f in cal_freqs], [str(f) for f in cf], 'tie')
        try:
            final, corr = calc_correction(chunks, sc, corrprods, ['cal.' + ptype], data_freqs, {'cal': cal_freqs})
            arr = corr.compute(scheduler='synchronous')
            segs = cat_segments(get_cal_product(sc, 'cal', ptype))
        except Exception as e:       # noqa: BLE001
            bad = bad or ('raises:' + type(e).__name__, repr(e)[:200], None, 'property')
    used = sorted({i for pr in pairs for i in pr})
    rel = channelisation(cf, df)
    if not bad:
        table = {int(d): sol for d, sol in case['sols']}
        bounds = [e for e, _ in segs] + [N]
        for k, (e, _) in enumerate(segs):
            sol = table[e] if e in table else table[min(table)]
            if ptype == 'K':
                payload = [[q(f) for f in df], [q(f) for f in cf],
                           [[] if sol[inp] is None else [q(Fr(sol[inp]))] for inp in inputs]]
                op = 1
            else:
                payload = [[q(f) for f in df], [q(f) for f in cf],
                           [[wire_opv(None if v is None else (Fr(v[0]), Fr(v[1]))) for v in sol[inp]] for inp in inputs]]
                op = 2
            outs = ctx.model([[143, [op] + payload + [a, b]] for a, b in pairs])
            for j, ((a, b), (mo, sp)) in enumerate(zip(pairs, outs)):
                mo, sp = [parse_opv(x) for x in mo], [parse_opv(x) for x in sp]
                for dump in range(bounds[k], bounds[k + 1]):
                    row = arr[dump, :, j]
                    for ref, kind in ((sp, 'property'), (mo, 'tie')):
                        wrong = [c for c in range(len(df)) if not same_tol(row[c], ref[c], TOL_DELIVERED)]
                        if wrong and not bad:
                            c = wrong[0]
                            flip = (ref[c] is None) != bool(np.isnan(row[c]))
                            bad = ('nan_structure' if flip else 'value', show(row), show_m(ref), kind)
    if bad:
        ctx.disagree('kind=delivered;type=%s;channels=%s;symptom=%s' % (ptype, rel, bad[0]), case, bad[1], bad[2],
                     'the correction calc_correction delivers for a data channel is not the %s rule evaluated at that '
                     "channel's own frequency" % ('exp(-2 pi i delay f)' if ptype == 'K' else
                                                  'inverted interpolated bandpass'), kind=bad[3])
    ctx.traces_validated += 1
    ctx.note_case(('D', repr(case)), nontrivial=len(df) >= 2 and len(case['sols']) >= 1, sample=case if len(df) <= 2 else None)
    ctx.count('delivered:' + ptype)
    ctx.count('delivered:channels=' + rel)


def channelisation(cf, df):
    """how the cal channels relate to the data channels"""
    if len(cf) != len(df):
        return 'other_count'
    if cf == df:
        return 'equal'
    if len(cf) == 1:
        return 'same_count_single'
    if all(abs(a - b) <= Fr(1, 1000) for a, b in zip(cf, df)):
        return 'same_count_within_1mHz'
    wc, wd = cf[1] - cf[0], df[1] - df[0]
    return 'same_count_' + ('offset' if wc == wd else 'cal_narrower' if wc < wd else 'cal_coarser')


def gen_delivered(rng):
    ptype = rng.choice(['K', 'B'])
    ants = ['m000', 'm001', 'm002'][:rng.randint(1, 3)]
    pols = ['v', 'h'] if rng.random() < 0.7 else ['h', 'v']
    n = rng.choice([1, 2, 3, 4, 4, 6, 8])
    width = rng.choice([Fr(1), Fr(2), Fr(1, 2), Fr(4)])
    centre = Fr(rng.choice([100, 856, 1284, 64]))
    cal = dict(n_chans=n, width=str(width), centre=str(centre))
    cf = cal_grid(cal)
    r = rng.random()
    if r < 0.15:
        df = list(cf)
    elif r < 0.3:
        df = [f + rng.choice([Fr(1, 2), -Fr(1, 2), Fr(3), -Fr(5), Fr(1, 4)]) * width for f in cf]     # offset
    elif r < 0.45:
        df = [centre + 2 * width * (k - n // 2) for k in range(n)]             # cal narrower than the data band
    elif r < 0.6:
        df = [centre + width / 2 * (k - n // 2) + rng.choice([0, 1]) * width / 4 for k in range(n)]   # cal coarser
    elif r < 0.68:
        df = [f + Fr(1, 2048) for f in cf]                                     # within 1 mHz
    else:
        m = rng.choice([x for x in (1, 2, 3, 4, 5, 8, 12) if x != n])
        w2 = rng.choice([width, width / 2, 2 * width])
        df = [centre + rng.choice([0, 1, -3]) * width + w2 * (k - m // 2) for k in range(m)]
    inputs = sorted(a + p for a in ants for p in pols)
    N = rng.randint(2, 6)
    dumps = sorted(rng.sample(range(N), rng.randint(1, min(2, N))))
    sols = []
    dtype, small = (np.complex64, True) if rng.random() < 0.7 else (np.complex128, rng.random() < 0.5)
    for i, dump in enumerate(dumps):
        sol = {}
        for inp in inputs:
            if ptype == 'K':
                sol[inp] = None if rng.random() < 0.2 else str(Fr(rng.randint(-64, 64), rng.choice([64, 256])) + Fr(i, 1024))
            else:
                pat = nan_pattern(rng, n)
                vv = gen_values(rng, n, small)
                sol[inp] = [None if pat[c] else [str(vv[c][0]), str(vv[c][1])] for c in range(n)]
        sols.append([dump, sol])
    k = len(inputs)
    pairs = [[a, b] for a in range(k) for b in range(a, k)]
    rng.shuffle(pairs)
    pairs = pairs[:rng.randint(1, 4)]
    # every input has to be named by some corrprod (the others are not looked at by calc_correction): add autos
    named = {i for pr in pairs for i in pr}
    pairs += [[i, i] for i in range(k) if i not in named]
    return dict(kind='delivered', ptype=ptype, ants=ants, pols=pols, cal=cal, data_freqs=[str(f) for f in df], N=N,
                sols=sols, pairs=pairs, dtype=np.dtype(dtype).name)



# ------------------------------------------------------------------ (P) WHICH solutions reach the calculators, and where
GAIN_TYPES = ('G', 'GPHASE', 'GAMP_PHASE')


def py_place(gain_like, ends, P, samples):
    """the documented placement written independently: (event, sample index | None) list, or None (no value at all)"""
    N = len(ends)
    bounds = [ends[0] - P] + list(ends)
    placed = []
    for i, (t, _) in enumerate(samples):
        k = sum(1 for e in bounds if e < t) - 1          # dump during which it was timestamped (-1: before, N: after)
        if k >= N:
            continue
        placed.append((max(k, 0), i))
    if gain_like and (not placed or placed[0][0] != 0):
        placed.insert(0, (0, None))
    if not placed:
        return None
    placed[0] = (0, placed[0][1])
    return [pl for j, pl in enumerate(placed) if j + 1 == len(placed) or placed[j + 1][0] > pl[0]]


def placed_shape(case):
    a, N = case['a'], case['N']
    ts = [Fr(s[0]) for s in case['samples']]
    lo0, hi0, last = Fr(a) - Fr(1, 2), Fr(a) + Fr(1, 2), Fr(a + N) - Fr(1, 2)
    dumps = [math.ceil(t - Fr(1, 2)) for t in ts if hi0 < t <= last]
    tags = []
    if any(t <= lo0 for t in ts):
        tags.append('before_first')
    if any(lo0 < t <= hi0 for t in ts):
        tags.append('inside_first')
    if len(dumps) != len(set(dumps)):
        tags.append('several_per_dump')
    if any(t > last for t in ts):
        tags.append('late')
    return '+'.join(tags) or 'own_dumps'


def wire_tsamples(samples):
    return [[q(Fr(s[0])), [wire_opv(None if v is None else (Fr(v[0]), Fr(v[1]))) for v in s[1]]] for s in samples]


def parse_sols(x):
    """wire: [] | [[[event, [] | [opvs]], ...]]"""
    if not x:
        return None
    return [(e, None if not g else [parse_opv(v) for v in g[0]]) for e, g in x[0]]


def check_placed(ctx, case):
    """time-stamped solutions -> real SensorCache (its timestamps are the KEPT dumps of a `dumps` preselection) ->
    Calibration/Products/cal/<type> (events, values) and Calibration/Corrections/cal/<type>/<input>"""
    ptype, a, N = case['ptype'], case['a'], case['N']
    idx = tuple(case['index'])
    inp = [k for k, v in INPUTS.items() if v == idx][0]
    dtype = np.dtype(case['dtype'])
    samples = case['samples']
    gain_like = ptype in GAIN_TYPES
    ts = [float(Fr(s[0])) for s in samples]
    # the other inputs' gains: a value per solution, the SAME for a solution that repeats the previous one (whole arrays equal)
    fills = []
    for k, s in enumerate(samples):
        fills.append(fills[-1] if k and s[1] == samples[k - 1][1] else 3 + k)
    vals = [block([None if v is None else (Fr(v[0]), Fr(v[1])) for v in s[1]], idx, dtype, fills[k])
            for k, s in enumerate(samples)]
    if ptype in ('G', 'GPHASE', 'GAMP_PHASE') and case['chans'] == 0:
        vals = [v[0] for v in vals]
    cache = {'cal_product_' + ptype: raw_sensor(ts, vals)}
    sc = SensorCache(cache, timestamps=np.arange(a, a + N, dtype=float), dump_period=1., props=SENSOR_PROPS, virtual={})
    tg = case['per_dump']
    ev = [0] + [d for d in range(1, N) if tg[d] != tg[d - 1]]
    sc['Observation/target'] = CategoricalData([tg[e] for e in ev], ev + [N])
    nchan = max(case['chans'], 1)
    attrs = dict(ATTRS0, center_freq=100.0, bandwidth=float(nchan), n_chans=nchan)
    add_applycal_sensors(sc, attrs, np.array([99.5, 100.5]), 'cal', gaincal_flux=None)
    ends = [Fr(a + k) + Fr(1, 2) for k in range(N)]
    want = py_place(gain_like, ends, Fr(1), [(Fr(s[0]), s[1]) for s in samples])
    shape = placed_shape(case)
    sig0 = 'kind=placed;type=%s;presel=%s;history=%s' % (ptype if gain_like else 'KB', a > 0, shape)
    mo = sp = None
    if ctx.model_ok:
        try:
            r144 = ctx.model([[144, [0, codes(ptype), [q(e) for e in ends], q(Fr(1)), wire_tsamples(samples)]]])[0]
            if not (isinstance(r144, list) and len(r144) == 2 and all(isinstance(b, list) for b in r144)):
                raise KeyError('wire 144 not available')
            mo, sp = [parse_sols(x) for x in r144]
        except Exception:       # noqa: BLE001 - wire left out of a partial driver: the Python spec still decides
            mo = sp = None
    crashed = None
    try:
        prod = get_cal_product(sc, 'cal', ptype)
        segs = cat_segments(prod)
    except Exception as e:       # noqa: BLE001
        segs, crashed = None, 'raises:' + type(e).__name__
    bad = None
    if want is None:
        if segs is not None:
            bad = None            # no solution at or before the last dump and no initial value: not constrained
    elif crashed:
        bad = crashed
    else:
        def expand(evs, value_of):
            out, j = [], -1
            for d in range(N):
                while j + 1 < len(evs) and evs[j + 1][0] <= d:
                    j += 1
                out.append(value_of(evs[j][1]))
            return out
        got_evs = [(e, v) for e, v in segs]
        if gain_like:
            if [e for e, _ in got_evs] != [e for e, _ in want]:
                bad = 'events'
            else:
                for (e, v), (_, i) in zip(got_evs, want):
                    if (i is None) != (v is INVALID_GAIN):
                        bad = 'placeholder'
                    elif i is not None and not same_array(np.atleast_1d(np.asarray(v)[(Ellipsis,) + idx]),
                                                          [None if x is None else (Fr(x[0]), Fr(x[1])) for x in samples[i][1]]):
                        bad = 'values'
        else:
            gw = expand(want, lambda i: i)
            gg = expand(got_evs, lambda v: v)
            for d in range(N):
                if not same_array(np.atleast_1d(np.asarray(gg[d])[(Ellipsis,) + idx]),
                                  [None if x is None else (Fr(x[0]), Fr(x[1])) for x in samples[gw[d]][1]]):
                    bad = 'value_per_dump'
    if bad:
        ctx.disagree(sig0 + ';symptom=product_' + bad, case,
                     None if segs is None else [[e, 'INVALID' if v is INVALID_GAIN else show(np.atleast_1d(np.asarray(v)[(Ellipsis,) + idx]))]
                                                for e, v in segs][:8], mo,
                     'the cal product sensor does not hold, per dump, the last solution timestamped during it (the first dump: '
                     'at or before its end), starting from INVALID for gain types', spec=want)
    if mo is not None and want is not None:
        mw = [(e, None if i is None else [None if x is None else (Fr(x[0]), Fr(x[1])) for x in samples[i][1]]) for e, i in want]
        for name, m in (('model', mo), ('spec', sp)):
            if m is None or [(e, g) for e, g in m] != mw:
                ctx.disagree(sig0 + ';symptom=%s_placement_not_documented' % name, case, None, m,
                             'Coq %s placement differs from the independent Python statement of the documented rule' % name,
                             spec=[[e, i] for e, i in want], kind='tie')
    # the correction sensor of the gain types against spec and model
    if gain_like and want is not None and not crashed:
        with warnings.catch_warnings():
            warnings.simplefilter('ignore')
            try:
                out = np.asarray(sc.get('Calibration/Corrections/cal/%s/%s' % (ptype, inp)))
            except Exception as e:       # noqa: BLE001
                out = None
                ctx.disagree(sig0 + ';symptom=correction_raises:' + type(e).__name__, case, repr(e)[:200], None,
                             'the correction sensor of an in-domain solution history raises')
        if out is not None:
            selfcal = ptype != 'G'
            # solutions as the DOCUMENTED placement gives them; interpolation by the Coq spec (wire 24) / model (wire 4)
            sols = [None if i is None else samples[i][1] for _, i in want]
            events = [e for e, _ in want]
            payload = [N, wire_sols(sols, events), [tg] if selfcal else []]
            g = dict(N=N, events=events, sols=sols, targets=tg if selfcal else None)
            if ctx.model_ok:
                spo, moo = ctx.model([[14, [24] + payload], [14, [4] + payload]])
                spo = [[parse_opv(e) for e in row] for row in spo]
                pos, sym = gain_symptom(g, out, spo)
                if sym:
                    ctx.disagree(sig0 + ';symptom=correction_%s@%s' % (sym, pos), case, show(out),
                                 show_m(itertools.chain(*spo)),
                                 'gain correction per kept dump is not the inverted interpolation of the solutions placed by '
                                 'the documented rule (last solution at or before the end of the first kept dump held from '
                                 'dump 0 on)', spec=show_m(itertools.chain(*spo)))
                try:
                    both = ctx.model([[144, [1, codes(ptype), [q(e) for e in ends], q(Fr(1)), wire_tsamples(samples),
                                             [tg] if selfcal else []]]])[0]
                    if not (isinstance(both, list) and len(both) == 2 and all(isinstance(b, list) for b in both)):
                        raise KeyError('wire 144 not available')
                    for name, rows in (('model', both[0]), ('spec', both[1])):
                        rows = [[parse_opv(e) for e in row] for row in rows[0]] if rows else None
                        pos, sym = (None, 'none') if rows is None else gain_symptom(g, out, rows)
                        if sym:
                            ctx.disagree(sig0 + ';symptom=%s_chain_%s@%s' % (name, sym, pos), case, show(out),
                                         None if rows is None else show_m(itertools.chain(*rows)),
                                         'placement + gain interpolation of the Coq %s differs from katdal' % name,
                                         kind='tie' if name == 'model' else 'property')
                except (KeyError, RuntimeError):
                    pass
    ctx.traces_validated += 1
    ctx.note_case(('P', repr(case)), nontrivial=shape != 'own_dumps', sample=case if N <= 3 else None)
    ctx.count('placed:' + ('gain' if gain_like else 'KB'))
    ctx.count('placed:history=' + shape)
    ctx.count('placed:presel=%s' % (a > 0))
    if any(k and s[1] == samples[k - 1][1] for k, s in enumerate(samples)):
        ctx.count('placed:repeated_solution')


def gen_placed(rng):
    a = rng.choice([0, 0, 1, 3, 5])
    N = rng.randint(1, 7)
    ptype = rng.choice(['G', 'G', 'GPHASE', 'GAMP_PHASE', 'K', 'B'])
    chans = rng.choice([0, 1, 2]) if ptype in GAIN_TYPES else (0 if ptype == 'K' else rng.randint(1, 3))
    # times in quarter dumps from 3 dumps before the first kept dump to 2 after the last; dump k covers (k-1/2, k+1/2]
    pool = [Fr(4 * a - 14 + j, 4) for j in range(4 * (N + 5))]
    k = rng.randint(1, min(6, len(pool)))      # an EMPTY telstate sensor does not exist (a key has >= 1 sample)
    style = rng.random()
    if style < 0.25:                          # crowd the first kept dump: before it, on its edges, inside it
        pool = [t for t in pool if t <= Fr(a) + Fr(3, 4)]
        k = min(max(k, 2), len(pool))
    times = sorted(rng.sample(pool, k))
    per = max(chans, 1)
    cols = [gen_values(rng, len(times), True) for _ in range(per)]
    samples = []
    for i, t in enumerate(times):
        row = [None if rng.random() < 0.15 else [str(cols[c][i][0] * (1 + Fr(i, 16))), str(cols[c][i][1])] for c in range(per)]
        if samples and rng.random() < 0.15:
            row = list(samples[-1][1])          # a solution that REPEATS the previous one is a solution in its own right
        samples.append([str(t), row])
    return dict(kind='placed', ptype=ptype, a=a, N=N, chans=chans, samples=samples, dtype='complex64',
                index=[rng.randint(0, 1), rng.randint(0, 1)], per_dump=[t % 3 for t in gen_targets(rng, N)])


def check_presel(ctx, case):
    """the same through a real data set: VisibilityDataV4(applycal=..., preselect=dict(dumps=slice(a, b))) and
    d.sensor['Calibration/Corrections/l1/G/<input>'] on the kept dumps"""
    from fixtures import v4
    from fixtures.c14streams import streams_hook
    isolate_templates()
    T, a, b = case['T'], case['a'], case['b']
    N = b - a
    sols = case['solutions']
    tel = [dict(name='cal', type='sdp.cal', targets=None, ants=list(case['ants']), pols=['v', 'h'], spectral=True,
                n_chans=1, types=[], solutions={'G': sols})]
    v = v4.build_v4(T=T, F=2, ants=tuple(case['ants']), telstate_hook=streams_hook(tel),
                    targets=((0, GTARGET % 'gaincal1'),), archived_override=['sdp_l0', 'cal'], construct=False,
                    tmp=v4.scratch_dir('c14'))
    sig0 = 'kind=presel;type=G;presel=%s;history=%s' % ((a, b) != (0, T), placed_shape(
        dict(a=a, N=N, samples=[[s[0], None] for s in sols])))
    try:
        kw = {} if (a, b) == (0, T) and not case.get('explicit') else dict(preselect=dict(dumps=slice(a, b)))
        d = v4.reopen(v, source_kwargs=kw, open_kwargs=dict(applycal=case['request'], gaincal_flux=None))
        samples = [[s[0], [[s[1], s[2]]]] for s in sols]
        ends = [Fr(a + k) + Fr(1, 2) for k in range(N)]
        want = py_place(True, ends, Fr(1), [(Fr(s[0]), s[1]) for s in samples])
        wsols = [None if i is None else samples[i][1] for _, i in want]
        events = [e for e, _ in want]
        g = dict(N=N, events=events, sols=wsols, targets=None)
        with warnings.catch_warnings():
            warnings.simplefilter('ignore')
            try:
                out = np.asarray(d.sensor['Calibration/Corrections/l1/G/' + case['probe']])
            except Exception as e:       # noqa: BLE001
                out = None
                ctx.disagree(sig0 + ';symptom=correction_raises:' + type(e).__name__, case, repr(e)[:200], None,
                             'the L1 gain correction of a preselected data set raises')
        if out is not None and ctx.model_ok:
            spo = ctx.model([[14, [24, N, wire_sols(wsols, events), []]]])[0]
            spo = [[parse_opv(e) for e in row] for row in spo]
            pos, sym = gain_symptom(g, out, spo)
            if sym:
                ctx.disagree(sig0 + ';symptom=correction_%s@%s' % (sym, pos), case, show(out), show_m(itertools.chain(*spo)),
                             'L1 gain correction on the kept dumps is not the inverted interpolation of the solutions placed by '
                             'the documented rule (the last solution at or before the end of the first KEPT dump held from '
                             'its start)', spec=show_m(itertools.chain(*spo)))
            try:
                both = ctx.model([[144, [1, codes('G'), [q(e) for e in ends], q(Fr(1)), wire_tsamples(samples), []]]])[0]
                if not (isinstance(both, list) and len(both) == 2 and isinstance(both[0], list) and both[0]):
                    raise KeyError('wire 144 not available')
                rows = [[parse_opv(e) for e in row] for row in both[0][0]]
                pos, sym = gain_symptom(g, out, rows)
                if sym:
                    ctx.disagree(sig0 + ';symptom=model_chain_%s@%s' % (sym, pos), case, show(out),
                                 show_m(itertools.chain(*rows)), 'placement + interpolation of the model differs', kind='tie')
            except (KeyError, RuntimeError):
                pass
        if list(d.applycal_products) != (['l1.G'] if case['request'] else []):
            ctx.disagree(sig0 + ';symptom=applied_products', case, list(d.applycal_products), ['l1.G'],
                         'applycal_products of a preselected data set')
    finally:
        v4.cleanup(v)
    ctx.traces_validated += 1
    ctx.note_case(('Q', repr(case)), nontrivial=True, sample=None)
    ctx.count('presel:dumps=%s' % ('all' if (a, b) == (0, T) else 'tail' if b == T else 'head' if a == 0 else 'middle'))


def gen_presel(rng):
    T = rng.randint(3, 7)
    a = rng.choice([0, 0, 1, 2, T - 1])
    b = rng.randint(a + 1, T)
    if rng.random() < 0.3:
        b = T
    pool = [Fr(-10 + j, 4) for j in range(4 * (T + 4))]
    times = sorted(rng.sample(pool, rng.randint(1, 5)))
    vals = gen_values(rng, len(times), True)
    sols = [[str(t), str(vals[i][0] * (1 + Fr(i, 16))), str(vals[i][1])] for i, t in enumerate(times)]
    ants = ['m000', 'm001'][:rng.randint(1, 2)]
    return dict(kind='presel', T=T, a=a, b=b, solutions=sols, ants=ants, probe=rng.choice(ants) + rng.choice('hv'),
                request=rng.choice(['l1.G', 'G', 'default', '']), explicit=rng.random() < 0.5)



def check_parse(ctx, names):
    """applycal._parse_cal_product on every given string against the model (split at the LAST dot; no dot: ValueError)"""
    from katdal.applycal import _parse_cal_product
    outs = ctx.model([[144, [3, codes(n)]] for n in names]) if ctx.model_ok else [None] * len(names)
    for n, mo in zip(names, outs):
        want = tuple(n.rsplit('.', 1)) if '.' in n else None
        try:
            got = tuple(_parse_cal_product(n))
        except ValueError:
            got = None
        shape = 'no_dot' if '.' not in n else 'one_dot' if n.count('.') == 1 else 'several_dots'
        case = dict(kind='parse', names=[n])
        if got != want:
            ctx.disagree('kind=parse;name=%s;symptom=%s' % (shape, 'error' if (got is None) != (want is None) else 'halves'),
                         case, got, None, '<stream>.<type> is not split at its last dot', spec=want)
        if mo is not None:
            m = None if not mo else tuple(''.join(chr(c) for c in x) for x in mo)
            if m != want:
                ctx.disagree('kind=parse;name=%s;symptom=model' % shape, case, got, m, 'model of _parse_cal_product', spec=want,
                             kind='tie')
        ctx.traces_validated += 1
        ctx.note_case(('PP', n), nontrivial=n.count('.') >= 1, sample=None)
        ctx.count('parse:' + shape)


def parse_names():
    out = ['l1.G', 'l2.GPHASE', 'l1', 'cal.x.G', 'l1..G', '.G', 'l1.', '.', '..', 'sdp.cal.l1.GAMP_PHASE', '']
    for n in range(0, 5):
        out += [''.join(t) for t in itertools.product('.aG', repeat=n)]
    return sorted(set(out))


# ------------------------------------------------------------------ driver

CHECKS = {'unwrap': lambda ctx, c: check_unwrap(ctx, [Fr(p) for p in c['phases']]), 'cinterp': check_cinterp,
          'delay': check_delay, 'bandpass': check_bandpass, 'gain': check_gain, 'flux': check_flux,
          'stitch': check_stitch, 'e2e': check_end_to_end, 'select': check_select, 'products': check_products,
          'opened': check_opened, 'two_sets': check_two_sets, 'delivered': check_delivered,
          'placed': check_placed, 'presel': check_presel, 'parse': lambda ctx, c: check_parse(ctx, c['names']),
          'normalise': lambda ctx, c: check_normalise(ctx, c['request'] if isinstance(c['request'], str)
                                                      else list(c['request']), c['streams'])}


def run_case(ctx, case):
    CHECKS[case['kind']](ctx, case)


def run(ctx):
    import time
    rng = ctx.rng
    if not ctx.model_ok:
        return
    stage = {}

    def timed(name, fn):
        t = time.time()
        fn()
        stage[name] = round(time.time() - t, 1)

    def many(n, check, gen):
        for _ in range(n):
            check(ctx, gen(rng))
    timed('findings', lambda: [run_case(ctx, f['witness']) for f in ctx.findings])

    def corpus():
        import glob
        import json
        import os
        cdir = os.path.join(os.path.dirname(os.path.dirname(os.path.dirname(os.path.abspath(__file__)))), 'corpus', 'C14')
        for fn in sorted(glob.glob(os.path.join(cdir, '*.json'))):
            run_case(ctx, json.load(open(fn))['case'])
            ctx.count('corpus')
    timed('corpus', corpus)
    timed('unwrap', lambda: many(ctx.scale(150, 2000), check_unwrap, gen_unwrap))
    timed('cinterp', lambda: many(ctx.scale(300, 5000), check_cinterp, gen_cinterp))
    timed('delay', lambda: many(ctx.scale(100, 1500), check_delay, gen_delay))
    timed('bandpass', lambda: many(ctx.scale(250, 4000), check_bandpass, gen_bandpass))
    timed('gain', lambda: many(ctx.scale(400, 7000), check_gain, gen_gain))
    timed('placed', lambda: many(ctx.scale(500, 8000), check_placed, gen_placed))
    timed('presel', lambda: many(ctx.scale(30, 300), check_presel, gen_presel))
    timed('flux', lambda: many(ctx.scale(150, 2500), check_flux, gen_flux))
    timed('stitch', lambda: many(ctx.scale(150, 2500), check_stitch, gen_stitch))
    timed('e2e', lambda: many(ctx.scale(100, 1500), check_end_to_end, gen_end_to_end))
    timed('delivered', lambda: many(ctx.scale(300, 4000), check_delivered, gen_delivered))
    timed('select', lambda: many(ctx.scale(400, 6000), check_select, gen_select))
    timed('products', lambda: many(ctx.scale(400, 6000), check_products, gen_products))
    timed('opened', lambda: run_opened(ctx, rng, ctx.scale(40, 300), 6))
    timed('layouts', lambda: run_layouts(ctx, rng, ctx.scale(100, 1000), 4))
    timed('two_sets', lambda: many(ctx.scale(20, 150), check_two_sets, gen_two_sets))

    def normalise_all():
        todo = [(req, streams) for streams in STREAM_SETS for req in normalise_cases(ctx)]
        # one batched model call (a call per case costs a process start each)
        outs = ctx.model([[14, [8, wire_req(req), [codes(x) for x in streams]]] for req, streams in todo])
        for (req, streams), mo in zip(todo, outs):
            check_normalise(ctx, req, streams, mo if mo else [])
    timed('normalise', normalise_all)
    timed('parse', lambda: check_parse(ctx, parse_names()))
    ctx.extra['stage_seconds'] = stage
    ctx.extra['normalise_exhaustive_over'] = 'streams in {[], [l1], [l2], [l1,l2]} x %d request forms' % len(
        normalise_cases(ctx))


def replay(ctx, doc):
    run_case(ctx, doc['case'])
