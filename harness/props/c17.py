"""C17 — v4 time and frequency axes; preselection is equivalent to selection."""
from fractions import Fraction

import numpy as np

from fixtures import v4
from katdal.spectral_window import SpectralWindow

RULE = ('(a) v4 data sets with dyadic timing attributes, capture start one second either side of each documented fix '
        'date or far from it, both CBF generations and modes, with/without CBF attributes, time_offset, preselected '
        'dump ranges: timestamps/start/end/time_offset compared exactly with the model and the spec; '
        '(b) SpectralWindow objects N in 1..9, both sidebands: channel_freqs, every subrange(first,last) incl. invalid '
        'ones, every rechannelise(M), compared exactly; (c) preselected vs fully opened data set on the same store: '
        'timestamps, freqs, vis, flags, weights, a numeric sensor, later relative selections; (d) preselect validation. '
        'A case is non-trivial when it has >= 2 dumps/channels; distinct by its full parameter tuple.')
ASSUMPTIONS = ['float64 arithmetic is exact on the generated (dyadic) values, so comparisons are equalities',
               'katpoint.Timestamp(date).secs is UTC midnight of the date',
               'Python slice normalisation of preselect ranges is done by the harness (slice.indices)']

FIX_DATES = [1549843200, 1551571200, 1552608000]


def q(x):
    f = Fraction(x)
    return [f.numerator, f.denominator]


def fq(pair):
    return Fraction(pair[0], pair[1])


def exact(x):
    return Fraction(float(x))


def gen_timing(rng):
    kind = rng.random()
    if kind < 0.75:
        dte = rng.choice(FIX_DATES)
        start = dte + rng.choice([-1, 0, 1, -2, 2, -7, 5, -3600, 3600]) + rng.choice([0, 0, 0.25, 0.5])
    else:
        start = rng.choice([1500000000, 1549000000, 1560000000, 1600000000]) + rng.choice([0, 0.5])
    first = rng.choice([0.0, 123.0, 999.25, 10.5])
    sync = start - first
    int_time = rng.choice([0.5, 1.0, 2.0, 4.0, 8.0])
    off = rng.choice([0.0, 0.0, 0.25, -0.5, 3.0, -2.0])
    cbf = rng.choice([None, 0.25, 0.5, 0.5, 1.0])
    if cbf is not None and cbf > int_time:
        cbf = int_time
    cmc2 = rng.random() < 0.5
    cbf4k = rng.random() < 0.5
    return dict(sync=sync, first=first, int_time=int_time, off=off, cbf=cbf, cmc2=cmc2, cbf4k=cbf4k)


def wire_timing(t):
    return [q(t['sync']), q(t['first']), q(t['int_time']), q(t['off']),
            [q(t['cbf'])] if t['cbf'] is not None else [], int(t['cmc2']), int(t['cbf4k'])]


def build(t, T, F, seed, tmp=None):
    return v4.build_v4(
        T=T, F=F, seed=seed, sync_time=t['sync'], first_timestamp=t['first'], int_time=t['int_time'],
        cbf=None if t['cbf'] is None else (t['cbf'], 64, 1712e6),
        sub_pool_resources=('cbf_dev_2,sdp_1,m000,m001' if t['cmc2'] else 'cbf_1,sdp_1,m000,m001'),
        sub_product=('c856M4k' if t['cbf4k'] else 'c856M1k'),
        open_kwargs=dict(time_offset=t['off']),
        extra_sensors=[('anc_air_temperature',
                        [(t['sync'] + t['first'] - 4.0, 1.0), (t['sync'] + t['first'] + 64.0, 69.0)])])


def straddles(t, a):
    """Does the first preselected dump lie on the other side of the applicable fix date than the capture start?"""
    dte = (FIX_DATES[0] if t['cbf4k'] else FIX_DATES[1]) if t['cmc2'] else FIX_DATES[2]
    s0 = t['sync'] + t['first'] + t['off']
    sa = s0 + a * t['int_time']
    return (s0 < dte) != (sa < dte)


def check_timing(ctx, t, T, a, b):
    """Open (optionally preselected a:b) and compare with model (tie) and spec (property)."""
    x = build(t, T, 4, ctx.seed)
    try:
        pre = None if (a, b) == (0, T) else dict(dumps=slice(a, b))
        d = x.d if pre is None else v4.reopen(x, dict(preselect=pre), dict(preselect=pre, time_offset=t['off']))
        n = b - a
        impl_ts = [exact(v) for v in d.timestamps]
        impl = dict(ts=impl_ts, start=exact(d.start_time.secs), end=exact(d.end_time.secs), off=exact(d.time_offset))
    finally:
        v4.cleanup(x)
    case = dict(timing={k: (float(v) if isinstance(v, float) else v) for k, v in t.items()}, T=T, a=a, b=b)
    if ctx.model_ok:
        mo = ctx.model([[17, [1, wire_timing(t), a, n]]])[0]
        m_ts, s_ts = [fq(p) for p in mo[0]], [fq(p) for p in mo[1]]
        m_start, m_end, m_off = fq(mo[2]), fq(mo[3]), fq(mo[4])
    else:
        s_ts = spec_py(t, a, n)
        m_ts, m_start, m_end, m_off = impl_ts, impl['start'], impl['end'], impl['off']
    if impl_ts != m_ts or impl['start'] != m_start or impl['end'] != m_end or impl['off'] != m_off:
        ctx.disagree('what=timestamps_tie;preselect=%s' % (pre is not None), case,
                     [float(v) for v in impl_ts[:3]], [float(v) for v in m_ts[:3]],
                     'implementation timestamps/start/end/time_offset differ from the model', kind='tie')
    if impl_ts != s_ts:
        if pre is not None and straddles(t, a):
            sig = 'preselect;straddles_fix_date;symptom=timestamps_shifted_by_cbf_dump'
        else:
            sig = 'what=timestamps;preselect=%s;lite=%s' % (pre is not None, t['cbf'] is None)
        ctx.disagree(sig, case, [float(v) for v in impl_ts[:3]], None,
                     'timestamps differ from sync+first+i*int+offset (-1 CBF dump before the documented fix date)',
                     spec=[float(v) for v in s_ts[:3]])
    half = Fraction(t['int_time']) / 2
    if impl_ts and (impl['start'] != impl_ts[0] - half or impl['end'] != impl_ts[-1] + half):
        ctx.disagree('what=start_end_bracket', case, [float(impl['start']), float(impl['end'])], None,
                     'start/end time do not bracket the first/last dump by half a dump')
    ctx.traces_validated += 1
    ctx.note_case(('timing', repr(sorted(t.items())), T, a, b), nontrivial=n >= 2,
                  sample=dict(kind='timing', **case))
    ctx.count('timing:preselected' if pre is not None else 'timing:full')
    ctx.count('timing:lite' if t['cbf'] is None else 'timing:cbf')


def spec_py(t, a, n):
    dte = (FIX_DATES[0] if t['cbf4k'] else FIX_DATES[1]) if t['cmc2'] else FIX_DATES[2]
    s0 = Fraction(t['sync']) + Fraction(t['first']) + Fraction(t['off'])
    fix = Fraction(t['cbf']) if (t['cbf'] is not None and s0 < dte) else 0
    return [s0 + (a + i) * Fraction(t['int_time']) - fix for i in range(n)]


# ---------------------------------------------------------------------------- spectral windows

def spw_cases(ctx):
    rng = ctx.rng
    out = []
    ns = range(1, 10) if ctx.tier == 'thorough' else [1, 2, 3, 4, 5, 8, 9]
    for n in ns:
        for side in (1, -1):
            cw = rng.choice([1.0, 0.5, 4.0])
            bw = cw * 2520.0
            centre = float(rng.choice([1284.0, 0.0, 856.0 * 1024, -16.0]))
            out.append((centre, bw, n, side))
    return out


def check_spw(ctx, centre, bw, n, side):
    w = SpectralWindow(centre, bw / n, n, sideband=side, bandwidth=bw)
    wire = [q(centre), q(bw), n, side]
    cases = [[17, [2, wire]]]
    subs = [(f, l) for f in range(-1, n + 1) for l in range(-1, n + 2)]
    ms = list(range(1, 10))
    cases += [[17, [3, wire, f, l]] for f, l in subs]
    cases += [[17, [4, wire, m]] for m in ms]
    if not ctx.model_ok:
        return
    outs = ctx.model(cases)
    case = dict(centre=centre, bandwidth=bw, num_chans=n, sideband=side)
    if [exact(v) for v in w.channel_freqs] != [fq(p) for p in outs[0]]:
        ctx.disagree('what=channel_freqs', case, w.channel_freqs.tolist(), [float(fq(p)) for p in outs[0]],
                     'channel_freqs differ from centre + sideband*(k - N//2)*bandwidth/N')
    for (f, l), o in zip(subs, outs[1:1 + len(subs)]):
        try:
            s = w.subrange(f, l)
            got = [exact(v) for v in s.channel_freqs]
        except IndexError:
            got = None
        exp = [fq(p) for p in o[1]] if o else None
        want = [exact(v) for v in w.channel_freqs[f:l]] if (0 <= f < l <= n) else None   # the property itself
        if got != exp or got != want:
            ctx.disagree('what=subrange', dict(case, first=f, last=l), None if got is None else [float(v) for v in got],
                         None if exp is None else [float(v) for v in exp],
                         'subrange(first,last) channel centres differ from channels first..last of the original '
                         '(or an invalid range was accepted / a valid one rejected)',
                         spec=None if want is None else [float(v) for v in want])
        ctx.note_case(('subrange', centre, bw, n, side, f, l), nontrivial=(0 <= f < l <= n))
    for m, o in zip(ms, outs[1 + len(subs):]):
        r = w.rechannelise(m)
        got = [exact(v) for v in r.channel_freqs]
        cwr = Fraction(r.bandwidth) / r.num_chans
        lo = got[0] - r.sideband * cwr / 2
        hi = got[-1] + r.sideband * cwr / 2
        cw0 = Fraction(bw) / n
        f0 = [exact(v) for v in w.channel_freqs]
        lo0 = f0[0] - side * cw0 / 2
        hi0 = f0[-1] + side * cw0 / 2
        if got != [fq(p) for p in o[1]]:
            ctx.disagree('what=rechannelise_tie', dict(case, m=m), [float(v) for v in got],
                         [float(fq(p)) for p in o[1]], 'rechannelise differs from model', kind='tie')
        if (lo, hi) != (lo0, hi0) or r.num_chans != m:
            ctx.disagree('what=rechannelise_edges', dict(case, m=m), [float(lo), float(hi)], [float(lo0), float(hi0)],
                         'rechannelise moved a band edge')
        ctx.note_case(('rechan', centre, bw, n, side, m), nontrivial=m != n)
    ctx.note_case(('spw', centre, bw, n, side), sample=dict(kind='spw', **case))
    ctx.count('spw')


# ---------------------------------------------------------------------------- preselect == select

def check_preselect_equiv(ctx, t, T, F, a, b, c, d_):
    x = build(t, T, F, ctx.seed + 7)
    case = dict(timing={k: (float(v) if isinstance(v, float) else v) for k, v in t.items()}, T=T, F=F, dumps=[a, b], channels=[c, d_])
    try:
        full = x.d
        pre = dict(dumps=slice(a, b), channels=slice(c, d_))
        dp = v4.reopen(x, dict(preselect=pre), dict(preselect=pre, time_offset=t['off']))
        full.select(dumps=slice(a, b), channels=slice(c, d_))
        names = ['timestamps', 'freqs', 'vis', 'flags', 'weights', 'sensor', 'shape']

        def obs(ds):
            return dict(timestamps=np.asarray(ds.timestamps), freqs=np.asarray(ds.freqs), vis=ds.vis[:],
                        flags=ds.flags[:], weights=ds.weights[:], sensor=np.asarray(ds.sensor['anc_air_temperature']),
                        shape=np.asarray(ds.shape))
        o1, o2 = obs(dp), obs(full)
        for nm in names:
            if not np.array_equal(o1[nm], o2[nm]):
                if nm in ('timestamps', 'sensor') and straddles(t, a):
                    sig = 'preselect;straddles_fix_date;symptom=timestamps_shifted_by_cbf_dump'
                else:
                    sig = 'what=preselect_equiv;observable=%s' % nm
                ctx.disagree(sig, case, np.asarray(o1[nm]).ravel()[:4].tolist(), None,
                             'preselected data set differs from select() on the whole data set in ' + nm,
                             spec=np.asarray(o2[nm]).ravel()[:4].tolist())
        # later selections are relative to the preselected subset
        if b - a >= 2 and d_ - c >= 2:
            x0 = ctx.rng.randint(0, b - a - 1)
            x1 = ctx.rng.randint(x0 + 1, b - a)
            y0 = ctx.rng.randint(0, d_ - c - 1)
            y1 = ctx.rng.randint(y0 + 1, d_ - c)
            dp.select(dumps=slice(x0, x1), channels=slice(y0, y1))
            full.select(dumps=slice(a + x0, a + x1), channels=slice(c + y0, c + y1))
            o1, o2 = obs(dp), obs(full)
            for nm in names:
                if not np.array_equal(o1[nm], o2[nm]) and not (nm in ('timestamps', 'sensor') and straddles(t, a)):
                    ctx.disagree('what=preselect_relative_select;observable=%s' % nm, dict(case, sub=[x0, x1, y0, y1]),
                                 np.asarray(o1[nm]).ravel()[:4].tolist(), None,
                                 'selection on a preselected data set is not relative to the subset: ' + nm,
                                 spec=np.asarray(o2[nm]).ravel()[:4].tolist())
    finally:
        v4.cleanup(x)
    ctx.traces_validated += 1
    ctx.note_case(('pre', repr(sorted(t.items())), T, F, a, b, c, d_), nontrivial=(b - a >= 2 and d_ - c >= 2),
                  sample=dict(kind='preselect_equiv', **case))
    ctx.count('preselect_equiv')


def check_preselect_validation(ctx):
    x = build(gen_timing(ctx.rng), 4, 4, ctx.seed)
    forms = [dict(dumps=slice(0, 2)), dict(channels=slice(1, 3)), dict(dumps=slice(0, 4, 1)), dict(dumps=slice(0, 4, 2)),
             dict(channels=slice(None, None, -1)), dict(ants='m000'), dict(dumps=slice(0, 2), corrprods='auto'),
             dict(dumps=slice(None), channels=slice(None, 2, None)), dict(targets=0), dict(dumps=slice(1, 3, 3))]
    try:
        for pre in forms:
            keys = [[ord(ch) for ch in k] for k in pre]
            steps = [([v.step] if (isinstance(v, slice) and v.step is not None) else ([] if isinstance(v, slice) else [99]))
                     for v in pre.values()]
            mo = ctx.model([[17, [5, keys, steps]]])[0] if ctx.model_ok else None
            try:
                v4.reopen(x, dict(preselect=pre), dict(preselect=pre))
                ok = 1
            except (IndexError, TypeError, ValueError, AssertionError):
                ok = 0
            want = int(set(pre) <= {'dumps', 'channels'} and all(isinstance(v, slice) and v.step in (None, 1) for v in pre.values()))
            if ok != want or (mo is not None and mo != want):
                ctx.disagree('what=preselect_validation', dict(preselect=repr(pre)), ok, mo,
                             'preselect accepted/rejected contrary to the rule (only unit-step dumps/channels slices)',
                             spec=want)
            ctx.note_case(('preval', repr(pre)), sample=None)
            ctx.count('preselect_validation')
    finally:
        v4.cleanup(x)


def run(ctx):
    rng = ctx.rng
    # known-finding witnesses first
    for f in ctx.findings:
        w = f['witness']
        check_timing(ctx, w['timing'], w['T'], w['a'], w['b'])
    for _ in range(ctx.scale(150, 1500)):
        t = gen_timing(rng)
        T = rng.randint(1, 6)
        if rng.random() < 0.5:
            a, b = 0, T
        else:
            a = rng.randint(0, T - 1)
            b = rng.randint(a + 1, T)
        check_timing(ctx, t, T, a, b)
    for (centre, bw, n, side) in spw_cases(ctx):
        check_spw(ctx, centre, bw, n, side)
    for _ in range(ctx.scale(60, 600)):
        t = gen_timing(rng)
        T, F = rng.randint(2, 8), rng.choice([4, 8])
        a = rng.randint(0, T - 1)
        b = rng.randint(a + 1, T)
        c = rng.randint(0, F - 1)
        d_ = rng.randint(c + 1, F)
        check_preselect_equiv(ctx, t, T, F, a, b, c, d_)
    check_preselect_validation(ctx)
    v4.cleanup_all() if False else None


def replay(ctx, doc):
    case = doc['case']
    if 'dumps' in case:
        check_preselect_equiv(ctx, case['timing'], case['T'], case['F'], case['dumps'][0], case['dumps'][1],
                              case['channels'][0], case['channels'][1])
    elif 'timing' in case:
        check_timing(ctx, case['timing'], case['T'], case['a'], case['b'])
    elif 'num_chans' in case:
        check_spw(ctx, case['centre'], case['bandwidth'], case['num_chans'], case['sideband'])
