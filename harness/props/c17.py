"""C17 — v4 time and frequency axes; preselection is equivalent to selection."""
import os
from fractions import Fraction

import numpy as np
from katsdptelstate.rdb_writer import RDBWriter

import katdal
import katpoint
from fixtures import v4
from katdal.spectral_window import SpectralWindow
from props import c17_ext as ext
from props import c17_y as third

RULE = ('(a) v4 data sets with dyadic timing attributes: capture start (incl. time_offset) exactly on, one second / a '
        'quarter second / an hour / whole days either side of each documented fix date or far from it, both CBF '
        'generations and modes, with/without CBF attributes, time_offset, preselected dump ranges given as normalised or '
        'un-normalised slices (None, negative, overshooting ends), opened directly, through katdal.open on an RDB file or '
        'metadata-only (no chunk store): '
        'timestamps/start/end/time_offset compared exactly with the model and the spec; '
        '(b) SpectralWindow objects N in 1..9, both sidebands: channel_freqs and attributes, every subrange(first,last) '
        'incl. invalid ones, every rechannelise(M) incl. the aligned channel edges, compared exactly; '
        '(c) preselected vs fully opened data set on the same store (dumps only / channels only / both, odd and even '
        'channel counts): timestamps, freqs, channel_width, vis, flags, weights, a numeric sensor, start/end, later '
        'relative selections; freqs of both also against centre + (k - N//2) * bandwidth / N of the telstate attributes; '
        '(d) preselect validation with and without a chunk store: fixed forms, every select keyword and near misses alone '
        'and next to a valid key, reversed ranges, random key/step forms, each through the open paths direct / metadata-only / '
        'katdal.open(file) / katdal.open([file]) / explicit timestamps / another format (accept or WHICH error vs model and rule); '
        '(e) katpoint reads the fix dates as UTC midnight; (g) slice.indices model on the full grid n <= 6, bounds -n-2..n+2 / None; '
        '(h) the whole open on stores whose n_chans attribute may differ from the stored channel count (channel-count '
        'fallback), valid / empty / un-normalised ranges: verdict, dumps, timestamps, window, chunk-store index, shape; '
        '(i) whole vs preselected data set on stores drawn as in C06 (independent chunkings, deleted chunk files, flags from a '
        'flag stream longer / shorter than L0): timestamps, freqs, vis, weights, raw and boolean flags vs select(), vs the cut of '
        'the whole arrays and vs the chunk-store model; (j) explicit (irregular) timestamps handed to the data source; '
        '(l) RDBs with a complete, absent or partially stripped CBF attribute chain (each link missing / empty in turn), mostly '
        'before a fix date: cbf_dump_period and timestamps; '
        '(k) SpectralWindow constructor variants (positional / keyword / mixed, defaults), product / band / sideband through '
        'random histories of sub-ranges and re-channelisations, laws on exact numbers, names of the v4 window. '
        'A case is non-trivial when it has >= 2 dumps/channels; distinct by its full parameter tuple.')
ASSUMPTIONS = ['float64 arithmetic is exact on the generated (dyadic) values, so comparisons are equalities',
               'slice.indices / numpy / dask slicing with unit step is Python\'s: modelled by py_indices (hand-written) and '
               'compared with Python on a complete grid of small values',
               'a data set without any dump or channel cannot be constructed: empty preselections are rejections',
               'histories of window operations are compared as long as every intermediate value is dyadic']

FIX_DATES = [1549843200, 1551571200, 1552608000]
DAY = 86400


def q(x):
    f = Fraction(x)
    return [f.numerator, f.denominator]


def fq(pair):
    return Fraction(pair[0], pair[1])


def exact(x):
    return Fraction(float(x))


def gen_timing(rng):
    kind = rng.random()
    off = rng.choice([0.0, 0.0, 0.25, -0.5, 3.0, -2.0, 86400.0, -86400.0])
    if kind < 0.12:
        # the capture start INCLUDING time_offset is exactly a fix date (the first capture that is NOT corrected)
        start = rng.choice(FIX_DATES) - off
    elif kind < 0.6:
        # the capture start INCLUDING time_offset sits at / next to a fix date
        dte = rng.choice(FIX_DATES)
        start = dte + rng.choice([-1, 0, 1, -2, 2, -7, 5, -3600, 3600, 0, -0.25, 0.25]) + rng.choice([0, 0, 0.25, 0.5]) - off
    elif kind < 0.7:
        # the capture start EXCLUDING time_offset sits at / next to a fix date
        start = rng.choice(FIX_DATES) + rng.choice([-1, 0, 1, -0.25])
    elif kind < 0.9:
        # whole days around the dates (a date moved by days or weeks in the rule is then seen)
        start = rng.choice(FIX_DATES) + DAY * rng.randint(-45, 45) + rng.choice([0, 0.5, -0.5])
    else:
        start = rng.choice([1500000000, 1549000000, 1560000000, 1600000000]) + rng.choice([0, 0.5])
    first = rng.choice([0.0, 123.0, 999.25, 10.5])
    sync = start - first
    int_time = rng.choice([0.5, 1.0, 2.0, 4.0, 8.0, 0.75, 1.5, 2.5])
    cbf = rng.choice([None, 0.25, 0.5, 0.5, 1.0, 0.125])
    if cbf is not None and cbf > int_time:
        cbf = int_time
    cmc2 = rng.random() < 0.5
    cbf4k = rng.random() < 0.5
    return dict(sync=sync, first=first, int_time=int_time, off=off, cbf=cbf, cmc2=cmc2, cbf4k=cbf4k)


def gen_slice(rng, n):
    """(start, stop) of a unit-step slice over n items: plain, open-ended, negative or overshooting."""
    k = rng.random()
    a = rng.randint(0, n - 1)
    b = rng.randint(a + 1, n)
    if k < 0.4:
        return (a, b)
    start = rng.choice([a, a, a - n, None if a == 0 else a])
    stop = rng.choice([b, b, None if b == n else b, b - n if b < n else n + rng.randint(0, 3), b])
    if rng.random() < 0.06:
        start, stop = b, a       # empty
    return (start, stop)


def wire_timing(t):
    return [q(t['sync']), q(t['first']), q(t['int_time']), q(t['off']),
            [q(t['cbf'])] if t['cbf'] is not None else [], int(t['cmc2']), int(t['cbf4k'])]


def build(t, T, F, seed, cw=None, centre=None):
    kw = {}
    if cw is not None:
        kw = dict(bandwidth=F * cw, center_freq=centre)
    return v4.build_v4(
        T=T, F=F, seed=seed, sync_time=t['sync'], first_timestamp=t['first'], int_time=t['int_time'],
        cbf=None if t['cbf'] is None else (t['cbf'], 64, 1712e6),
        sub_pool_resources=('cbf_dev_2,sdp_1,m000,m001' if t['cmc2'] else 'cbf_1,sdp_1,m000,m001'),
        sub_product=('c856M4k' if t['cbf4k'] else 'c856M1k'),
        open_kwargs=dict(time_offset=t['off']),
        # a ramp of 1 unit / s that covers every dump of the capture wherever time_offset and the CBF fix move it
        extra_sensors=[('anc_air_temperature',
                        [(t['sync'] + t['first'] + t['off'] - 4.0, 1.0), (t['sync'] + t['first'] + t['off'] + 68.0, 73.0)])],
        **kw)


def write_rdb(x):
    """The telstate of x as <store>/<cbid>/<cbid>_<stream>.rdb, so that katdal.open finds the adjacent npy store."""
    d = os.path.join(x.tmp, x.cbid)
    os.makedirs(d, exist_ok=True)
    p = os.path.join(d, '%s_%s.rdb' % (x.cbid, x.stream))
    if not os.path.exists(p):
        with RDBWriter(p) as w:
            w.save(x.telstate)
    return p + '?capture_block_id=%s&stream_name=%s' % (x.cbid, x.stream)


def open_pre(x, t, pre, via):
    """A second data set on the same store, preselected.  via: 'direct' (TelstateDataSource + VisibilityDataV4) or
    'open' (katdal.open of an RDB file) or 'meta' (no chunk store)."""
    if via == 'open':
        kw = dict(time_offset=t['off'])
        if pre is not None:
            kw['preselect'] = pre
        return katdal.open(write_rdb(x), **kw)
    if via == 'meta':
        # metadata-only data set (no chunk store): the validation in TelstateDataSource is the only line of defence
        from katdal.datasources import TelstateDataSource
        from katdal.visdatav4 import VisibilityDataV4
        kw = {} if pre is None else dict(preselect=pre)
        src = TelstateDataSource(x.view, x.cbid, x.stream, chunk_store=None, **kw)
        return VisibilityDataV4(src, time_offset=t['off'], **kw)
    if pre is None:
        return v4.reopen(x, {}, dict(time_offset=t['off']))
    return v4.reopen(x, dict(preselect=pre), dict(preselect=pre, time_offset=t['off']))


def fix_date_of(t):
    return (FIX_DATES[0] if t['cbf4k'] else FIX_DATES[1]) if t['cmc2'] else FIX_DATES[2]


def straddles(t, a):
    """Does the first preselected dump lie on the other side of the applicable fix date than the capture start?"""
    dte = fix_date_of(t)
    s0 = t['sync'] + t['first'] + t['off']
    sa = s0 + a * t['int_time']
    return (s0 < dte) != (sa < dte)


def spec_py(t, a, n):
    dte = fix_date_of(t)
    s0 = Fraction(t['sync']) + Fraction(t['first']) + Fraction(t['off'])
    fix = Fraction(t['cbf']) if (t['cbf'] is not None and s0 < dte) else 0
    return [s0 + (a + i) * Fraction(t['int_time']) - fix for i in range(n)]


def where(t):
    """Position of the capture start (incl. time_offset) relative to the applicable fix date, for signatures."""
    s0 = Fraction(t['sync']) + Fraction(t['first']) + Fraction(t['off'])
    dte = fix_date_of(t)
    return 'on' if s0 == dte else ('before' if s0 < dte else 'after')


def timing_case(t):
    return {k: (float(v) if isinstance(v, float) else v) for k, v in t.items()}


def check_timing(ctx, t, T, a=None, b=None, via='direct', sl=None):
    """Open (optionally preselected) and compare with model (tie) and spec (property).
    sl = (start, stop) as given to preselect; default the normalised (a, b); (0, T) with sl None = no preselect."""
    if sl is None:
        sl = (a, b)
    a, b, _ = slice(sl[0], sl[1]).indices(T)
    x = build(t, T, 4, ctx.seed)
    case = dict(timing=timing_case(t), T=T, a=a, b=b, via=via, sl=list(sl))
    pre = None if tuple(sl) == (0, T) else dict(dumps=slice(sl[0], sl[1]))
    n = max(b - a, 0)
    try:
        d = x.d if (pre is None and via == 'direct') else open_pre(x, t, pre, via)
        impl_ts = [exact(v) for v in d.timestamps]
        impl = dict(ts=impl_ts, start=exact(d.start_time.secs), end=exact(d.end_time.secs), off=exact(d.time_offset),
                    dump_period=exact(d.dump_period))
    except Exception as e:
        if b <= a and isinstance(e, (IndexError, ValueError)):
            # an empty preselection is outside the domain: rejecting it is fine
            ctx.note_case(('timing-empty', repr(sorted(t.items())), T, tuple(sl), via), nontrivial=False)
            ctx.count('timing:empty_rejected')
            return
        ctx.disagree('what=exception;stream=timing;via=%s;exc=%s' % (via, type(e).__name__), case, repr(e)[:300], None,
                     'opening the data set raised on an in-domain input')
        return
    finally:
        v4.cleanup(x)
    if ctx.model_ok:
        mo = ctx.model([[17, [1, wire_timing(t), a, n]]])[0]
        m_ts, s_ts = [fq(p) for p in mo[0]], [fq(p) for p in mo[1]]
        m_start, m_end, m_off = fq(mo[2]), fq(mo[3]), fq(mo[4])
    else:
        s_ts = spec_py(t, a, n)
        m_ts, m_start, m_end, m_off = impl_ts, impl['start'], impl['end'], impl['off']
    if impl_ts != m_ts or impl['start'] != m_start or impl['end'] != m_end or impl['off'] != m_off:
        ctx.disagree('what=timestamps_tie;preselect=%s;via=%s' % (pre is not None, via), case,
                     [float(v) for v in impl_ts[:3]] + [float(impl['start']), float(impl['end']), float(impl['off'])],
                     [float(v) for v in m_ts[:3]] + [float(m_start), float(m_end), float(m_off)],
                     'implementation timestamps/start/end/time_offset differ from the model', kind='tie')
    if impl_ts != s_ts:
        if pre is not None and straddles(t, a):
            sig = 'preselect;straddles_fix_date;symptom=timestamps_shifted_by_cbf_dump'
        else:
            sig = 'what=timestamps;preselect=%s;lite=%s;start=%s;via=%s' % (pre is not None, t['cbf'] is None, where(t), via)
        ctx.disagree(sig, case, [float(v) for v in impl_ts[:3]], None,
                     'timestamps differ from sync+first+i*int+offset (-1 CBF dump before the documented fix date)',
                     spec=[float(v) for v in s_ts[:3]])
    half = Fraction(t['int_time']) / 2
    if impl_ts and (impl['start'] != impl_ts[0] - half or impl['end'] != impl_ts[-1] + half):
        ctx.disagree('what=start_end_bracket', case, [float(impl['start']), float(impl['end'])], None,
                     'start/end time do not bracket the first/last dump by half a dump',
                     spec=[float(impl_ts[0] - half), float(impl_ts[-1] + half)])
    if impl['dump_period'] != Fraction(t['int_time']):
        ctx.disagree('what=dump_period', case, float(impl['dump_period']), None, 'dump_period is not int_time',
                     spec=t['int_time'])
    ctx.traces_validated += 1
    ctx.note_case(('timing', repr(sorted(t.items())), T, tuple(sl), via), nontrivial=n >= 2,
                  sample=dict(kind='timing', **case))
    ctx.count('timing:preselected' if pre is not None else 'timing:full')
    ctx.count('timing:lite' if t['cbf'] is None else 'timing:cbf')
    ctx.count('timing:start_' + where(t))
    ctx.count('timing:via_' + via)
    if pre is not None and tuple(sl) != (a, b):
        ctx.count('timing:unnormalised_slice')


def check_fix_date_reading(ctx):
    """The dates of the rule, read as the source reads them (calendar.timegm(time.strptime(date, '%Y-%m-%d'))), are UTC
    midnight of the date in every process time zone."""
    import calendar
    import time
    try:
        from vh import core
        from vh.items import c17 as items
        dates = items.fix_date_strings(core.REPO)
    except Exception:
        dates = []
    for z in [z for z in third.ZONES if third.zone_ok(z)]:
        for (s, secs) in dates + [('2019-02-11', FIX_DATES[0]), ('2019-03-03', FIX_DATES[1]), ('2019-03-15', FIX_DATES[2])]:
            with third.Zone(z):
                got = calendar.timegm(time.strptime(s, '%Y-%m-%d'))
            if got != secs:
                ctx.disagree('what=fix_date_reading', dict(date=s, zone=z), got, None,
                             'the date of the rule is not read as UTC midnight in zone ' + z, spec=secs)
            ctx.note_case(('date', s, z), sample=None)
            ctx.count('fix_date_reading')


# ---------------------------------------------------------------------------- spectral windows

def spw_cases(ctx):
    rng = ctx.rng
    out = []
    for n in range(1, 10):
        for side in (1, -1):
            cw = rng.choice([1.0, 0.5, 4.0])
            bw = cw * 2520.0
            centre = float(rng.choice([1284.0, 0.0, 856.0 * 1024, -16.0]))
            out.append((centre, bw, n, side))
    return out


def spw_attrs(s):
    return [exact(s.centre_freq), exact(s.bandwidth), int(s.num_chans), int(s.sideband), exact(s.channel_width)]


def model_attrs(o):
    return [fq(o[0]), fq(o[1]), o[2], o[3], fq(o[4])]


def check_spw(ctx, centre, bw, n, side, via_width=False):
    if via_width:
        w = SpectralWindow(centre, bw / n, n, sideband=side)          # bandwidth derived from the channel width
    else:
        w = SpectralWindow(centre, 1.0, n, sideband=side, bandwidth=bw)   # channel width derived from the bandwidth
    wire = [q(centre), q(bw), n, side]
    cases = [[17, [2, wire]]]
    subs = [(f, l) for f in range(-1, n + 1) for l in range(-1, n + 2)]
    ms = list(range(1, 10))
    cases += [[17, [3, wire, f, l]] for f, l in subs]
    cases += [[17, [4, wire, m]] for m in ms]
    case = dict(centre=centre, bandwidth=bw, num_chans=n, sideband=side, via_width=via_width)
    f0 = [exact(v) for v in w.channel_freqs]
    cw0 = Fraction(bw) / n
    want0 = [Fraction(centre) + side * (k - n // 2) * Fraction(bw) / n for k in range(n)]    # the property itself
    if f0 != want0 or exact(w.channel_width) != cw0 or exact(w.bandwidth) != Fraction(bw):
        ctx.disagree('what=channel_freqs', case, w.channel_freqs.tolist(), None,
                     'channel_freqs / channel_width differ from centre + sideband*(k - N//2)*bandwidth/N, bandwidth/N',
                     spec=[float(v) for v in want0])
    outs = ctx.model(cases) if ctx.model_ok else None
    if outs is not None and (f0 != [fq(p) for p in outs[0][0]] or want0 != [fq(p) for p in outs[0][1]]):
        ctx.disagree('what=channel_freqs_tie', case, w.channel_freqs.tolist(), [float(fq(p)) for p in outs[0][0]],
                     'channel_freqs differ from the model', kind='tie')
    for k, (f, l) in enumerate(subs):
        try:
            s = w.subrange(f, l)
            got = [exact(v) for v in s.channel_freqs]
        except IndexError:
            s = got = None
        except Exception as e:
            ctx.disagree('what=subrange;symptom=exception:%s' % type(e).__name__, dict(case, first=f, last=l), repr(e)[:200],
                         None, 'subrange(first,last) raised something else than IndexError')
            continue
        valid = (0 <= f < l <= n)
        want = want0[f:l] if valid else None
        if got != want or (s is not None and (exact(s.channel_width) != cw0 or s.num_chans != l - f
                                              or exact(s.bandwidth) != cw0 * (l - f) or s.sideband != side)):
            ctx.disagree('what=subrange', dict(case, first=f, last=l), None if got is None else [float(v) for v in got],
                         None,
                         'subrange(first,last) channel centres / width differ from channels first..last of the original '
                         '(or an invalid range was accepted / a valid one rejected)',
                         spec=None if want is None else [float(v) for v in want])
        if outs is not None:
            o = outs[1 + k]
            exp = [fq(p) for p in o[1]] if o else None
            if got != exp or (s is not None and spw_attrs(s) != model_attrs(o[0])):
                ctx.disagree('what=subrange_tie', dict(case, first=f, last=l),
                             None if got is None else [float(v) for v in got],
                             None if exp is None else [float(v) for v in exp], 'subrange differs from the model', kind='tie')
        ctx.note_case(('subrange', centre, bw, n, side, f, l, via_width), nontrivial=valid)
        if s is not None and valid and l - f >= 2:
            # a sub-range of the sub-range, and a re-channelisation of it, still sit on the original grid
            f2 = ctx.rng.randint(0, l - f - 1)
            l2 = ctx.rng.randint(f2 + 1, l - f)
            # only channel counts whose (half) channel width is a dyadic number, so that float64 stays exact
            ok_m = [m for m in range(1, 10) if (lambda d: d & (d - 1) == 0)((cw0 * (l - f) / (2 * m)).denominator)]
            m2 = ctx.rng.choice(ok_m)
            try:
                nested = [exact(v) for v in s.subrange(f2, l2).channel_freqs]
                r2 = s.rechannelise(m2)
                g2 = [exact(v) for v in r2.channel_freqs]
                edges = (g2[0] - side * cw0 * (l - f) / m2 / 2, g2[-1] + side * cw0 * (l - f) / m2 / 2, len(g2))
            except Exception as e:
                nested, edges = repr(e), None
            if nested != want0[f + f2:f + l2] or edges != (want0[f] - side * cw0 / 2, want0[l - 1] + side * cw0 / 2, m2):
                ctx.disagree('what=subrange_nested', dict(case, first=f, last=l, first2=f2, last2=l2, m2=m2),
                             str(nested)[:200], None,
                             'a sub-range / re-channelisation of a sub-range left the channel grid of the original',
                             spec=[float(v) for v in want0[f + f2:f + l2]])
    lo0 = f0[0] - side * cw0 / 2
    hi0 = f0[-1] + side * cw0 / 2
    for k, m in enumerate(ms):
        r = w.rechannelise(m)
        got = [exact(v) for v in r.channel_freqs]
        cwr = Fraction(bw) / m
        lo = got[0] - side * cwr / 2
        hi = got[-1] + side * cwr / 2
        if outs is not None:
            o = outs[1 + len(subs) + k]
            if got != [fq(p) for p in o[1]] or spw_attrs(r) != model_attrs(o[0]):
                ctx.disagree('what=rechannelise_tie', dict(case, m=m), [float(v) for v in got],
                             [float(fq(p)) for p in o[1]], 'rechannelise differs from model', kind='tie')
        bad_grid = [(j, kk) for j in range(m) for kk in range(n)
                    if j * n == kk * m and got[j] - side * cwr / 2 != f0[kk] - side * cw0 / 2]
        if (lo, hi) != (lo0, hi0) or r.num_chans != m or len(got) != m or exact(r.channel_width) != cwr \
                or exact(r.bandwidth) != Fraction(bw) or r.sideband != side or bad_grid:
            ctx.disagree('what=rechannelise_edges', dict(case, m=m), [float(lo), float(hi)], None,
                         'rechannelise moved a band edge / a shared channel edge, or changed bandwidth, sideband or the count',
                         spec=[float(lo0), float(hi0)])
        ctx.note_case(('rechan', centre, bw, n, side, m, via_width), nontrivial=m != n)
    ctx.note_case(('spw', centre, bw, n, side, via_width), sample=dict(kind='spw', **case))
    ctx.count('spw')


# ---------------------------------------------------------------------------- preselect == select

CENTRES = [1284.0, 856.0 * 1024, 0.0, 1284e6]
NAMES = ['timestamps', 'freqs', 'channel_width', 'vis', 'flags', 'weights', 'sensor', 'shape', 'start_end']


def obs(ds):
    return dict(timestamps=np.asarray(ds.timestamps), freqs=np.asarray(ds.freqs), vis=ds.vis[:],
                channel_width=np.asarray(ds.channel_width),
                flags=ds.flags[:], weights=ds.weights[:], sensor=np.asarray(ds.sensor['anc_air_temperature']),
                shape=np.asarray(ds.shape))


def check_preselect_equiv(ctx, t, T, F, dsl, csl, via='direct', cw=1.0, centre=1284.0, sub=None):
    """dsl / csl: (start, stop) of the dumps / channels preselection, or None for 'key not given'."""
    a, b, _ = slice(*(dsl or (None, None))).indices(T)
    c, d_, _ = slice(*(csl or (None, None))).indices(F)
    x = build(t, T, F, ctx.seed + 7, cw=cw, centre=centre)
    case = dict(timing=timing_case(t), T=T, F=F, dsl=None if dsl is None else list(dsl),
                csl=None if csl is None else list(csl), via=via, cw=cw, centre=centre)
    bw = F * cw
    want_f = [Fraction(centre) + (k - F // 2) * Fraction(bw) / F for k in range(F)]   # the property itself
    pre = {}
    if dsl is not None:
        pre['dumps'] = slice(*dsl)
    if csl is not None:
        pre['channels'] = slice(*csl)
    keys = '+'.join(sorted(pre))
    empty = b <= a or d_ <= c
    if sub is None and not empty and b - a >= 2 and d_ - c >= 2:
        x0 = ctx.rng.randint(0, b - a - 1)
        x1 = ctx.rng.randint(x0 + 1, b - a)
        y0 = ctx.rng.randint(0, d_ - c - 1)
        y1 = ctx.rng.randint(y0 + 1, d_ - c)
        sub = [x0, x1, y0, y1]

    def full_obs(ds, is_pre):
        o = obs(ds)
        # start/end are attributes of the data set as opened: the preselected one must bracket ITS dumps
        o['start_end'] = np.array([ds.start_time.secs, ds.end_time.secs]) if is_pre else \
            np.array([ds.timestamps[0] - 0.5 * t['int_time'], ds.timestamps[-1] + 0.5 * t['int_time']]) \
            if len(ds.timestamps) else np.array([])
        return o
    # ---- implementation runs (any exception on an in-domain input is itself a disagreement)
    stage = 'open_full'
    try:
        full = x.d
        f_full = [exact(v) for v in full.freqs]
        cw_full = exact(full.channel_width)
        a_full = spw_attrs(full.spectral_windows[0])
        stage = 'open_preselected'
        dp = open_pre(x, t, pre, via)
        f_pre = [exact(v) for v in dp.freqs]
        cw_pre = exact(dp.channel_width)
        a_pre = spw_attrs(dp.spectral_windows[0])
        stage = 'select'
        full.select(**pre)
        o1, o2 = full_obs(dp, True), full_obs(full, False)
        r1 = r2 = None
        if sub is not None and not empty:
            stage = 'later_select'
            x0, x1, y0, y1 = sub
            dp.select(dumps=slice(x0, x1), channels=slice(y0, y1))
            full.select(dumps=slice(a + x0, a + x1), channels=slice(c + y0, c + y1))
            r1, r2 = obs(dp), obs(full)
    except Exception as e:
        if empty and stage == 'open_preselected' and isinstance(e, (IndexError, ValueError)):
            ctx.note_case(('pre-empty', repr(sorted(t.items())), T, F, dsl, csl, via), nontrivial=False)
            ctx.count('preselect_equiv:empty_rejected')
            return
        ctx.disagree('what=exception;stream=preselect_equiv;stage=%s;keys=%s;via=%s;exc=%s'
                     % (stage, keys, via, type(e).__name__), case, repr(e)[:300], None,
                     'the implementation raised on an in-domain preselection / selection')
        return
    finally:
        v4.cleanup(x)
    # ---- comparisons
    if f_full != want_f or cw_full != Fraction(cw):
        ctx.disagree('what=v4_freqs;preselect=False', case, [float(v) for v in f_full[:4]], None,
                     'freqs / channel_width of the data set differ from center_freq + (k - N//2) * bandwidth / N',
                     spec=[float(v) for v in want_f[:4]])
    if f_pre != want_f[c:d_] or cw_pre != Fraction(cw):
        ctx.disagree('what=v4_freqs;preselect=True;via=%s' % via, case, [float(v) for v in f_pre[:4]], None,
                     'freqs / channel_width of the preselected data set differ from those of channels c..d',
                     spec=[float(v) for v in want_f[c:d_][:4]])
    if ctx.model_ok and not empty:
        mo = ctx.model([[17, [6, q(centre), q(bw), F, c, d_]]])[0]
        if f_full != [fq(p) for p in mo[1]] or want_f != [fq(p) for p in mo[2]] or not mo[3] \
                or f_pre != [fq(p) for p in mo[3][1]] or a_full != model_attrs(mo[0]) or a_pre != model_attrs(mo[3][0]):
            ctx.disagree('what=v4_freqs_tie', case, [float(v) for v in f_pre[:4]],
                         [float(fq(p)) for p in (mo[3][1] if mo[3] else [])][:4],
                         'spectral window of the (preselected) data set differs from the model', kind='tie')
    for nm in NAMES:
        if not np.array_equal(o1[nm], o2[nm]):
            if nm in ('timestamps', 'sensor') and straddles(t, a):
                sig = 'preselect;straddles_fix_date;symptom=timestamps_shifted_by_cbf_dump'
            else:
                sig = 'what=preselect_equiv;observable=%s;keys=%s;via=%s' % (nm, keys, via)
            ctx.disagree(sig, case, np.asarray(o1[nm]).ravel()[:4].tolist(), None,
                         'preselected data set differs from select() on the whole data set in ' + nm,
                         spec=np.asarray(o2[nm]).ravel()[:4].tolist())
    # later selections are relative to the preselected subset
    if r1 is not None:
        for nm in NAMES:
            if nm == 'start_end':
                continue
            if not np.array_equal(r1[nm], r2[nm]) and not (nm in ('timestamps', 'sensor') and straddles(t, a)):
                ctx.disagree('what=preselect_relative_select;observable=%s' % nm, dict(case, sub=list(sub)),
                             np.asarray(r1[nm]).ravel()[:4].tolist(), None,
                             'selection on a preselected data set is not relative to the subset: ' + nm,
                             spec=np.asarray(r2[nm]).ravel()[:4].tolist())
    ctx.traces_validated += 1
    ctx.note_case(('pre', repr(sorted(t.items())), T, F, dsl, csl, via, cw, centre), nontrivial=(b - a >= 2 and d_ - c >= 2),
                  sample=dict(kind='preselect_equiv', **case))
    ctx.count('preselect_equiv')
    ctx.count('preselect_equiv:keys=' + keys)
    ctx.count('preselect_equiv:F_%s' % ('odd' if F % 2 else 'even'))
    ctx.count('preselect_equiv:via_' + via)


def check_concat(ctx, t, T1, T2, F, csl, dsl):
    """katdal.open of a LIST of RDB files: channel preselection = channel selection of the concatenated data set; a dump
    preselection is either refused or equal to the dump selection of the concatenated data set."""
    x1 = build(t, T1, F, ctx.seed + 11, cw=4.0, centre=1284.0)
    t2 = dict(t, sync=t['sync'] + 4096.0)
    x2 = None
    case = dict(concat=True, timing=timing_case(t), T1=T1, T2=T2, F=F, csl=list(csl), dsl=list(dsl))
    try:
        x2 = v4.build_v4(T=T2, F=F, seed=ctx.seed + 12, cbid='1234567990', sync_time=t2['sync'],
                         first_timestamp=t['first'], int_time=t['int_time'], bandwidth=F * 4.0, center_freq=1284.0,
                         cbf=None if t['cbf'] is None else (t['cbf'], 64, 1712e6),
                         sub_pool_resources=('cbf_dev_2,sdp_1,m000,m001' if t['cmc2'] else 'cbf_1,sdp_1,m000,m001'),
                         sub_product=('c856M4k' if t['cbf4k'] else 'c856M1k'))
        files = [write_rdb(x1), write_rdb(x2)]
        try:
            full = katdal.open(files, time_offset=t['off'])
            pre = katdal.open(files, time_offset=t['off'], preselect=dict(channels=slice(*csl)))
            full.select(channels=slice(*csl))
            o1 = dict(timestamps=np.asarray(pre.timestamps), freqs=np.asarray(pre.freqs), vis=pre.vis[:],
                      flags=pre.flags[:], weights=pre.weights[:], shape=np.asarray(pre.shape))
            o2 = dict(timestamps=np.asarray(full.timestamps), freqs=np.asarray(full.freqs), vis=full.vis[:],
                      flags=full.flags[:], weights=full.weights[:], shape=np.asarray(full.shape))
            try:
                dpre = katdal.open(files, time_offset=t['off'], preselect=dict(dumps=slice(*dsl)))
                full.select(dumps=slice(*dsl))
                dts = (np.asarray(dpre.timestamps), np.asarray(full.timestamps))
            except IndexError:
                dts = None
        except Exception as e:
            ctx.disagree('what=exception;stream=concat;exc=%s' % type(e).__name__, case, repr(e)[:300], None,
                         'opening / selecting a concatenated data set raised on an in-domain input')
            return
    finally:
        v4.cleanup(x1)
        if x2 is not None:
            v4.cleanup(x2)
    for nm in o1:
        if not np.array_equal(o1[nm], o2[nm]):
            ctx.disagree('what=concat_preselect_equiv;observable=%s' % nm, case, np.asarray(o1[nm]).ravel()[:4].tolist(),
                         None, 'channel preselection of a concatenated data set differs from selecting the channels: ' + nm,
                         spec=np.asarray(o2[nm]).ravel()[:4].tolist())
    if dts is not None and not np.array_equal(dts[0], dts[1]):
        ctx.disagree('what=concat_preselect_dumps_accepted', case, dts[0][:4].tolist(), None,
                     'a dump preselection of a concatenated data set was accepted and differs from selecting the dumps',
                     spec=dts[1][:4].tolist())
    ctx.traces_validated += 1
    ctx.note_case(('concat', repr(sorted(t.items())), T1, T2, F, tuple(csl), tuple(dsl)), sample=None)
    ctx.count('concat')


# ---------------------------------------------------------------------------- preselect validation

FORMS = [dict(dumps=slice(0, 2)), dict(channels=slice(1, 3)), dict(dumps=slice(0, 4, 1)), dict(dumps=slice(0, 4, 2)),
         dict(channels=slice(None, None, -1)), dict(ants='m000'), dict(dumps=slice(0, 2), corrprods='auto'),
         dict(dumps=slice(None), channels=slice(None, 2, None)), dict(targets=0), dict(dumps=slice(1, 3, 3)),
         dict(dumps=2), dict(channels=[0, 1]), dict(dumps=slice(0, 2, 0)), dict(Dumps=slice(0, 2)), dict(dump=slice(0, 2)),
         dict(timerange=(0, 1)), dict(scans='track'), dict(freqrange=(0, 1e9)), dict(pol='h'), dict(spw=0),
         dict(channels=slice(0, 2), dumps=slice(1, 3, -1)), dict(channels=slice(0, 4, 2), dumps=slice(1, 3)),
         dict(dumps=slice(0, 2), channels=slice(0, 2), flags='cam'), dict(channels=np.arange(2)), {},
         # reversed ranges (a negative step that would actually select something)
         dict(dumps=slice(None, None, -1)), dict(dumps=slice(3, 0, -1)), dict(channels=slice(3, 1, -1)),
         dict(dumps=slice(3, None, -1), channels=slice(0, 2)), dict(dumps=slice(0, 4, 3)), dict(channels=slice(0, 4, 3)),
         # a valid first item followed by an invalid one that would still select something
         dict(channels=slice(0, 3), dumps=slice(0, 4, 2)), dict(channels=slice(1, 3), dumps=slice(None, None, -1)),
         dict(dumps=slice(0, 4), channels=slice(0, 4, 2)), dict(dumps=slice(1, None), channels=slice(None, None, -1)),
         dict(dumps=slice(0, 3), channels=2), dict(channels=slice(0, 3), dumps=[0, 1])]
# every keyword DataSet.select understands, plus near misses: alone and next to a valid key, with a VALID slice value
KEY_POOL = ['dumps', 'channels', 'ants', 'corrprods', 'timerange', 'targets', 'target_tags', 'channel', 'scans',
            'compscans', 'inputs', 'pol', 'freqrange', 'weights', 'flags', 'reset', 'strict', 'subarray', 'spw',
            'dump', 'time', 'freqs', 'chans', 'Channels', 'DUMPS', 'channels ', 'baselines', 'index']
FORMS += [{k: slice(0, 2)} for k in KEY_POOL] + [{'dumps': slice(1, 3), k: slice(0, 2)} for k in KEY_POOL] + \
         [{k: slice(0, 2), 'channels': slice(1, 3)} for k in KEY_POOL]


def check_preselect_form(ctx, x, pre):
    keys = [[ord(ch) for ch in k] for k in pre]
    steps = [([v.step] if (isinstance(v, slice) and v.step is not None) else ([] if isinstance(v, slice) else [99]))
             for v in pre.values()]
    mo = ctx.model([[17, [5, keys, steps]]])[0] if ctx.model_ok else None
    ok = 0
    for via in ('direct', 'meta'):      # with a chunk store, and metadata only
        try:
            open_pre(x, dict(off=0.0), pre, via)
            ok = 1
        except Exception:       # any refusal will do for an invalid dictionary (the statement: not answered wrongly)
            pass
    want = int(set(pre) <= {'dumps', 'channels'} and
               all(isinstance(v, slice) and (v.step is None or (type(v.step) is int and v.step == 1)) for v in pre.values()))
    if ok != want:
        bad_key = not set(pre) <= {'dumps', 'channels'}
        ctx.disagree('what=preselect_validation;%s' % ('unknown_key' if bad_key else 'step'), dict(preselect=repr(pre)), ok, None,
                     'preselect accepted/rejected contrary to the rule (only unit-step dumps/channels slices)',
                     spec=want)
    if mo is not None and mo != ok:
        ctx.disagree('what=preselect_validation_tie', dict(preselect=repr(pre)), ok, mo,
                     'preselect validation differs from the model', kind='tie')
    ctx.note_case(('preval', repr(pre)), sample=None)
    ctx.count('preselect_validation')


def check_preselect_validation(ctx):
    rng = ctx.rng
    x = build(gen_timing(rng), 4, 4, ctx.seed)
    try:
        rdb = write_rdb(x)
        for pre in FORMS:
            check_preselect_form(ctx, x, pre)
            # every open path: all of them for a quarter of the forms, two random ones otherwise
            two_known = len(pre) >= 2 and set(pre) <= {'dumps', 'channels'}
            paths = list(ext.PATHS) if (rng.random() < 0.25 or two_known) else rng.sample(ext.PATHS, 2)
            ext.check_paths(ctx, x, rdb, pre, paths)
        ext.check_paths(ctx, x, rdb, None, ['direct', 'meta', 'open', 'list', 'given'])
        ext.check_other_format(ctx)
        for _ in range(ctx.scale(40, 400)):
            pre = {}
            for k in rng.sample(KEY_POOL + ['dumps', 'channels'] * 6, rng.randint(1, 3)):
                a = rng.randint(0, 2)
                b = rng.randint(a + 1, 4)
                step = rng.choice([None, None, 1, 1, 2, -1, -1, 3, 0, -2])
                if step is not None and step < 0:
                    a, b = b - 1, (a - 1 if a > 0 else None)      # the same items, backwards
                if rng.random() < 0.3:       # the same range, open-ended / from the end
                    a, b = rng.choice([a, a - 4, None if a == 0 else a]), rng.choice([b, None if b == 4 else b, b - 4 if b is not None and b < 4 else b])
                pre[k] = slice(a, b, step) if rng.random() < 0.9 else rng.choice([2, (0, 2), [0, 1], 'all'])
            check_preselect_form(ctx, x, pre)
            ext.check_paths(ctx, x, rdb, pre, rng.sample(ext.PATHS, 2))
    finally:
        v4.cleanup(x)


def gen_ops(rng, n):
    """A history of 0..4 operations on a window of n channels: mostly valid sub-ranges, some invalid, re-channelisations."""
    ops = []
    for _ in range(rng.randint(0, 4)):
        if rng.random() < 0.6:
            if rng.random() < 0.12 or n < 1:
                f, l = rng.choice([(-1, n), (0, n + 1), (n, n), (1, 1), (2, 1)])
                ops.append((0, f, l))
                break
            f = rng.randint(0, n - 1)
            l = rng.randint(f + 1, n)
            ops.append((0, f, l))
            n = l - f
        else:
            m = rng.choice([1, 2, 3, 4, 5, 6, 8, 9, n])
            ops.append((1, m))
            n = m
    return ops


def run_extension(ctx):
    rng = ctx.rng
    import time
    t_last = [time.time()]

    def lap(name):
        now = time.time()
        ctx.extra['seconds:' + name] = round(now - t_last[0], 1)
        t_last[0] = now
    from props import c06
    import sys
    me = sys.modules[__name__]
    ext.check_indices(ctx)
    # the whole open, incl. stores whose n_chans attribute is not the stored channel count
    for _ in range(ctx.scale(110, 1100)):
        t = gen_timing(rng)
        T, F = rng.randint(1, 6), rng.choice([2, 3, 4, 5, 6, 8])
        N = F if rng.random() < 0.55 else rng.choice([n for n in (2, 3, 4, 5, 6, 7, 8) if n != F])
        k = rng.random()
        dsl = None if k < 0.25 else gen_slice(rng, T)
        csl = None if 0.2 <= k < 0.45 else gen_slice(rng, N)
        via = rng.choice(['direct'] * 5 + ['meta'] * 2 + ['open'] * 2)
        if via != 'meta' and len(range(*slice(*(csl or (None, None))).indices(F))) == 0:
            continue            # a data set without channels in its data cannot be handled at all
        ext.check_open(ctx, me, t, T, F, N, dsl, csl, via, cw=rng.choice([1.0, 0.5, 4.0]), centre=rng.choice(CENTRES))
    lap('indices+open_model')
    # vis / flags / weights on stores with lost chunks and flag streams of another length
    for _ in range(ctx.scale(56, 600)):
        case = ext.gen_vfw_case(rng, c06)
        ext.check_vfw(ctx, c06, me, case, via='open' if rng.random() < 0.2 else 'direct')
    lap('vfw')
    # explicit timestamps
    for _ in range(ctx.scale(60, 600)):
        t = gen_timing(rng)
        T = rng.randint(1, 6)
        gaps = [0.0]
        for _k in range(T):
            gaps.append(gaps[-1] + rng.choice([0.5, 1.0, 2.0, 2.5, 8.0, 0.25]))
        sl = (0, T) if rng.random() < 0.4 else gen_slice(rng, T)
        if rng.random() < 0.35 and T >= 2:
            # the capture straddles its fix date: dump 0 just before it, dump 1 on or after it, dump 0 not preselected
            delta = rng.choice([0.25, 0.5, 1.0])
            t = dict(t, cbf=t['cbf'] or 0.5)
            t['sync'] = fix_date_of(t) - delta - t['off'] - t['first']
            gaps = [0.0] + [max(g, delta) for g in gaps[1:]]
            for k in range(1, len(gaps)):
                gaps[k] = max(gaps[k], gaps[k - 1] + 0.25)
            a = rng.randint(1, T - 1)
            sl = (a, rng.choice([None, T, rng.randint(a + 1, T)]))
            ctx.count('given:straddles_fix_date')
        ext.check_given(ctx, me, t, T, gaps, sl, with_store=rng.random() < 0.4)
    lap('given')
    # named windows
    for _ in range(ctx.scale(200, 2000)):
        call = ext.gen_call(rng)
        ext.check_spw_object(ctx, call, rng.choice(['positional', 'keyword', 'mixed']), gen_ops(rng, call['n']))
    for n in rng.sample(range(1, 10), ctx.scale(3, 9) if ctx.tier != 'thorough' else 9):
        ext.check_spw_laws(ctx, float(rng.choice([1284.0, 0.0, -16.0])), rng.choice([1.0, 0.5, 4.0]), n, rng.choice([1, -1]))
    t = gen_timing(rng)
    for sub_band, sub_product in [('l', 'c856M4k'), ('s', 'bc856M1k'), ('u', ''), ('x', 'c856M32k'), ('q', 'c856M4k')]:
        ext.check_v4_names(ctx, me, t, sub_band, sub_product)
    lap('windows')
    # where the CBF dump period comes from: complete / lite / partially stripped attribute chains, mostly before a fix date
    for drop in ext.CBF_DROPS * ctx.scale(2, 12):
        t = gen_timing(rng)
        if rng.random() < 0.7:
            t['sync'] = fix_date_of(t) - rng.choice([0.25, 1.0, 3600.0, 86400.0]) - t['off'] - t['first']
        ext.check_cbf_chain(ctx, me, t, drop)
    lap('cbf_chain')


# ---------------------------------------------------------------------------- driver

def run(ctx):
    rng = ctx.rng
    # known-finding witnesses first
    import sys
    me = sys.modules[__name__]
    for f in ctx.findings:
        w = f['witness']
        if 'tz' in w:
            third.check_tz(ctx, me, w['timing'], w['T'], tuple(w['sl']), w['tz'], w.get('via', 'direct'))
        else:
            check_timing(ctx, w['timing'], w['T'], w['a'], w['b'])
    check_fix_date_reading(ctx)
    for _ in range(ctx.scale(170, 1700)):
        t = gen_timing(rng)
        T = rng.randint(1, 6)
        via = rng.choice(['open'] * 4 + ['meta'] * 3 + ['direct'] * 13)
        if rng.random() < 0.45:
            sl = (0, T)
        else:
            sl = gen_slice(rng, T)
        check_timing(ctx, t, T, via=via, sl=sl)
    for (centre, bw, n, side) in spw_cases(ctx):
        check_spw(ctx, centre, bw, n, side, via_width=rng.random() < 0.3)
    for _ in range(ctx.scale(70, 700)):
        t = gen_timing(rng)
        T, F = rng.randint(2, 8), rng.choice([4, 8, 3, 5, 6, 7, 9, 2])
        k = rng.random()
        dsl = None if k < 0.15 else gen_slice(rng, T)
        csl = None if 0.15 <= k < 0.3 else gen_slice(rng, F)
        via = 'open' if rng.random() < 0.25 else 'direct'
        check_preselect_equiv(ctx, t, T, F, dsl, csl, via=via, cw=rng.choice([1.0, 0.5, 4.0, 208984.375]),
                              centre=rng.choice(CENTRES))
    for _ in range(ctx.scale(6, 60)):
        t = gen_timing(rng)
        T1, T2, F = rng.randint(1, 4), rng.randint(1, 4), rng.choice([3, 4, 5, 8])
        c = rng.randint(0, F - 1)
        # a dump range that is non-empty in BOTH parts (were it applied to each part on its own, it would be accepted)
        a = rng.randint(0, min(T1, T2) - 1)
        check_concat(ctx, t, T1, T2, F, (c, rng.randint(c + 1, F)), (a, rng.randint(a + 1, T1 + T2)))
    check_preselect_validation(ctx)
    run_extension(ctx)
    third.run_third(ctx, me)


def replay(ctx, doc):
    case = doc['case']
    import sys
    me = sys.modules[__name__]
    if third.replay(ctx, me, case):
        return
    if case.get('open_model'):
        ext.check_open(ctx, me, case['timing'], case['T'], case['F'], case['N'], case['dsl'], case['csl'], case['via'],
                       cw=case['cw'], centre=case['centre'])
    elif case.get('vfw'):
        from props import c06
        ext.check_vfw(ctx, c06, me, dict(case, path='v4'), via=case.get('via', 'direct'))
    elif case.get('given'):
        ext.check_given(ctx, me, case['timing'], case['T'], case['gaps'] + [0.0], case['sl'], case['store'])
    elif case.get('spw_object'):
        ext.check_spw_object(ctx, case['call'], case['style'], [tuple(o) for o in case['ops']])
    elif case.get('spw_laws'):
        ext.check_spw_laws(ctx, case['centre'], case['cw'], case['num_chans'], case['sideband'])
    elif case.get('v4_names'):
        ext.check_v4_names(ctx, me, case['timing'], case['sub_band'], case['sub_product'])
    elif 'n' in case and 'start' in case:
        ext.check_indices(ctx)
    elif case.get('other_format'):
        ext.check_other_format(ctx)
    elif case.get('cbf_chain'):
        ext.check_cbf_chain(ctx, me, case['timing'], None if case['drop'] is None else tuple(case['drop']))
    elif 'paths' in case:
        x = build(gen_timing(ctx.rng), 4, 4, ctx.seed)
        try:
            ext.check_paths(ctx, x, write_rdb(x), eval(case['preselect'], dict(slice=slice, array=np.array, np=np)),
                            [case['path']] if 'path' in case else case['paths'])
        finally:
            v4.cleanup(x)
    elif case.get('concat'):
        check_concat(ctx, case['timing'], case['T1'], case['T2'], case['F'], case['csl'], case['dsl'])
    elif 'dsl' in case or 'dumps' in case:
        if 'dumps' in case:       # replay files written before the slices became part of the case
            case = dict(case, dsl=case['dumps'], csl=case['channels'])
        check_preselect_equiv(ctx, case['timing'], case['T'], case['F'], case['dsl'], case['csl'],
                              via=case.get('via', 'direct'), cw=case.get('cw', 1.0), centre=case.get('centre', 1284.0),
                              sub=case.get('sub'))
    elif 'timing' in case:
        check_timing(ctx, case['timing'], case['T'], case['a'], case['b'], via=case.get('via', 'direct'),
                     sl=case.get('sl'))
    elif 'num_chans' in case:
        check_spw(ctx, case['centre'], case['bandwidth'], case['num_chans'], case['sideband'],
                  via_width=case.get('via_width', False))
    elif 'preselect' in case:
        x = build(gen_timing(ctx.rng), 4, 4, ctx.seed)
        try:
            check_preselect_form(ctx, x, eval(case['preselect'], dict(slice=slice, array=np.array, np=np)))
        finally:
            v4.cleanup(x)
    elif 'date' in case:
        check_fix_date_reading(ctx)
