"""C03 — scans()/compscans() partition the current selection and then restore it (correspondence + search).

Two families of cases, both through the REAL katdal code:

(a) iterators: DataSet.scans() / DataSet.compscans() (and scans() nested inside compscans(), compscans() nested
    inside scans()) run to exhaustion after a random prior history of select() calls (incl. criteria stacked on an
    already used keyword with reset='') on the harness DataSet subclass of C02 and on the four real format classes;
    compared with the extracted Coq model `iterate` (tie: yielded index / state-or-label / target, the three
    masks, the _selection keys and the weights/flags selection at every yield and at the end) and with the extracted
    spec (property: increasing indices = those present in the selection, dump set of each item = prior selection
    restricted to the item, name and target of those dumps, frequency / corrprod masks untouched, final
    selection = prior selection).
(b) segmentation: synthetic v4 / v3 / v2 / v1 data sets written from generated activity, label and target event
    lists (events before / inside / on the edge of dumps, first-dump slew, labels set mid-scan, empty labels,
    repeated targets, initial stop, 'Nothing, special'); the categorical sensors Observation/scan_state, scan_index,
    label, compscan_index, target_index of the opened data set are compared event by event and dump by dump with
    the model pipeline `segment` (tie), and checked against "every dump has exactly one scan, compscan and target
    index, scans and compscans numbered consecutively from zero in time order" (property).
(c) concatenation: 2-3 in-memory v4 data sets with different start times, some carrying their own prior selection,
    handed in random order to ConcatenatedDataSet; the run-on scan_index / compscan_index sensors of the parts, the
    concatenated sensors and their per-dump values are compared with the model `run_on` / `concat_index` (tie) and
    with the statement (property: numbered consecutively from zero in time order over the whole concatenation,
    no index shared by two physical scans, state / label / target of every dump those of its part); then the
    iterators of (a) with prior histories on the whole, the model and the spec being given the structure the
    statement demands (computed from the parts as opened), not the one read back from the concatenation.
"""
import logging
import os
import random
import shutil
import warnings

import numpy as np

from props import c02

RULE = ('(a) random observations of C02 (3-16 dumps) x prior histories of 0-5 select() calls over all criterion kinds, '
        '40% of the later calls stacked with reset=\'\' (so that same-keyword stacking occurs) x iterator in {scans, '
        'compscans, scans inside compscans, compscans inside scans}, run to exhaustion; a case is one (observation, '
        'history, iterator); non-trivial when the prior selection keeps at least two items of the iterated kind and '
        'is not everything; distinct by (observation seed, history index, iterator). (b) generated activity / label / '
        'target event lists (2-7 activity events, 0-4 labels, 1-4 target events at fractional dump positions: '
        'before, inside, on the edge of a dump) written as synthetic MVF v4 (telstate + chunk store), HDF5 v3, v2 '
        'and v1 files and opened through the real format classes; a case is one file; non-trivial when it has at '
        'least two scans; plus the iterators of (a) on every such data set. (c) 2-3 such v4 data sets with different '
        'start times (back to back or with gaps), 65% of them carrying their own prior selection of 1-2 select() '
        'calls (biased towards scans / compscans / dumps / targets / timerange criteria) when they are handed, in '
        'random order, to katdal.concatdata.ConcatenatedDataSet; a case is one concatenation (structure: run-on '
        'index sensors, numbering, one scan / compscan / target per dump) or one (concatenation, prior history on '
        'the whole, iterator); non-trivial when the concatenation has at least three scans and a part carried a '
        'selection. (d) random observations of C02 x prior histories of 0-3 calls x generator x loop body of 0-2 generated '
        'select() calls (class fb: frequency / corrprod / weights / flags keywords with reset in {\'\', auto, F, B, FB}; class '
        'time: one time keyword with reset=\'\'; class none) x break point (never, or item 0 / 1 / 2 / 5 / 7, then generator '
        'closed / deleted / kept alive), also once per real data set of (b); non-trivial when at least two items are selected and '
        'the body selects or the loop is left early. (e) 2-3 synthetic v3 (or v2) files with different start times opened with '
        'katdal.open([...]) in shuffled order; structure clauses of (c) + 2 iterator cases each.')
ASSUMPTIONS = ['single spectral window / subarray; names cross the wire as integer ids (as in C02)',
               'early exit from the generator (break / close / garbage collection): the docstring promises the restore only on '
               'exhaustion; what is left is the selection of the current item (C03_abandoned) - checked as such',
               'a loop body that calls select() is in the domain only if it adds no time criterion (C03_selecting_body); bodies '
               'adding a time criterion are compared with the model only (tie), their leak is not reported',
               'the categorical sensors handed to the segmentation pipeline are the ones produced by the real '
               'sensor_to_categorical (C10) on the written events; the pipeline after that point is modelled',
               'concatenations: the parts are data sets of one format class with one dump period on a common dump grid, '
               'non-overlapping in time, and targets are identified by name (katpoint catalogue merging is not modelled)']

STATES, LABELS = c02.STATES, c02.LABELS
WHICH = {'scans': 0, 'compscans': 1}
MODES = [('scans', None), ('compscans', None), ('compscans', 'scans'), ('scans', 'compscans')]


# ---------------------------------------------------------------------------------------------------------------
# wire helpers

def cd_wire(c, ids):
    return [[ids(v) for v in c.unique_values], [int(i) for i in c.indices], [int(e) for e in c.events]]


def state_id(v):
    return STATES.index(str(v))


def label_id(v):
    return LABELS.index(str(v))


def obs_cds(d):
    return (cd_wire(d.sensor.get('Observation/scan_state'), state_id),
            cd_wire(d.sensor.get('Observation/label'), label_id))


def stack_history(rng, ob, n):
    """n calls of C02's generator; later calls are turned into stacking calls (reset='') with probability 0.4 and
    then re-use a keyword of an earlier call with probability 0.5 (same-keyword stacking, the shape of F4)."""
    hist = []
    used = []
    for i in range(n):
        call = c02.gen_call(rng, ob)
        if i > 0 and rng.random() < 0.4:
            call = [c for c in call if c[0] != 'reset']
            if used and rng.random() < 0.5:
                k = rng.choice(used)
                call = [c for c in call if c[0] != k]
                v, w, f = c02.gen_criterion(rng, ob, k)
                call.append((k, v, w, f))
            call.append(('reset', '', [10, []], 'reset'))
        for c in call:
            if c[0] in c02.TIME + c02.FREQ + c02.CORR and c[0] not in used:
                used.append(c[0])
        hist.append(call)
    return hist


def observe_state(ob, d):
    return dict(tk=[int(x) for x in d._time_keep], fk=[int(x) for x in d._freq_keep], bk=[int(x) for x in d._corrprod_keep],
                keys=list(d._selection.keys()), dumps=[int(x) for x in d.dumps], channels=[int(x) for x in d.channels],
                cps=[(str(a), str(b)) for a, b in d.corr_products], shape=tuple(int(x) for x in d.shape),
                scans=[int(x) for x in d.scan_indices], compscans=[int(x) for x in d.compscan_indices],
                targets=[int(x) for x in d.target_indices],
                nts=len(d.timestamps), wk=d._weights_keep if ob.compare_wf else None,
                flk=d._flags_keep if ob.compare_wf else None)


def target_index(d, t):
    for i, x in enumerate(d.catalogue.targets):
        if x is t:
            return i
    return -7


def run_iter_impl(ob, d, outer, inner):
    """Runs the real generators to exhaustion; returns (list of yields, final state)."""
    ys = []
    name_id = {'scans': state_id, 'compscans': label_id}
    for idx, name, tgt in getattr(d, outer)():
        y = dict(index=int(idx), name=name_id[outer](name), target=target_index(d, tgt), st=observe_state(ob, d), inner=None)
        if inner:
            y['inner'] = []
            for idx2, name2, tgt2 in getattr(d, inner)():
                y['inner'].append(dict(index=int(idx2), name=name_id[inner](name2), target=target_index(d, tgt2),
                                       st=observe_state(ob, d), inner=None))
            y['after_inner'] = observe_state(ob, d)
        ys.append(y)
    return ys, observe_state(ob, d)


def model_state(ms):
    return dict(tk=ms[0], fk=ms[1], bk=ms[2], keys=[''.join(chr(c) for c in k) for k in ms[3]], wk=ms[4], flk=ms[5])


def sig(outer, inner, hist_cls, symptom):
    return 'iter=%s%s;history=%s;symptom=%s' % (outer, ('/' + inner) if inner else '', hist_cls, symptom)


def history_class(history, statuses):
    """none | plain | stacked-other | stacked-same (a time keyword given again with reset='' / a reset without T)"""
    seen = set()
    cls = 'none'
    for call, stt in zip(history, statuses):
        if stt != 0:
            continue
        cls = 'plain' if cls == 'none' else cls
        keys = [k for (k, v, w, f) in call if k in c02.TIME]
        reset = [v for (k, v, w, f) in call if k == 'reset']
        cleared = (not call) or (not reset and keys) or (reset and ('T' in reset[0] or (reset[0] == 'auto' and keys)))
        if cleared:
            seen = set()
        elif keys:
            cls = 'stacked-same' if (seen & set(keys)) or cls == 'stacked-same' else 'stacked-other'
        seen |= set(keys)
    return cls


def compare_state(ctx, ob, got, ms, what, sg, case, kind='tie'):
    """implementation state vs model state (masks, _selection key SET, weights/flags)"""
    m = model_state(ms)
    bad = [k for k in ('tk', 'fk', 'bk') if got[k] != m[k]]
    if sorted(got['keys']) != sorted(m['keys']):
        bad.append('keys')
    if ob.compare_wf:
        for nm, val, mid in (('wk', got['wk'], m['wk']), ('flk', got['flk'], m['flk'])):
            exp_id = 0 if (isinstance(val, str) and val == 'all' and mid == 0) else ob.weight_ids.get(repr(val), -5)
            if exp_id != mid:
                bad.append(nm)
    if bad:
        ctx.disagree(sg + ':' + what + ':' + ','.join(bad), case, {k: got[k] for k in bad if k in got},
                     {k: m[k] for k in bad if k in m}, 'state %s differs from the model' % what, kind=kind)
        return False
    return True


def check_public(ctx, ob, got, tk, fk, bk, what, sg, case):
    """public observables implied by three masks"""
    exp = c02.expected_from_masks(ob, tk, fk, bk)
    # scan_indices / compscan_indices / target_indices: sorted, duplicate-free, exactly the indices of the dumps kept
    bad = [k for k in ('dumps', 'channels', 'cps', 'shape', 'nts', 'scans', 'compscans', 'targets') if got[k] != exp[k]]
    if bad:
        ctx.disagree(sg + ':' + what + ':' + ','.join(bad), case, {k: got[k] for k in bad}, {k: exp[k] for k in bad},
                     'selection %s differs from the statement' % what)
        return False
    return True


def compare_items(ctx, ob, impl_ys, model_ys, spec_items, before, outer, inner, hcls, case, level=0, prefix=''):
    """one level of yields: tie (vs model) and property (vs spec)"""
    it = outer if level == 0 else inner
    tag = '' if level == 0 else 'inner_'
    sg = prefix + sig(outer, inner, hcls, tag)
    ok = True
    # ---- tie
    if [y['index'] for y in impl_ys] != [m[0] for m in model_ys]:
        ctx.disagree(sg + 'indices_vs_model', case, [y['index'] for y in impl_ys], [m[0] for m in model_ys],
                     'yielded indices differ from the model', kind='tie')
        return False
    for y, m in zip(impl_ys, model_ys):
        if (y['name'], y['target']) != (m[1], m[2]):
            ctx.disagree(sg + 'values_vs_model', case, [y['name'], y['target']], [m[1], m[2]],
                         'yielded state/label/target differ from the model', kind='tie')
            ok = False
        ok &= compare_state(ctx, ob, y['st'], m[3], tag + 'yield', sg, case)
    # ---- property
    if [y['index'] for y in impl_ys] != [s[0] for s in spec_items]:
        ctx.disagree(sg + 'indices', case, [y['index'] for y in impl_ys], [s[0] for s in spec_items],
                     '%s() does not visit each selected item exactly once in increasing order' % it)
        return False
    for y, s in zip(impl_ys, spec_items):
        sidx, sname, sfirst, stargets, smask = s[0], s[1], s[2], s[3], s[4]
        if y['st']['tk'] != smask:
            ctx.disagree(sg + 'dumps', case, y['st']['tk'], smask,
                         'dumps exposed during a yield are not the prior selection restricted to the item')
            ok = False
            continue
        if y['st']['fk'] != before['fk'] or y['st']['bk'] != before['bk']:
            ctx.disagree(sg + 'freq_corrprod_changed', case, [y['st']['fk'], y['st']['bk']], [before['fk'], before['bk']],
                         'frequency / corrprod selection changed while iterating')
            ok = False
        ok &= check_public(ctx, ob, y['st'], smask, before['fk'], before['bk'], tag + 'yield', sg, case)
        if y['name'] != sname:
            ctx.disagree(sg + 'name', case, y['name'], sname, 'yielded state/label is not that of the dumps shown')
            ok = False
        if y['target'] not in stargets:
            ctx.disagree(sg + 'target_not_of_dumps', case, y['target'], stargets,
                         'yielded target is not a target of the dumps shown')
            ok = False
        elif y['target'] != sfirst and it == 'compscans':
            # documented as "first target associated with compound scan" (C03-F2, repaired in katdal: C03_yield_values,
            # clause w = WCompscans); scans() documents "target associated with scan" and yields the lowest-numbered one
            ctx.disagree('iter=%s;symptom=target_not_first_in_time' % it, case, y['target'], sfirst,
                         '%s() does not yield the first target of the item in time order' % it)
            ok = False
    return ok


def run_iter_case(ctx, ob, history, mode, cid, note=True, extra=None, sig_prefix=''):
    outer, inner = mode

    def psig(o, i, h, sym):      # signatures of stream (c) are kept apart by a prefix
        return sig_prefix + sig(o, i, h, sym)
    st_w, lb_w = obs_cds(ob.d)
    payload = [ob.wire(), st_w, lb_w, [c02.wire_call(c) for c in history], 1 if inner else 0, WHICH[outer],
               WHICH[inner] if inner else 0]
    out = ctx.model([[3, payload]])[0]
    if out == [-999] or len(out) != 4:
        ctx.disagree('model_error', dict(cid=cid), None, out, 'model returned an error value', kind='tie')
        return
    statuses, ms0, model, spec = out
    hcls = history_class(history, statuses)
    case = dict(cid=cid, mode=[outer, inner], obs=getattr(ob, 'spec', None),
                history=[c02.describe_call(c) for c in history], statuses=statuses)
    if extra:
        case.update(extra)
    d = ob.fresh()
    with warnings.catch_warnings():
        warnings.simplefilter('ignore')
        for call, stt in zip(history, statuses):
            if stt != 0:
                continue
            try:
                d.select(**c02.py_call(call))
            except Exception as e:      # noqa: BLE001 - C02's business; this case cannot be used
                ctx.count('prior_history_raised')
                return
        before = observe_state(ob, d)
        if not compare_state(ctx, ob, before, ms0, 'before', psig(outer, inner, hcls, 'prior_history'), case):
            return
        if model[0] != 0:
            # the model says the generator raises (IndexError): the implementation must raise too
            try:
                run_iter_impl(ob, d, outer, inner)
            except Exception:      # noqa: BLE001
                ctx.count('iteration_raised_in_both')
                return
            ctx.disagree(psig(outer, inner, hcls, 'model_raises_impl_not'), case, 'ok', model,
                         'the model predicts an exception', kind='tie')
            return
        try:
            ys, after = run_iter_impl(ob, d, outer, inner)
        except Exception as e:      # noqa: BLE001
            ctx.disagree(psig(outer, inner, hcls, 'raises'), case, repr(e), 'ok', 'the generator raised')
            return
    ctx.traces_validated += 1
    ctx.count('iter=%s%s' % (outer, ('/' + inner) if inner else ''))
    ctx.count('history=' + hcls)
    ctx.count('yields', len(ys))
    nsel0 = sum(before['tk'])
    ctx.count('prior_selection=%s' % ('empty' if nsel0 == 0 else 'all' if nsel0 == len(before['tk']) else
                                      'single_dump' if nsel0 == 1 else 'partial'))
    ctx.count('items=%s' % (len(ys) if len(ys) < 2 else '2+'))
    ok = compare_items(ctx, ob, ys, model[1], spec, before, outer, inner, hcls, case, prefix=sig_prefix)
    if ok and inner:
        for y, m, s in zip(ys, model[1], spec):
            yb = y['st']
            ok &= compare_items(ctx, ob, y['inner'], m[4], s[5], yb, outer, inner, hcls, case, level=1, prefix=sig_prefix)
            # the inner generator must restore the selection of the outer yield
            for k in ('tk', 'fk', 'bk'):
                if y['after_inner'][k] != yb[k]:
                    ctx.disagree(psig(outer, inner, hcls, 'inner_restore:' + k), case, y['after_inner'][k], yb[k],
                                 'selection after the inner generator differs from the selection of the outer yield')
                    ok = False
    # ---- tie on the final state
    ok &= compare_state(ctx, ob, after, model[2], 'after', psig(outer, inner, hcls, ''), case)
    # ---- property: the selection in force before is in force again
    bad = [k for k in ('tk', 'fk', 'bk', 'dumps', 'channels', 'cps', 'shape', 'nts', 'wk', 'flk') if after[k] != before[k]]
    if sorted(after['keys']) != sorted(before['keys']):
        bad.append('keys')
    if bad:
        ctx.disagree(psig(outer, inner, hcls, 'restore:' + ','.join(bad)), case, {k: after[k] for k in bad},
                     {k: before[k] for k in bad}, 'selection after exhaustion differs from the selection before iteration')
    if note:
        nsel = sum(before['tk'])
        ctx.note_case(cid, nontrivial=len(ys) >= 2 and nsel < len(before['tk']),
                      sample=dict(mode=[outer, inner], history=case['history'], indices=[y['index'] for y in ys],
                                  dumps_before=before['dumps']))


# ---------------------------------------------------------------------------------------------------------------
# (d) loop bodies that call select() themselves, abandoned iterations (break / close / garbage collection)

BODY_CLASSES = ['none', 'fb', 'fb', 'time']
ABANDON = ['break', 'close', 'del', 'hold']


def gen_body(rng, ob, cls):
    """select() calls issued by the loop body at every yield.  'fb': no time keyword (theorem C03_selecting_body
    applies: partition and time restore hold); 'time': one call adds a time criterion with reset='' (outside the
    domain of the property: tie only)."""
    calls = []
    if cls == 'none':
        return calls
    for _ in range(rng.choice([1, 1, 2])):
        if cls == 'fb':
            keys = rng.sample(c02.FREQ + c02.CORR + ['flags', 'weights'], rng.choice([1, 1, 2]))
            reset = rng.choice(['', '', '', None, 'F', 'B', 'FB', 'auto'])
        else:
            keys = [rng.choice(c02.TIME)]
            reset = ''
        call = []
        for k in keys:
            v, w, f = c02.gen_criterion(rng, ob, k)
            call.append((k, v, w, f))
        if reset is not None:
            call.append(('reset', reset, [10, c02.codes(reset)], 'reset'))
        calls.append(call)
    return calls


def run_body_impl(ob, d, outer, body, brk, how):
    """The real generator with a loop body issuing `body` at every yield; brk = None: to exhaustion, else the loop
    is left while item number brk is current (break; then the generator is closed / deleted / kept alive)."""
    import gc
    ys = []
    name_id = {'scans': state_id, 'compscans': label_id}
    abandoned = None
    gen = getattr(d, outer)()
    for i, (idx, name, tgt) in enumerate(gen):
        y = dict(index=int(idx), name=name_id[outer](name), target=target_index(d, tgt), st=observe_state(ob, d))
        if brk is not None and i == brk:
            abandoned = y
            break
        for call in body:
            d.select(**c02.py_call(call))
        y['after_body'] = observe_state(ob, d)
        ys.append(y)
    if abandoned is not None:
        if how == 'close':
            gen.close()
        elif how in ('del', 'break'):
            del gen
            gc.collect()
        abandoned['left'] = observe_state(ob, d)
    return ys, abandoned, observe_state(ob, d), (gen if how == 'hold' and abandoned is not None else None)


def body_sig(outer, cls, brk, symptom):
    return 'body=%s;iter=%s;%ssymptom=%s' % (cls, outer, 'abandoned;' if brk is not None else '', symptom)


def run_body_case(ctx, ob, history, outer, cls, body, brk, how, cid, note=True, sig_prefix=''):
    key = outer
    st_w, lb_w = obs_cds(ob.d)
    payload = [ob.wire(), st_w, lb_w, [c02.wire_call(c) for c in history], WHICH[outer],
               [c02.wire_call(c) for c in body], -1 if brk is None else brk]
    out = ctx.model([[34, payload]])[0]
    if out == [-999] or len(out) != 4:
        ctx.count('body_model_error')       # e.g. the last good model binary predates wire_34
        return
    statuses, ms0, model, spec = out
    case = dict(cid=cid, iter=outer, body_class=cls, body=[c02.describe_call(c) for c in body], break_at=brk, how=how,
                obs=getattr(ob, 'spec', None), history=[c02.describe_call(c) for c in history], statuses=statuses)

    def bs(sym):
        return sig_prefix + body_sig(outer, cls, brk, sym)
    d = ob.fresh()
    with warnings.catch_warnings():
        warnings.simplefilter('ignore')
        for call, stt in zip(history, statuses):
            if stt != 0:
                continue
            try:
                d.select(**c02.py_call(call))
            except Exception:      # noqa: BLE001 - C02's business
                ctx.count('prior_history_raised')
                return
        before = observe_state(ob, d)
        if not compare_state(ctx, ob, before, ms0, 'before', bs('prior_history'), case):
            return
        if model[0] != 0:
            try:
                run_body_impl(ob, d, outer, body, brk, how)
            except Exception:      # noqa: BLE001
                ctx.count('body_iteration_raised_in_both')
                return
            ctx.disagree(bs('model_raises_impl_not'), case, 'ok', model, 'the model predicts an exception', kind='tie')
            return
        try:
            ys, ab, after, held = run_body_impl(ob, d, outer, body, brk, how)
        except Exception as e:      # noqa: BLE001
            ctx.disagree(bs('raises'), case, repr(e), 'ok', 'the generator / the body raised where the model does not')
            return
    ctx.traces_validated += 1
    ctx.count('body=%s' % cls)
    ctx.count('abandoned=%s' % ((how if ab is not None else 'beyond_last_item') if brk is not None else 'no'))
    ctx.count('body_calls=%d' % len(body))
    m_ys, m_ab, m_final = (model[1], None, model[2]) if brk is None else (model[1], model[2], model[3])
    # ---- tie: complete iterations
    if [y['index'] for y in ys] != [m[0] for m in m_ys]:
        ctx.disagree(bs('indices_vs_model'), case, [y['index'] for y in ys], [m[0] for m in m_ys],
                     'indices of the complete iterations differ from the model', kind='tie')
        return
    ok = True
    for y, m in zip(ys, m_ys):
        if (y['name'], y['target']) != (m[1], m[2]):
            ctx.disagree(bs('values_vs_model'), case, [y['name'], y['target']], [m[1], m[2]],
                         'yielded state/label/target differ from the model', kind='tie')
            ok = False
        ok &= compare_state(ctx, ob, y['st'], m[3], 'yield', bs(''), case)
        ok &= compare_state(ctx, ob, y['after_body'], m[4], 'after_body', bs(''), case)
    # ---- property (time partition; holds for every body that adds no time criterion: C03_selecting_body)
    spec_of = {sp[0]: sp for sp in spec}
    if cls != 'time':
        exp_idx = [sp[0] for sp in spec][:len(ys)] if brk is not None else [sp[0] for sp in spec]
        if [y['index'] for y in ys] != exp_idx:
            ctx.disagree(bs('indices'), case, [y['index'] for y in ys], exp_idx,
                         'the items visited are not the selected ones, once each, in increasing order')
            ok = False
        for y in ys:
            sp = spec_of.get(y['index'])
            if sp is None or y['st']['tk'] != sp[4]:
                ctx.disagree(bs('dumps'), case, y['st']['tk'], sp[4] if sp else None,
                             'dumps exposed during a yield are not the prior selection restricted to the item '
                             '(whatever the earlier loop bodies selected)')
                ok = False
                continue
            ok &= check_public(ctx, ob, y['st'], sp[4], y['st']['fk'], y['st']['bk'], 'yield', bs(''), case)
            if y['name'] != sp[1]:
                ctx.disagree(bs('name'), case, y['name'], sp[1], 'yielded state/label is not that of the dumps shown')
                ok = False
            if y['target'] not in sp[3]:
                ctx.disagree(bs('target_not_of_dumps'), case, y['target'], sp[3], 'yielded target is not a target of the dumps shown')
                ok = False
            elif outer == 'compscans' and y['target'] != sp[2]:
                ctx.disagree(bs('target_not_first_in_time'), case, y['target'], sp[2],
                             'compscans() does not yield the first target of the compound scan in time order')
                ok = False
    if brk is None or ab is None:
        # ---- exhaustion
        if brk is not None and m_ab:
            ctx.disagree(bs('model_abandons_impl_exhausts'), case, None, m_ab, 'the model has an item number %d' % brk, kind='tie')
            return
        ok &= compare_state(ctx, ob, after, m_final, 'after', bs(''), case)
        if cls != 'time':
            bad = [k for k in ('tk', 'dumps', 'nts', 'scans', 'compscans', 'targets') if after[k] != before[k]]
            tkeys = lambda st: sorted(k for k in st['keys'] if k in c02.TIME)     # noqa: E731
            if tkeys(after) != tkeys(before):
                bad.append('time_keys')
            if cls == 'none':
                bad += [k for k in ('fk', 'bk', 'channels', 'cps', 'shape', 'wk', 'flk') if after[k] != before[k]]
            if bad:
                ctx.disagree(bs('restore:' + ','.join(bad)), case, {k: after.get(k) for k in bad}, {k: before.get(k) for k in bad},
                             'time selection after exhaustion differs from the selection before iteration')
        elif after['tk'] != before['tk']:
            ctx.count('time_selecting_body_leaked_past_exhaustion')
    else:
        # ---- abandoned while item number brk was current
        if not m_ab:
            ctx.disagree(bs('impl_abandons_model_exhausts'), case, ab['index'], None, 'the model has no item number %d' % brk, kind='tie')
            return
        if [ab['index'], ab['name'], ab['target']] != m_ab[:3]:
            ctx.disagree(bs('abandoned_item_vs_model'), case, [ab['index'], ab['name'], ab['target']], m_ab[:3],
                         'the item current at the break differs from the model', kind='tie')
            ok = False
        ok &= compare_state(ctx, ob, ab['left'], m_ab[3], 'left', bs(''), case)
        ok &= compare_state(ctx, ob, after, m_final, 'after', bs(''), case)
        if cls != 'time':
            sp = spec_of.get(ab['index'])
            exp_idx = [s_[0] for s_ in spec]
            if sp is None or brk >= len(exp_idx) or exp_idx[brk] != ab['index']:
                ctx.disagree(bs('abandoned_index'), case, ab['index'], exp_idx, 'the item current at the break is not item number %d' % brk)
            elif ab['left']['tk'] != sp[4]:
                # "after each iteration the data set will reflect the scan selection": nothing runs after the yield
                ctx.disagree(bs('left:tk'), case, ab['left']['tk'], sp[4],
                             'the selection left by an abandoned iteration is not the prior selection restricted to the current item')
            else:
                check_public(ctx, ob, ab['left'], sp[4], ab['left']['fk'], ab['left']['bk'], 'left', bs(''), case)
                if cls == 'none':
                    bad = [k for k in ('fk', 'bk', 'wk', 'flk') if ab['left'][k] != before[k]]
                    if sorted(ab['left']['keys']) != sorted(set(before['keys']) | {key}):
                        bad.append('keys')
                    if bad:
                        ctx.disagree(bs('left:' + ','.join(bad)), case, {k: ab['left'].get(k) for k in bad},
                                     {k: before.get(k) for k in bad},
                                     'an abandoned iteration changed more than the time selection and _selection[%r]' % key)
                # picking the work up again: the same generator now visits the abandoned item alone and restores the
                # abandoned selection (C03_abandoned_then_iterate)
                if held is None and cls == 'none':
                    with warnings.catch_warnings():
                        warnings.simplefilter('ignore')
                        try:
                            again = [int(i) for i, n_, t_ in getattr(d, outer)()]
                            st2 = observe_state(ob, d)
                        except Exception as e:      # noqa: BLE001
                            again, st2 = repr(e), None
                    if again != [ab['index']] or any(st2[k] != ab['left'][k] for k in ('tk', 'fk', 'bk', 'dumps', 'scans')) \
                            or sorted(st2['keys']) != sorted(ab['left']['keys']):
                        ctx.disagree(bs('iterate_after_break'), case, [again, st2 and st2['tk']], [[ab['index']], ab['left']['tk']],
                                     'iterating again after a break does not visit the abandoned item alone / does not '
                                     'restore the abandoned selection')
    if held is not None:
        held.close()
    if note:
        ctx.note_case(cid, nontrivial=len(spec) >= 2 and (cls != 'none' or brk is not None),
                      sample=dict(iter=outer, body=case['body'], break_at=brk, how=how, history=case['history'],
                                  indices=[y['index'] for y in ys]))


def run_inner_break_impl(ob, d, outer, inner, brk):
    """for ... in d.<outer>(): for ... in d.<inner>(): ...; break (at inner item number brk), outer run to exhaustion"""
    import gc
    name_id = {'scans': state_id, 'compscans': label_id}
    ys = []
    for idx, name, tgt in getattr(d, outer)():
        y = dict(index=int(idx), name=name_id[outer](name), target=target_index(d, tgt), st=observe_state(ob, d), inner=[], ab=None)
        gen = getattr(d, inner)()
        for i, (idx2, name2, tgt2) in enumerate(gen):
            z = dict(index=int(idx2), name=name_id[inner](name2), target=target_index(d, tgt2), st=observe_state(ob, d))
            if i == brk:
                y['ab'] = z
                break
            y['inner'].append(z)
        del gen      # CPython finalises the suspended generator at once (GeneratorExit at its yield)
        y['after_inner'] = observe_state(ob, d)
        ys.append(y)
    return ys, observe_state(ob, d)


def run_inner_break_case(ctx, ob, history, outer, inner, brk, cid, note=True):
    """Tie only (a break in the inner loop is outside the domain of the property: C03_inner_break_example): the real
    nested loops against the model iterate_nested_break, including WHETHER the outer generator raises."""
    st_w, lb_w = obs_cds(ob.d)
    payload = [ob.wire(), st_w, lb_w, [c02.wire_call(c) for c in history], WHICH[outer], WHICH[inner], brk]
    out = ctx.model([[35, payload]])[0]
    if out == [-999] or len(out) != 3:
        ctx.count('inner_break_model_error')
        return
    statuses, ms0, model = out
    sg = 'inner_break;iter=%s/%s;symptom=' % (outer, inner)
    case = dict(cid=cid, mode=[outer, inner], inner_break_at=brk, obs=getattr(ob, 'spec', None),
                history=[c02.describe_call(c) for c in history], statuses=statuses)
    d = ob.fresh()
    with warnings.catch_warnings():
        warnings.simplefilter('ignore')
        for call, stt in zip(history, statuses):
            if stt != 0:
                continue
            try:
                d.select(**c02.py_call(call))
            except Exception:      # noqa: BLE001
                ctx.count('prior_history_raised')
                return
        before = observe_state(ob, d)
        if not compare_state(ctx, ob, before, ms0, 'before', sg + 'prior_history', case):
            return
        try:
            ys, after = run_inner_break_impl(ob, d, outer, inner, brk)
            raised = None
        except IndexError as e:
            raised = repr(e)
    ctx.traces_validated += 1
    if model[0] != 0:
        ctx.count('inner_break=raises_in_both' if raised else 'inner_break=model_raises_only')
        if not raised:
            ctx.disagree(sg + 'model_raises_impl_not', case, 'ok', model, 'the model predicts IndexError', kind='tie')
        return
    if raised:
        ctx.disagree(sg + 'impl_raises_model_not', case, raised, 'ok', 'the nested loops raise where the model does not', kind='tie')
        return
    m_ys, m_final = model[1], model[2]
    if [y['index'] for y in ys] != [m[0] for m in m_ys]:
        ctx.disagree(sg + 'indices_vs_model', case, [y['index'] for y in ys], [m[0] for m in m_ys],
                     'outer indices differ from the model', kind='tie')
        return
    for y, m in zip(ys, m_ys):
        compare_state(ctx, ob, y['st'], m[3], 'yield', sg, case)
        m_inner, m_ab = m[4]
        if [z['index'] for z in y['inner']] != [z[0] for z in m_inner] or \
                (y['ab'] is None) != (not m_ab) or (m_ab and y['ab']['index'] != m_ab[0]):
            ctx.disagree(sg + 'inner_vs_model', case, [[z['index'] for z in y['inner']], y['ab'] and y['ab']['index']],
                         [[z[0] for z in m_inner], m_ab and m_ab[0]], 'inner items differ from the model', kind='tie')
        elif m_ab:
            compare_state(ctx, ob, y['ab']['st'], m_ab[3], 'inner_left', sg, case)
    compare_state(ctx, ob, after, m_final, 'after', sg, case)
    leaked = after['tk'] != before['tk']
    ctx.count('inner_break=%s' % ('leaks_past_exhaustion' if leaked else 'no_trace'))
    if note:
        ctx.note_case(cid, nontrivial=len(ys) >= 1, sample=dict(mode=[outer, inner], inner_break_at=brk, history=case['history']))


def inner_break_cases(bseed, n):
    rng = random.Random(bseed)
    ob = c02.Observation(c02.gen_obs(rng))
    out = []
    for j in range(n):
        hist = stack_history(rng, ob, rng.choice([0, 0, 1, 1, 2]))
        outer, inner = rng.choice([('compscans', 'scans'), ('compscans', 'scans'), ('scans', 'compscans')])
        out.append((hist, outer, inner, rng.choice([0, 0, 1, 2])))
    return ob, out


def body_cases(bseed, n):
    rng = random.Random(bseed)
    ob = c02.Observation(c02.gen_obs(rng))
    out = []
    for j in range(n):
        hist = stack_history(rng, ob, rng.choice([0, 0, 1, 1, 2, 3]))
        outer = rng.choice(['scans', 'compscans'])
        cls = rng.choice(BODY_CLASSES)
        body = gen_body(rng, ob, cls)
        brk = rng.choice([None, None, 0, 0, 1, 2, 5]) if cls != 'none' else rng.choice([0, 0, 1, 1, 2, 3, 7])
        how = rng.choice(ABANDON)
        out.append((hist, outer, cls, body, brk, how))
    return ob, out



# ---------------------------------------------------------------------------------------------------------------
# (f) the STORED attributes scan_indices / compscan_indices / target_indices over histories of mixed operations (wire_36)

ATTRS = ['scan_indices', 'compscan_indices', 'target_indices']


def ops_cases(fseed, n):
    rng = random.Random(fseed)
    ob = c02.Observation(c02.gen_obs(rng))
    out = []
    for _ in range(n):
        ops = []
        for _ in range(rng.choice([1, 2, 2, 3, 3, 4, 5, 6])):
            k = rng.choice(['select', 'select', 'iter', 'nested', 'itersel', 'break', 'break'])
            if k == 'select':
                call = c02.gen_call(rng, ob)
                if ops and rng.random() < 0.4:      # stack on top of what the earlier operations left
                    call = [c for c in call if c[0] != 'reset'] + [('reset', '', [10, []], 'reset')]
                ops.append(('select', call))
            elif k == 'iter':
                ops.append(('iter', rng.choice(['scans', 'compscans'])))
            elif k == 'nested':
                ops.append(('nested',) + tuple(rng.choice([('compscans', 'scans'), ('scans', 'compscans'), ('scans', 'scans')])))
            elif k == 'itersel':
                ops.append(('itersel', rng.choice(['scans', 'compscans']), gen_body(rng, ob, 'fb')))
            else:
                ops.append(('break', rng.choice(['scans', 'compscans']), rng.choice([0, 0, 1, 1, 2, 4])))
        out.append((ops, rng.choice(['scans', 'compscans'])))
    return ob, out


def wire_op(op):
    if op[0] == 'select':
        return [0, c02.wire_call(op[1])]
    if op[0] == 'iter':
        return [1, WHICH[op[1]]]
    if op[0] == 'nested':
        return [2, WHICH[op[1]], WHICH[op[2]]]
    if op[0] == 'itersel':
        return [3, WHICH[op[1]], [c02.wire_call(c) for c in op[2]]]
    return [4, WHICH[op[1]], op[2]]


def describe_op(op):
    if op[0] == 'select':
        return ['select', c02.describe_call(op[1])]
    if op[0] == 'itersel':
        return ['itersel', op[1], [c02.describe_call(c) for c in op[2]]]
    return list(op)


def impl_op(d, op):
    if op[0] == 'select':
        d.select(**c02.py_call(op[1]))
    elif op[0] == 'iter':
        for _ in getattr(d, op[1])():
            pass
    elif op[0] == 'nested':
        for _ in getattr(d, op[1])():
            for _ in getattr(d, op[2])():
                pass
    elif op[0] == 'itersel':
        for _ in getattr(d, op[1])():
            for call in op[2]:
                d.select(**c02.py_call(call))
    else:
        for i, _ in enumerate(getattr(d, op[1])()):
            if i == op[2]:
                break


def impl_attrs(d):
    return [[int(x) for x in getattr(d, a)] for a in ATTRS]


def model_attrs(tab):
    names = [''.join(chr(c) for c in row[0]) for row in tab]
    return names, [row[1] for row in tab]


def run_ops_case(ctx, ob, ops, which, cid, note=True):
    st_w, lb_w = obs_cds(ob.d)
    out = ctx.model([[36, [ob.wire(), st_w, lb_w, [wire_op(o) for o in ops], WHICH[which]]]])[0]
    if out == [-999] or len(out) != 3:
        ctx.count('ops_model_error')        # e.g. the last good model binary predates wire_36
        return
    hist, it, _btw = out
    case = dict(cid=cid, ops=[describe_op(o) for o in ops], final_iter=which, obs=getattr(ob, 'spec', None),
                statuses=[h[0] for h in hist])
    shape = '+'.join(o[0] for o in ops) or 'none'

    def osig(sym):
        return 'ops;last=%s;symptom=%s' % (sym[0], sym[1])
    d = ob.fresh()
    bad = False
    with warnings.catch_warnings():
        warnings.simplefilter('ignore')
        for k, (op, h) in enumerate(zip(ops, hist)):
            if h[0] != 0:
                ctx.count('ops_op_raises_in_model=%s' % op[0])
                continue
            try:
                impl_op(d, op)
            except Exception as e:      # noqa: BLE001
                if op[0] == 'select':
                    ctx.count('ops_select_raised')      # C02's business
                    return
                ctx.disagree(osig((op[0], 'raises')), dict(case, at=k), repr(e), 'ok', 'the operation raised', kind='tie')
                return
            names, lists = model_attrs(h[1])
            got = impl_attrs(d)
            tk = [int(x) for x in d._time_keep]
            ctx.traces_validated += 1
            if names != ATTRS or tk != h[2] or got != lists:
                ctx.disagree(osig((op[0], 'index_lists_vs_model')), dict(case, at=k), [tk, got], [h[2], names, lists],
                             'stored scan_indices / compscan_indices / target_indices (or the time mask) differ from the model '
                             'after operation %d' % k, kind='tie')
                bad = True
                break
            exp = c02.expected_from_masks(ob, tk, [int(x) for x in d._freq_keep], [int(x) for x in d._corrprod_keep])
            if got != [exp['scans'], exp['compscans'], exp['targets']] or h[3] != 1:
                ctx.disagree(osig((op[0], 'index_lists_stale')), dict(case, at=k), got,
                             [exp['scans'], exp['compscans'], exp['targets']],
                             'after operation %d the stored index lists are not the sorted indices present in the selection' % k)
                bad = True
                break
        if not bad:
            # the generator `which` on the state reached: the attributes the consumer sees at every yield and afterwards
            seen = []
            try:
                for _ in getattr(d, which)():
                    seen.append(impl_attrs(d))
                    tkk = [int(x) for x in d._time_keep]
                    exp = c02.expected_from_masks(ob, tkk, [int(x) for x in d._freq_keep], [int(x) for x in d._corrprod_keep])
                    if seen[-1] != [exp['scans'], exp['compscans'], exp['targets']]:
                        ctx.disagree(osig(('final_' + which, 'index_lists_stale_at_yield')), case, seen[-1],
                                     [exp['scans'], exp['compscans'], exp['targets']],
                                     'at a yield the stored index lists are not the indices present in the selection')
                        bad = True
                after = impl_attrs(d)
                raised = False
            except Exception:       # noqa: BLE001
                raised = True
            ctx.traces_validated += 1
            if raised != (it[0] != 0):
                ctx.disagree(osig(('final_' + which, 'raises_vs_model')), case, raised, it[0], 'generator raises / model does not',
                             kind='tie')
                bad = True
            elif not raised:
                m_seen = [model_attrs(t)[1] for t in it[1]]
                m_after = model_attrs(it[2])[1]
                if seen != m_seen or after != m_after:
                    ctx.disagree(osig(('final_' + which, 'index_lists_vs_model')), case, [seen, after], [m_seen, m_after],
                                 'stored index lists at the yields / after exhaustion differ from the model', kind='tie')
                    bad = True
            ctx.count('ops_final_items=%s' % ('raises' if raised else min(len(seen), 4)))
    ctx.count('ops_len=%d' % len(ops))
    for o in ops:
        ctx.count('ops_kind=%s' % o[0])
    if note:
        ctx.note_case(('ops', shape, which, tuple(case['statuses'])), nontrivial=len(ops) >= 2 and not bad,
                      sample=dict(cid=list(cid), ops=shape))

# ---------------------------------------------------------------------------------------------------------------
# (a) harness DataSet

def harness_cases(oseed, nhist):
    orng = random.Random(oseed)
    ob = c02.Observation(c02.gen_obs(orng))
    out = []
    for j in range(nhist):
        n = orng.choice([0, 1, 1, 2, 2, 3, 3, 4, 5])
        hist = stack_history(orng, ob, n)
        mode = MODES[orng.randrange(len(MODES))] if orng.random() < 0.5 else MODES[orng.randrange(2)]
        out.append((hist, mode))
    return ob, out


def f4_witness_case(w):
    """{'obs_seed': s, 'calls': [[a, b], [c, d]], 'iter': 'scans'}: select(dumps=slice(a,b)); select(dumps=slice(c,d), reset='')"""
    ob = c02.Observation(c02.gen_obs(random.Random(w['obs_seed'])))
    hist = []
    for i, (a, b) in enumerate(w['calls']):
        call = [('dumps', slice(a, b), [0, [2, [a], [b], []]], 'slice')]
        if i > 0:
            call.append(('reset', '', [10, []], 'reset'))
        hist.append(call)
    return ob, hist, (w['iter'], w.get('inner'))


# ---------------------------------------------------------------------------------------------------------------
# (b) real format classes

TDESC = ['A | Aalias, radec bpcal, 19:39:25.03, -63:42:45.6', 'B, radec gaincal, 10:00:00.0, -30:00:00.0',
         'C | Cee, radec target fluxcal, 05:00:00.0, -20:00:00.0', 'D, radec target, 07:00:00.0, -25:00:00.0']
NOTHING = 'Nothing, special'
ACT_V4 = ['slew', 'track', 'scan', 'stop', 'scan_ready', 'scan_complete', 'load_scan', 'unknown']   # raw values
SIMPLE = {'scan_ready': 'slew', 'scan': 'scan', 'scan_complete': 'scan', 'load_scan': 'scan', 'track': 'track',
          'slew': 'slew'}


def frac(rng, k):
    """event position in dumps: inside dump k (0), on its leading edge (-0.05 -> exactly the boundary), just before
    it (-0.1), late inside it (+0.4)"""
    return k + rng.choice([0, 0, 0, -0.05, -0.1, 0.4, 0.2])


def gen_events(rng, fmt):
    T = rng.randint(4, 14)
    na = rng.randint(1, 6)
    pos = sorted(rng.sample(range(1, T), min(na, T - 1)))
    if rng.random() < 0.3 and 1 not in pos:
        pos = [1] + pos        # first-dump slew workaround
    acts = [(0, rng.choice(['slew', 'stop', 'track', 'stop']))]
    raw = ACT_V4 if fmt == 4 else STATES
    for p in pos:
        v = rng.choice(raw)
        if p == 1 and rng.random() < 0.6:
            v = 'slew'
        acts.append((frac(rng, p), v))
    nl = rng.choice([0, 1, 1, 2, 3, 4])
    lpos = sorted(rng.sample(range(0, T), min(nl, T)))
    labels = []
    for p in lpos:
        # labels mostly at scan starts, sometimes mid-scan (creates a duplicate scan event), sometimes empty
        if rng.random() < 0.6 and pos:
            p = rng.choice([0] + pos)
        labels.append((frac(rng, p) if p > 0 else 0, rng.choice(LABELS[1:] + [''])))
    if rng.random() < 0.2:
        # compound scans that only begin after the first scan(s): no label on dump 0, a scan starting on dump 1 or 2
        q = rng.choice([1, 1, 2])
        acts = [acts[0]] + [(q, rng.choice(['track', 'scan', 'stop']))] + [a for a in acts[1:] if int(a[0] + 0.5) > q]
        labels = [(q, rng.choice(LABELS[1:]))] + [l for l in labels if int(l[0] + 0.5) > q]
    labels = sorted(set(labels), key=lambda x: x[0])
    labels = [l for i, l in enumerate(labels) if i == 0 or l[0] != labels[i - 1][0]]
    nt = rng.choice([1, 1, 2, 2, 3, 4])
    tpos = [0] + sorted(rng.sample(range(1, T), min(nt - 1, T - 1)))
    targets = []
    for i, p in enumerate(tpos):
        if rng.random() < 0.7 and pos and p > 0:
            p = rng.choice(pos)
        if fmt == 3 and i == 0 and rng.random() < 0.4:
            targets.append((0, NOTHING))
        else:
            targets.append((frac(rng, p) if p > 0 else 0, rng.choice(TDESC)))
    targets = sorted(set(targets), key=lambda x: x[0])
    targets = [t for i, t in enumerate(targets) if i == 0 or t[0] != targets[i - 1][0]]
    if fmt == 4 and len(acts) > 1 and rng.random() < 0.3:
        # antennas start in STOP with a target left over from the previous capture block: one or two initial stop
        # scans, the first real target set at a later scan start (the initial-stop-target loop of visdatav4.py)
        acts[0] = (0, 'stop')
        k = rng.randrange(1, len(acts))
        if rng.random() < 0.7:
            acts = [(a[0], 'stop') if i < k else a for i, a in enumerate(acts)]     # nothing but STOP before it
        pk = acts[k][0]
        others = [t for t in TDESC if t != targets[0][1]]
        targets = [targets[0], (pk, rng.choice(others))] + [t for t in targets[1:] if int(t[0] + 0.5) > int(pk + 0.5)]
    return dict(fmt=fmt, T=T, acts=acts, labels=labels, targets=targets)


def series_wire(c, ids):
    """(values, events) of a CategoricalData as handed to its constructor"""
    return [[ids(c.unique_values[i]) for i in c.indices], [int(e) for e in c.events]]


class RealSet:
    """One synthetic data set of a real format class + the pristine categorical inputs of its segmentation."""

    def __init__(self, ev, seed=0):
        from fixtures import h5, v4
        from katdal.categorical import CategoricalData, sensor_to_categorical
        self.ev = ev
        fmt, T = ev['fmt'], ev['T']
        self.tmp = v4.scratch_dir('c03')
        self.tids = {}
        kw = dict(T=T, F=2, acts=tuple(ev['acts']), targets=tuple(ev['targets']), labels=tuple(ev['labels']))
        if fmt == 4:
            from katdal import visdatav4 as V
            from katdal.sensordata import SensorCache
            self.x = v4.build_v4(tmp=self.tmp, seed=seed, ants=('m000', 'm001'), **kw)
            self.d = d = self.x.d
            c2 = SensorCache(self.x.source.metadata.sensors, self.x.source.timestamps, d.dump_period,
                             np.ones(T, dtype=bool), V.SENSOR_PROPS, V.VIRTUAL_SENSORS, V.SENSOR_ALIASES, None)
            self.act, self.tgt = c2.get('obs_activity'), c2.get('cbf_target')
            try:
                self.lab = c2.get('obs_label')
            except KeyError:
                self.lab = CategoricalData([''], [0, T])
        else:
            opener = h5.open_v3 if fmt == 3 else h5.open_v2
            other = 'm001' if fmt == 3 else 'ant2'
            self.d = d = opener(self.tmp, **kw)[0]
            # the reference antenna's sensors are mutated in place by the pipeline; the other antenna carries
            # the same events and is left alone
            self.act = d.sensor.get('Antennas/%s/activity' % other)
            self.tgt = d.sensor.get('Antennas/%s/target' % other)
            t0 = 1500000000.0 if fmt == 3 else 1300000000.0
            labels = ev['labels'] or ([(-2.05, '')] if fmt == 3 else [])
            times = np.array([t0 + 2.0 * p - 0.9 for p, v in labels])
            vals = np.array([v for p, v in labels], dtype='U32') if labels else np.array([], dtype='U32')
            self.lab = sensor_to_categorical(times, vals, d.sensor.timestamps[:], d.dump_period,
                                             initial_value='', transform=str, allow_repeats=True)

    def target_id(self, t):
        desc = str(getattr(t, 'description', t))
        if desc.startswith('Nothing'):
            return 90
        return self.tids.setdefault(desc, len(self.tids))

    def close(self):
        f = getattr(self.d, 'file', None)
        if f is not None:
            try:
                f.close()
            except Exception:      # noqa: BLE001
                pass
        shutil.rmtree(self.tmp, ignore_errors=True)


SENSORS = ['Observation/scan_state', 'Observation/scan_index', 'Observation/label', 'Observation/compscan_index',
           'Observation/target', 'Observation/target_index']


_SEG_PARAMS = {}


def seg_params(fmt):
    """ids of the strings the pipeline of this format class tests for, read from its source by the translator item
    (so that an edited string reaches the model as the id of the NEW string, or of no string at all)"""
    if fmt not in _SEG_PARAMS:
        from vh import core
        from vh.items import c03 as items
        try:
            c = items.segmentation_constants(core.REPO, 'v%d' % fmt)
        except Exception:      # noqa: BLE001 - translator refuses the source: broken tie, search with the usual strings
            c = dict(slew_value='slew', stop_value='stop', label_removed='', label_add_value='', nothing_value=NOTHING)
        sid = lambda v: STATES.index(v) if v in STATES else -2      # noqa: E731
        lid = lambda v: LABELS.index(v) if v in LABELS else -2      # noqa: E731
        _SEG_PARAMS[fmt] = [sid(c['slew_value']), sid(c['stop_value']) if fmt == 4 else sid('stop'), lid(c['label_removed']),
                            90 if (fmt != 3 or c['nothing_value'] == NOTHING) else -2, lid(c['label_add_value'])]
    return _SEG_PARAMS[fmt]


def py_numbered(l):
    return (not l) or (l[0] == 0 and all(b in (a, a + 1) for a, b in zip(l, l[1:])))


def run_seg_case(ctx, ev, cid, note=True):
    fmt = ev['fmt']
    case = dict(cid=cid, events=ev)
    try:
        rs = RealSet(ev)
    except Exception as e:      # noqa: BLE001
        ctx.count('open_failed:%s' % type(e).__name__)
        # a data set that cannot be opened exposes no segmentation; not a C03 disagreement unless the model succeeds
        ctx.extra.setdefault('open_failed', []).append(dict(cid=cid, error=repr(e)[:200]))
        return None
    try:
        d = rs.d
        T = ev['T']
        ids = [state_id, int, label_id, int, rs.target_id, int]
        payload = [fmt, seg_params(fmt), T,
                   series_wire(rs.act, state_id), series_wire(rs.lab, label_id), series_wire(rs.tgt, rs.target_id)]
        out = ctx.model([[31, payload]])[0]
        sgn = 'seg;fmt=v%d;' % fmt
        ctx.traces_validated += 1
        ctx.count('seg_fmt=v%d' % fmt)
        if out[0] != 0:
            ctx.disagree(sgn + 'model_raises', case, 'opened', out, 'the model pipeline fails where the file opens', kind='tie')
            return rs
        nscans = 0
        for k, (name, idf) in enumerate(zip(SENSORS, ids)):
            c = d.sensor.get(name)
            m = out[1 + k]
            got = [[idf(v) for v in c.unique_values], [int(i) for i in c.indices], [int(e) for e in c.events]]
            d.select()
            per_dump = [idf(v) for v in d.sensor[name]]
            short = name.split('/')[1]
            if got != m[:3]:
                ctx.disagree(sgn + 'sensor=%s;events' % short, case, got, m[:3],
                             'categorical sensor %s differs from the model pipeline' % name, kind='tie')
            elif per_dump != m[3]:
                ctx.disagree(sgn + 'sensor=%s;per_dump' % short, case, per_dump, m[3],
                             'per-dump values of %s differ from the model' % name, kind='tie')
            # property: exactly one value per dump; consecutive numbering for scans / compscans
            if len(per_dump) != T or got[2][0] != 0 or got[2][-1] != T or any(a >= b for a, b in zip(got[2], got[2][1:])):
                ctx.disagree(sgn + 'sensor=%s;not_every_dump_once' % short, case, got, T,
                             '%s does not give every dump exactly one value' % name)
            if short in ('scan_index', 'compscan_index'):
                if not py_numbered(per_dump):
                    ctx.disagree(sgn + 'sensor=%s;not_consecutive' % short, case, per_dump, None,
                                 '%s is not numbered consecutively from zero in time order' % name)
                if short == 'scan_index':
                    nscans = len(set(per_dump))
        if out[7] != 1:
            ctx.disagree(sgn + 'model_seg_ok_false', case, None, out, 'seg_ok is false on the model output', kind='tie')
        if note:
            ctx.note_case(cid, nontrivial=nscans >= 2, sample=dict(events=ev, scans=nscans))
        return rs
    except Exception:
        rs.close()
        raise


def gen_v1(rng):
    ncs = rng.randint(1, 4)
    scans = []
    for cs in range(ncs):
        tgt = rng.choice(TDESC + [''])
        lab = rng.choice(LABELS[1:] + [''])
        for _ in range(rng.randint(1, 3)):
            scans.append((cs, lab, tgt, rng.choice(['slew', 'scan', 'track', '', 'cal']), rng.randint(1, 4)))
    return scans


def run_v1_case(ctx, scans, cid, note=True):
    import katdal
    from fixtures import v4
    from fixtures.mkv1 import mkv1
    from katdal.h5datav1 import _labels_to_state, _robust_target
    tmp = v4.scratch_dir('c03')
    case = dict(cid=cid, scans=scans)
    try:
        fn = os.path.join(tmp, '1200000000.h5')
        mkv1(fn, scans, F=2)
        d = katdal.open(fn)
        T = sum(s[4] for s in scans)
        segs = [0]
        for s in scans:
            segs.append(segs[-1] + s[4])
        st_ids, lb_ids, tg_ids = {}, {}, {}
        sid = lambda v: st_ids.setdefault(str(v), len(st_ids))     # noqa: E731
        lid = lambda v: lb_ids.setdefault(str(v), len(lb_ids))     # noqa: E731
        tid = lambda v: tg_ids.setdefault(str(getattr(v, 'description', v)), len(tg_ids))   # noqa: E731
        states = [sid(_labels_to_state(s[3], s[1])) for s in scans]
        groups = [s[0] for s in scans]
        labels = [lid(s[1]) for s in scans]
        targets = [tid(_robust_target(s[2])) for s in scans]
        out = ctx.model([[32, [T, states, groups, labels, targets, segs]]])[0]
        ctx.traces_validated += 1
        ctx.count('seg_fmt=v1')
        if out[0] != 0:
            ctx.disagree('seg;fmt=v1;model_raises', case, 'opened', out, 'the model pipeline fails', kind='tie')
            return
        for k, (name, idf) in enumerate(zip(SENSORS, [sid, int, lid, int, tid, int])):
            c = d.sensor.get(name)
            m = out[1 + k]
            got = [[idf(v) for v in c.unique_values], [int(i) for i in c.indices], [int(e) for e in c.events]]
            short = name.split('/')[1]
            if got != m[:3]:
                ctx.disagree('seg;fmt=v1;sensor=%s;events' % short, case, got, m[:3],
                             'categorical sensor %s differs from the model pipeline' % name, kind='tie')
            per_dump = [idf(v) for v in d.sensor[name]]
            if len(per_dump) != T or (short in ('scan_index', 'compscan_index') and not py_numbered(per_dump)):
                ctx.disagree('seg;fmt=v1;sensor=%s;not_every_dump_once' % short, case, per_dump, T,
                             '%s does not number every dump consecutively' % name)
        # iterators on the v1 data set (whole selection)
        seen = [int(i) for i, s, t in d.scans()]
        if seen != list(range(len(scans))) or [int(x) for x in d.dumps] != list(range(T)):
            ctx.disagree('seg;fmt=v1;scans_iter', case, seen, list(range(len(scans))), 'v1 scans() does not visit every scan')
        if note:
            ctx.note_case(cid, nontrivial=len(scans) >= 2, sample=dict(scans=scans))
        d.file.close()
    finally:
        shutil.rmtree(tmp, ignore_errors=True)


class RealObservation(c02.DataSetObservation):
    """C02's adapter over an opened data set; label/state vocabularies of this harness."""
    pass


def real_cases(rseed, n_iter):
    rrng = random.Random(rseed)
    fmt = rrng.choice([4, 4, 3, 2])
    ev = gen_events(rrng, fmt)
    return ev, rrng


def run_real(ctx, rseed, n_iter, only=None, note=True):
    ev, rrng = real_cases(rseed, n_iter)
    rs = run_seg_case(ctx, ev, ('seg', rseed), note=note)
    if rs is None:
        return
    try:
        try:
            ob = RealObservation(rs.d)
        except AssertionError as e:
            ctx.count('real_obs_outside_vocabulary')
            return
        for j in range(n_iter):
            n = rrng.choice([0, 1, 2, 2, 3])
            hist = stack_history(rrng, ob, n)
            mode = MODES[rrng.randrange(len(MODES))]
            if only is None or only == j:
                run_iter_case(ctx, ob, hist, mode, ('real', rseed, n_iter, j), note=note)
        if n_iter:
            # one selecting-body / abandoned-iteration case on the real format class
            hist = stack_history(rrng, ob, rrng.choice([0, 1, 2]))
            outer = rrng.choice(['scans', 'compscans'])
            cls = rrng.choice(BODY_CLASSES)
            body = gen_body(rrng, ob, cls)
            brk = rrng.choice([None, 0, 1, 2])
            how = rrng.choice(ABANDON)
            if only is None or only == n_iter:
                run_body_case(ctx, ob, hist, outer, cls, body, brk, how, ('real', rseed, n_iter, n_iter), note=note,
                              sig_prefix='real;')
    finally:
        rs.close()


# ---------------------------------------------------------------------------------------------------------------
# (c) concatenated data sets

CONCAT_SENSORS = [('scan_index', 0), ('compscan_index', 1)]


def pristine(d):
    """Per-dump structure and index sensors of a freshly opened part (whole time axis), as plain Python values."""
    d.select()
    out = dict(T=int(d.shape[0]),
               scan=[int(x) for x in d.sensor['Observation/scan_index']],
               state=[str(x) for x in d.sensor['Observation/scan_state']],
               cscan=[int(x) for x in d.sensor['Observation/compscan_index']],
               label=[str(x) for x in d.sensor['Observation/label']],
               tname=[str(t.name) for t in d.sensor['Observation/target']])
    for short, _ in CONCAT_SENSORS:
        out[short + '_cd'] = cd_wire(d.sensor.get('Observation/' + short), int)
    return out


class ConcatObservation(RealObservation):
    """C02's adapter over a ConcatenatedDataSet.  The observation structure handed to the model and the spec
    (per-dump scan / state / compscan / label / target) is NOT read back from the concatenation: it is what the
    statement demands of it, computed from the parts as they were opened (indices numbered consecutively from zero
    in time order over the parts; state, label and target of every dump those of the part)."""

    def __init__(self, d, exp):
        super().__init__(d)
        self.impl_structure = dict(scan=self.scan, state=self.state, cscan=self.cscan, label=self.label, tgt=self.tgt)
        names = [str(t.name) for t in d.catalogue.targets]
        self.tgt_ambiguous = any(names.count(n) != 1 for n in exp['tname'])
        self.scan, self.state, self.cscan, self.label = exp['scan'], exp['state'], exp['cscan'], exp['label']
        if not self.tgt_ambiguous:
            self.tgt = [names.index(n) for n in exp['tname']]
        self.spec['sc_events'] = list(range(max(self.scan) + 2))
        self.spec['cs_events'] = list(range(max(self.cscan) + 2))
        self.spec['real_format'] = 'ConcatenatedDataSet'


def gen_part_selection(rng, pob):
    """Prior selection carried by a part when it is concatenated: 1-2 select() calls, biased towards time criteria
    (the ones that can hide whole scans / compound scans of the part)."""
    hist = []
    for _ in range(rng.choice([1, 1, 2])):
        if rng.random() < 0.6:
            k = rng.choice(['scans', 'scans', 'compscans', 'compscans', 'dumps', 'targets', 'timerange'])
            v, w, f = c02.gen_criterion(rng, pob, k)
            hist.append([(k, v, w, f)])
        else:
            hist.append(c02.gen_call(rng, pob))
    return hist


def gen_concat(cseed):
    """2-3 v4 event lists, their start offsets (in dumps, chronological) and the order in which the data sets are
    handed to ConcatenatedDataSet."""
    rng = random.Random(cseed)
    k = rng.choice([2, 2, 3])
    evs = [gen_events(rng, 4) for _ in range(k)]
    offs, off = [], 0
    for ev in evs:
        offs.append(off)
        off += ev['T'] + rng.choice([0, 0, 1, 3, 10])
    order = list(range(k))
    rng.shuffle(order)
    return rng, evs, offs, order


class ConcatSet:
    """k in-memory v4 parts (fixtures.v4.build_v4, different start times), possibly carrying their own prior
    selections, concatenated with katdal.concatdata.ConcatenatedDataSet."""

    def __init__(self, cseed):
        from fixtures import v4
        from katdal.concatdata import ConcatenatedDataSet
        self.rng, self.evs, self.offs, self.order = gen_concat(cseed)
        self.tmps, self.parts, self.pristine, self.presel, self.hidden = [], [], [], [], []
        try:
            for i, (ev, off) in enumerate(zip(self.evs, self.offs)):
                tmp = v4.scratch_dir('c03')
                self.tmps.append(tmp)
                x = v4.build_v4(tmp=tmp, seed=i, ants=('m000', 'm001'), T=ev['T'], F=2, acts=tuple(ev['acts']),
                                targets=tuple(ev['targets']), labels=tuple(ev['labels']),
                                cbid=str(1234567890 + 1000 * i), first_timestamp=123.0 + 2.0 * off)
                self.parts.append(x.d)
            for i, d in enumerate(self.parts):
                self.pristine.append(pristine(d))
            # prior selections carried by the parts
            for i, d in enumerate(self.parts):
                applied = []
                if self.rng.random() < 0.65:
                    pob = RealObservation(d)
                    for call in gen_part_selection(self.rng, pob):
                        try:
                            with warnings.catch_warnings():
                                warnings.simplefilter('ignore')
                                d.select(**c02.py_call(call))
                            applied.append(c02.describe_call(call))
                        except Exception:      # noqa: BLE001 - select() rejecting a criterion is C02's business
                            pass
                self.presel.append(applied)
                pr = self.pristine[i]
                self.hidden.append(dict(scans=len(set(pr['scan'])) - len(d.scan_indices),
                                        compscans=len(set(pr['cscan'])) - len(d.compscan_indices)))
            self.d = ConcatenatedDataSet([self.parts[i] for i in self.order])
        except Exception:
            self.close()
            raise
        # what the statement demands of the concatenation
        exp = dict(scan=[], state=[], cscan=[], label=[], tname=[], part=[])
        s0 = c0 = 0
        for i, pr in enumerate(self.pristine):
            exp['scan'] += [x + s0 for x in pr['scan']]
            exp['cscan'] += [x + c0 for x in pr['cscan']]
            exp['state'] += pr['state']
            exp['label'] += pr['label']
            exp['tname'] += pr['tname']
            exp['part'] += [i] * pr['T']
            s0 += len(set(pr['scan']))
            c0 += len(set(pr['cscan']))
        self.exp = exp
        self.nscans, self.ncompscans = s0, c0

    def presel_class(self):
        """none | hides_scan (a part other than the last one hides a whole scan / compscan) | hides_last | other"""
        if not any(self.presel):
            return 'none'
        if any(h['scans'] or h['compscans'] for h in self.hidden[:-1]):
            return 'hides_scan'
        if self.hidden[-1]['scans'] or self.hidden[-1]['compscans']:
            return 'hides_last_only'
        return 'other'

    def close(self):
        for t in self.tmps:
            shutil.rmtree(t, ignore_errors=True)


class OpenConcatSet:
    """k HDF5 v3 (or v2) FILES with different start times opened in one go with katdal.open([...]) - the documented way
    of building a concatenation (the parts are constructed by katdal itself, in the order the file names are given,
    which is shuffled).  The structure of each part is recorded from a separate katdal.open(<one file>)."""

    def __init__(self, cseed):
        import katdal
        from fixtures import v4
        from fixtures.mkv2 import mkv2
        from fixtures.mkv3 import mkv3
        self.rng = rng = random.Random(cseed)
        self.fmt = fmt = rng.choice([3, 3, 2])
        k = rng.choice([2, 2, 3])
        self.evs = [gen_events(rng, fmt) for _ in range(k)]
        self.offs, off = [], 0
        for ev in self.evs:
            self.offs.append(off)
            off += ev['T'] + rng.choice([0, 1, 3, 10])
        self.order = list(range(k))
        rng.shuffle(self.order)
        self.tmp = v4.scratch_dir('c03')
        self.tmps = [self.tmp]
        self.presel = [[] for _ in range(k)]
        self.hidden = [dict(scans=0, compscans=0) for _ in range(k)]
        self.files, self.pristine, self._single = [], [], []
        okw = dict(centre_freq=1284e6) if fmt == 3 else {}
        try:
            for i, (ev, off) in enumerate(zip(self.evs, self.offs)):
                t0 = (1500000000.0 if fmt == 3 else 1300000000.0) + 2.0 * off
                fn = os.path.join(self.tmp, '%d.h5' % int(t0))
                (mkv3 if fmt == 3 else mkv2)(fn, T=ev['T'], F=2, t0=t0, acts=tuple(ev['acts']), targets=tuple(ev['targets']),
                                             labels=tuple(ev['labels']), seed=i)
                self.files.append(fn)
                one = katdal.open(fn, **okw)
                self._single.append(one)
                self.pristine.append(pristine(one))
                one.file.close()
            self.d = katdal.open([self.files[i] for i in self.order], **okw)
            self.parts = list(self.d.datasets)
            self.names_in_order = [os.path.basename(getattr(p, 'name', '')) for p in self.parts]
        except Exception:
            self.close()
            raise
        exp = dict(scan=[], state=[], cscan=[], label=[], tname=[], part=[])
        s0 = c0 = 0
        for i, pr in enumerate(self.pristine):
            exp['scan'] += [x + s0 for x in pr['scan']]
            exp['cscan'] += [x + c0 for x in pr['cscan']]
            exp['state'] += pr['state']
            exp['label'] += pr['label']
            exp['tname'] += pr['tname']
            exp['part'] += [i] * pr['T']
            s0 += len(set(pr['scan']))
            c0 += len(set(pr['cscan']))
        self.exp = exp
        self.nscans, self.ncompscans = s0, c0

    def presel_class(self):
        return 'none'

    def close(self):
        for p in getattr(self, 'parts', []):
            try:
                p.file.close()
            except Exception:      # noqa: BLE001
                pass
        shutil.rmtree(self.tmp, ignore_errors=True)


def run_open_concat(ctx, cseed, n_iter, only=None, note=True, use_model=True):
    try:
        cs = OpenConcatSet(cseed)
    except Exception as e:      # noqa: BLE001
        ctx.count('open_concat_failed:%s' % type(e).__name__)
        ctx.extra.setdefault('open_failed', []).append(dict(cid=('openconcat', cseed), error=repr(e)[:200]))
        return
    try:
        sgn = 'concat;via=open;fmt=v%d;parts=%d;' % (cs.fmt, len(cs.parts))
        case = dict(cid=('openconcat', cseed, n_iter, -1), events=cs.evs, start_offsets=cs.offs, order=cs.order, fmt=cs.fmt)
        ctx.traces_validated += 1
        ctx.count('open_concat_fmt=v%d' % cs.fmt)
        ctx.count('open_concat_parts=%d' % len(cs.parts))
        # the parts built by katdal.open must be in time order whatever the order of the file names
        starts = [float(p.start_time.secs) for p in cs.parts]
        if starts != sorted(starts) or len(starts) != len(cs.files):
            ctx.disagree(sgn + 'symptom=parts_not_in_time_order', case, starts, sorted(starts),
                         'the parts of katdal.open([...]) are not in time order')
        else:
            check_concat_structure(ctx, cs, case, sgn, use_model=use_model)
        if note and only is None:
            ctx.note_case(('openconcat', cseed), nontrivial=cs.nscans >= 3,
                          sample=dict(events=cs.evs, order=cs.order, fmt=cs.fmt, scans=cs.nscans, compscans=cs.ncompscans))
        if not use_model:
            return
        try:
            ob = ConcatObservation(cs.d, cs.exp)
        except AssertionError:
            ctx.count('real_obs_outside_vocabulary')
            return
        rrng = cs.rng
        for j in range(n_iter):
            hist = stack_history(rrng, ob, rrng.choice([0, 1, 1, 2]))
            mode = MODES[rrng.randrange(len(MODES))]
            if only is None or only == j:
                run_iter_case(ctx, ob, hist, mode, ('openconcat', cseed, n_iter, j), note=note,
                              extra=dict(order=cs.order, fmt=cs.fmt), sig_prefix='concat;via=open;')
    finally:
        cs.close()


def runs_of(l):
    """[(value, first, last+1)] of the maximal runs of equal values"""
    out = []
    for i, v in enumerate(l):
        if out and out[-1][0] == v:
            out[-1][2] = i + 1
        else:
            out.append([v, i, i + 1])
    return out


def check_concat_structure(ctx, cs, case, sgn, use_model=True):
    """The C03 clauses about the structure itself, on the concatenation (whole time axis selected):
    tie: run-on index sensors of the parts, concatenated index sensor, per-dump indices vs the model;
    property: indices numbered consecutively from zero in time order, every dump in exactly one scan / compscan /
    target - the ones of the part it comes from -, no scan shared by two parts, time order of the parts."""
    D = cs.d
    D.select()
    ok = True
    T = sum(pr['T'] for pr in cs.pristine)
    if [id(x) for x in D.datasets] != [id(x) for x in cs.parts]:
        ctx.disagree(sgn + 'symptom=parts_not_in_time_order', case, [cs.parts.index(x) for x in D.datasets],
                     list(range(len(cs.parts))), 'the parts of the concatenation are not in time order')
        return False
    ts = [float(t) for t in D.timestamps[:]]
    if len(ts) != T or int(D.shape[0]) != T or any(a >= b for a, b in zip(ts, ts[1:])):
        ctx.disagree(sgn + 'symptom=time_axis', case, [len(ts), int(D.shape[0])], T,
                     'the dumps of the concatenation are not those of the parts in time order')
        return False
    if use_model:
        outs = ctx.model([[33, [w, [pr[short + '_cd'] for pr in cs.pristine]]] for short, w in CONCAT_SENSORS])
    else:
        outs = [None for _ in CONCAT_SENSORS]     # no model binary at all: only the statement is checked
    for (short, w), out in zip(CONCAT_SENSORS, outs):
        name = 'Observation/' + short
        s2 = sgn + 'sensor=%s;' % short
        per_dump = [int(x) for x in D.sensor[name]]
        exp = cs.exp['scan' if w == 0 else 'cscan']
        if out is not None and (out == [-999] or len(out) != 5):
            # e.g. the last good model binary predates wire_33
            ctx.count('concat_model_error')
            out = None
        if out is not None:
            m_parts, m_cat, m_dumps, m_numbered, m_separated = out
            # ---- tie
            got_parts = [cd_wire(p.sensor.get(name), int) for p in D.datasets]
            if got_parts != [m[:3] for m in m_parts]:
                ctx.disagree(s2 + 'symptom=part_sensors_vs_model', case, got_parts, [m[:3] for m in m_parts],
                             'the run-on %s sensors of the parts differ from the model' % name, kind='tie')
                ok = False
            got_cat = cd_wire(D.sensor.get(name), int)
            if not m_cat or got_cat != m_cat[0][:3]:
                ctx.disagree(s2 + 'symptom=sensor_vs_model', case, got_cat, m_cat[0][:3] if m_cat else None,
                             'the concatenated sensor %s differs from the model' % name, kind='tie')
                ok = False
            if per_dump != m_dumps:
                ctx.disagree(s2 + 'symptom=per_dump_vs_model', case, per_dump, m_dumps,
                             'per-dump values of %s differ from the model' % name, kind='tie')
                ok = False
            if m_numbered != 1 or m_separated != 1 or m_dumps != exp:
                ctx.disagree(s2 + 'symptom=model_not_numbered', case, exp, [m_dumps, m_numbered, m_separated],
                             'the model numbering is not consecutive / collision-free / the expected one on these '
                             'parts (theorem C03_concat_numbering says it is)', kind='tie')
                ok = False
        # ---- property
        if len(per_dump) != T:
            ctx.disagree(s2 + 'symptom=not_every_dump_once', case, len(per_dump), T,
                         '%s does not give every dump exactly one value' % name)
            ok = False
            continue
        if not py_numbered(per_dump):
            ctx.disagree(s2 + 'symptom=not_consecutive', case, per_dump, exp,
                         '%s of the concatenation is not numbered consecutively from zero in time order' % name)
            ok = False
        shared = sorted(set(v for v in set(per_dump)
                            if len(set(cs.exp['part'][i] for i, x in enumerate(per_dump) if x == v)) > 1
                            or len([r for r in runs_of(per_dump) if r[0] == v]) > 1))
        if shared:
            ctx.disagree(s2 + 'symptom=index_shared', case, per_dump, exp,
                         'index %s of %s is shared by dumps of different parts / separate runs of dumps: those dumps '
                         'belong to more than one physical scan' % (shared, name))
            ok = False
        elif per_dump != exp:
            ctx.disagree(s2 + 'symptom=wrong_index', case, per_dump, exp,
                         '%s differs from the numbering of the parts shifted by the number of %ss before them'
                         % (name, short[:-6]))
            ok = False
        attr = [int(x) for x in (D.scan_indices if w == 0 else D.compscan_indices)]
        if attr != sorted(set(exp)):
            ctx.disagree(s2 + 'symptom=indices_attribute', case, attr, sorted(set(exp)),
                         '%ss listed for the whole selection are not 0 .. n-1' % short[:-6])
            ok = False
    # state / label / target of every dump are those of its part; event-indexed sensors aligned with the indices
    for name, key in (('Observation/scan_state', 'state'), ('Observation/label', 'label')):
        got = [str(x) for x in D.sensor[name]]
        if got != cs.exp[key]:
            ctx.disagree(sgn + 'sensor=%s;symptom=per_dump' % key, case, got, cs.exp[key],
                         'per-dump %s of the concatenation differs from that of the parts' % name)
            ok = False
        idx_name = 'Observation/scan_index' if key == 'state' else 'Observation/compscan_index'
        ev_a, ev_b = [int(e) for e in D.sensor.get(name).events], [int(e) for e in D.sensor.get(idx_name).events]
        if ev_a != ev_b:
            ctx.disagree(sgn + 'sensor=%s;symptom=events_not_aligned' % key, case, ev_a, ev_b,
                         'events of %s and %s differ: the generators look the %s up by event number' % (name, idx_name, key))
            ok = False
    got = [str(t.name) for t in D.sensor['Observation/target']]
    gi = [int(x) for x in D.sensor['Observation/target_index']]
    cat = [str(t.name) for t in D.catalogue.targets]
    if got != cs.exp['tname'] or [cat[i] if 0 <= i < len(cat) else None for i in gi] != cs.exp['tname']:
        ctx.disagree(sgn + 'sensor=target;symptom=per_dump', case, [got, gi, cat], cs.exp['tname'],
                     'per-dump target / target_index of the concatenation differ from those of the parts')
        ok = False
    return ok


def run_concat(ctx, cseed, n_iter, only=None, note=True, use_model=True):
    try:
        cs = ConcatSet(cseed)
    except Exception as e:      # noqa: BLE001
        ctx.count('concat_open_failed:%s' % type(e).__name__)
        ctx.extra.setdefault('open_failed', []).append(dict(cid=('concat', cseed), error=repr(e)[:200]))
        return
    try:
        pcl = cs.presel_class()
        sgn = 'concat;parts=%d;presel=%s;' % (len(cs.parts), pcl)
        case = dict(cid=('concat', cseed, n_iter, -1), events=cs.evs, start_offsets=cs.offs, order=cs.order,
                    part_selections=cs.presel, hidden=cs.hidden)
        ctx.traces_validated += 1
        ctx.count('concat_parts=%d' % len(cs.parts))
        ctx.count('concat_presel=' + pcl)
        check_concat_structure(ctx, cs, case, sgn, use_model=use_model)
        if note and only is None:
            ctx.note_case(('concat', cseed), nontrivial=cs.nscans >= 3 and pcl != 'none',
                          sample=dict(events=cs.evs, order=cs.order, part_selections=cs.presel, scans=cs.nscans,
                                      compscans=cs.ncompscans))
        if not use_model:
            return
        try:
            ob = ConcatObservation(cs.d, cs.exp)
        except AssertionError:
            ctx.count('real_obs_outside_vocabulary')
            return
        if ob.tgt_ambiguous:
            ctx.count('concat_target_names_ambiguous')
        rrng = cs.rng
        for j in range(n_iter):
            n = rrng.choice([0, 1, 1, 2, 3])
            hist = stack_history(rrng, ob, n)
            mode = MODES[rrng.randrange(len(MODES))]
            if only is None or only == j:
                run_iter_case(ctx, ob, hist, mode, ('concat', cseed, n_iter, j), note=note,
                              extra=dict(part_selections=cs.presel, order=cs.order), sig_prefix='concat;')
    finally:
        cs.close()


# ---------------------------------------------------------------------------------------------------------------

def run_witness(ctx, w):
    if w.get('kind') == 'f4':
        ob, hist, mode = f4_witness_case(w)
        run_iter_case(ctx, ob, hist, mode, ('witness', repr(sorted(w.items()))), note=False)
    elif w.get('kind') == 'first_target':
        ev = w['events']
        rs = run_seg_case(ctx, ev, ('witness-seg', repr(ev)), note=False)
        if rs is not None:
            try:
                run_iter_case(ctx, RealObservation(rs.d), [], ('compscans', None), ('witness', 'first_target'), note=False)
            finally:
                rs.close()


def run(ctx):
    logging.getLogger('katdal').setLevel(logging.ERROR)
    logging.getLogger('katpoint').setLevel(logging.ERROR)
    if not ctx.model_ok and not c02.search_without_model(ctx):
        # no model binary at all (e.g. a fresh build on a tree whose translator item fails): the clauses about the
        # structure of a concatenation need no model - search them for a concrete failing input
        for _ in range(ctx.scale(40, 500)):
            run_concat(ctx, ctx.rng.randrange(1 << 30), 0, use_model=False)
        return
    rng = ctx.rng
    import time
    t_last = [time.time()]
    walls = ctx.extra.setdefault('stream_wall_s', {})

    def lap(name):
        now = time.time()
        walls[name] = round(now - t_last[0], 1)
        t_last[0] = now
    for f in ctx.findings:
        run_witness(ctx, f['witness'])
    lap('witnesses')
    # (a) harness DataSet
    nobs = ctx.scale(30, 400)
    nhist = ctx.scale(20, 25)
    for _ in range(nobs):
        oseed = rng.randrange(1 << 30)
        ob, cases = harness_cases(oseed, nhist)
        for j, (hist, mode) in enumerate(cases):
            run_iter_case(ctx, ob, hist, mode, ('harness', oseed, nhist, j))
        ctx.count('observations')
    lap('a_harness_dataset')
    # (d) selecting bodies and abandoned iterations
    nbody = ctx.scale(25, 300)
    for _ in range(nbody):
        bseed = rng.randrange(1 << 30)
        ob, cases = body_cases(bseed, 8)
        for j, (hist, outer, cls, body, brk, how) in enumerate(cases):
            run_body_case(ctx, ob, hist, outer, cls, body, brk, how, ('body', bseed, 8, j))
    lap('d_bodies_breaks')
    # (d') nested loops with a break in the inner loop (tie only)
    for _ in range(ctx.scale(10, 120)):
        bseed = rng.randrange(1 << 30)
        ob, cases = inner_break_cases(bseed, 6)
        for j, (hist, outer, inner, brk) in enumerate(cases):
            run_inner_break_case(ctx, ob, hist, outer, inner, brk, ('innerbreak', bseed, 6, j))
    lap('d2_inner_breaks')
    # (f) histories of mixed operations: the stored index attributes against the model with stored attributes
    for _ in range(ctx.scale(25, 300)):
        fseed = rng.randrange(1 << 30)
        ob, cases = ops_cases(fseed, 8)
        for j, (ops, which) in enumerate(cases):
            run_ops_case(ctx, ob, ops, which, ('ops', fseed, 8, j))
    lap('f_index_attr_histories')
    # (b) real format classes: segmentation + iterators
    nreal = ctx.scale(90, 1200)
    for _ in range(nreal):
        run_real(ctx, rng.randrange(1 << 30), 3)
    nv1 = ctx.scale(6, 60)
    for _ in range(nv1):
        vseed = rng.randrange(1 << 30)
        run_v1_case(ctx, gen_v1(random.Random(vseed)), ('v1', vseed))
    lap('b_real_formats')
    # (c) concatenated data sets: structure + iterators
    ncat = ctx.scale(40, 500)
    for _ in range(ncat):
        run_concat(ctx, rng.randrange(1 << 30), 3)
    lap('c_concatenations')
    # (e) concatenations built by katdal.open([file, file, ...]) from HDF5 files
    for _ in range(ctx.scale(10, 150)):
        run_open_concat(ctx, rng.randrange(1 << 30), 2)
    lap('e_open_concatenations')
    if ctx.tier == 'thorough':
        crosscheck_in_coq(ctx)


def crosscheck_in_coq(ctx):
    """a sample of iterator cases evaluated inside Coq (vm_compute) against the extracted model"""
    from vh import core
    rng = random.Random(ctx.seed)
    cases = []
    for _ in range(12):
        ob, hc = harness_cases(rng.randrange(1 << 30), 2)
        st_w, lb_w = obs_cds(ob.d)
        for hist, (outer, inner) in hc:
            cases.append([3, [ob.wire(), st_w, lb_w, [c02.wire_call(c) for c in hist], 1 if inner else 0, WHICH[outer],
                              WHICH[inner] if inner else 0]])
    with core.BuildLock():
        tg = ' '.join(x[:-2] + '.vo' for x in core.coq_sources() if x.startswith(('Base/', 'Gen/', 'Model/')))
        core.sh('timeout 1500 make -j4 %s' % tg, cwd=core.COQ, timeout=1600)
        core.sh('timeout 600 coqc -Q . KV Extract/Dispatch.v', cwd=core.COQ, timeout=700)
    a = ctx.model(cases)
    b = core.run_model_in_coq(cases, 'c03')
    for c, x, y in zip(cases, a, b):
        if x != y:
            ctx.disagree('extraction_mismatch', dict(case=c), x, y, 'extracted model differs from vm_compute', kind='tie')
    ctx.extra['in_coq_crosscheck'] = len(cases)


def replay(ctx, doc):
    logging.getLogger('katdal').setLevel(logging.ERROR)
    logging.getLogger('katpoint').setLevel(logging.ERROR)
    case = doc.get('case') or {}
    cid = case.get('cid')
    if 'witness' in doc and not cid:
        return run_witness(ctx, doc['witness'])
    if not cid:
        return
    kind = cid[0]
    if kind == 'harness':
        _, oseed, nhist, j = cid
        ob, cases = harness_cases(oseed, nhist)
        run_iter_case(ctx, ob, cases[j][0], cases[j][1], tuple(cid))
    elif kind == 'body':
        _, bseed, n, j = cid
        ob, cases = body_cases(bseed, n)
        hist, outer, cls, body, brk, how = cases[j]
        run_body_case(ctx, ob, hist, outer, cls, body, brk, how, tuple(cid))
    elif kind == 'innerbreak':
        _, bseed, n, j = cid
        ob, cases = inner_break_cases(bseed, n)
        hist, outer, inner, brk = cases[j]
        run_inner_break_case(ctx, ob, hist, outer, inner, brk, tuple(cid))
    elif kind == 'ops':
        _, fseed, n, j = cid
        ob, cases = ops_cases(fseed, n)
        run_ops_case(ctx, ob, cases[j][0], cases[j][1], tuple(cid))
    elif kind == 'seg':
        run_real(ctx, cid[1], 0)
    elif kind == 'real':
        run_real(ctx, cid[1], cid[2], only=cid[3])
    elif kind == 'v1':
        run_v1_case(ctx, gen_v1(random.Random(cid[1])), tuple(cid))
    elif kind == 'concat':
        have_model = ctx.model_ok or c02.search_without_model(ctx)
        run_concat(ctx, cid[1], cid[2] if len(cid) > 2 else 3, only=cid[3] if len(cid) > 3 else -1,
                   use_model=have_model)
    elif kind == 'openconcat':
        have_model = ctx.model_ok or c02.search_without_model(ctx)
        run_open_concat(ctx, cid[1], cid[2] if len(cid) > 2 else 2, only=cid[3] if len(cid) > 3 else -1,
                        use_model=have_model)
    elif kind in ('witness', 'witness-seg'):
        for f in ctx.findings:
            run_witness(ctx, f['witness'])
