"""C12, extension round 2: correspondence for Model/SensorNum.v (entry from props/c12.py:run).

(l) `num`  - ONE sensor read through the public API (SensorCache.get(name, select, extract, **props), cache[name],
    getter.get() before and after): float / int / bool samples, the `categorical` property given or not, an
    `initial_value` of every type given as keyword, in the property map under the name or under a wildcard key, samples
    entirely before / after / between the dumps, every status, duplicates, unsorted, empty.  Observables: the KIND of
    the result (ndarray / CategoricalData / exception), its DTYPE, every value, the cached full-length result
    (cache.get(name) afterwards), the raw samples.  Compared with the model (wire_128 case 1: extract_t), with the
    Coq spec (spec_numeric: clean-up and interpolation written independently, no dummy branch, no initial_value), with
    a Python statement of the documented rule, and METAMORPHICALLY: the same cache read without the initial_value.
(m) `azel` - the REAL _calc_azel / _calc_mjd of the four format modules (module.VIRTUAL_SENSORS) on a SensorCache whose
    source sensors are raw getters: histories of get / cache[name] / _set_keep over az, el, mjd and the SOURCE sensors
    for two antennas, against the model with the arithmetic INSIDE (wire_128 case 2: exact rationals, pi = float64 pi):
    every result, every cached array after the history (source sensors included), the raw samples.
"""
import json
import math
from fractions import Fraction

import numpy as np

from props import c12 as B

AZEL_RTOL = 4e-16       # relative: fl(pi/180) and one product, 2^-52 in all
MJD_TOL = 1e-9          # days (ephem's date arithmetic), as in the builtin family
SMALL_TOL = 1e-12       # bool / small-int samples: slopes 1/d are not dyadic

FMT = {'v1': ('katdal.h5datav1', 'Antennas/%s/pos_actual_scan_azim', 'Antennas/%s/pos_actual_scan_elev'),
       'v2': ('katdal.h5datav2', 'Antennas/%s/pos.actual-scan-azim', 'Antennas/%s/pos.actual-scan-elev'),
       'v3': ('katdal.h5datav3', 'Antennas/%s/pos_actual_scan_azim', 'Antennas/%s/pos_actual_scan_elev'),
       'v4': ('katdal.visdatav4', '%s_pos_actual_scan_azim', '%s_pos_actual_scan_elev')}
PI64 = Fraction(math.pi)


# ---------------------------------------------------------------------------------------------- documented rule in Python
def doc_clean(samples, has_status, off):
    """[(t, v)] survivors in time order: last sample of each timestamp, readable status (first 7 characters)"""
    out = {}
    for i, (t, v, st) in enumerate(samples):
        out[t + off] = (i, v, st)
    keep = [(t, v) for t, (i, v, st) in out.items() if not has_status or st[:7] in B.DOC_VALID]
    return sorted(keep)


def doc_interp(nodes, x):
    if x <= nodes[0][0]:
        return nodes[0][1]
    if x >= nodes[-1][0]:
        return nodes[-1][1]
    for (x0, y0), (x1, y1) in zip(nodes, nodes[1:]):
        if x0 <= x <= x1:
            return ((x1 - x) * y0 + (x - x0) * y1) / (x1 - x0)
    raise AssertionError


# ---------------------------------------------------------------------------------------------- (l) num
def eff_props(case):
    p = {}
    for (_k, q) in case['pm']:
        p.update({k: v for k, v in q.items() if v is not None})
    p.update({k: v for k, v in case['kw'].items() if v is not None})
    return p


def obs_full(fn):
    from katdal.categorical import CategoricalData
    try:
        r = fn()
    except KeyError as e:
        return ('err', 'key', repr(e))
    except (ValueError, TypeError) as e:
        return ('err', 'type', repr(e))
    except Exception as e:
        return ('err', 'other', repr(e))
    if isinstance(r, CategoricalData):
        return ('cat', [getattr(u, 'unwrapped', u) for u in r.unique_values])
    if isinstance(r, np.ndarray):
        return ('arr', r.dtype.str, [None if (r.dtype.kind == 'f' and np.isnan(x)) else x for x in r.tolist()])
    return ('other', repr(r))


def vals_close(got, want, tol):
    if len(got) != len(want):
        return False
    for g, w in zip(got, want):
        if w is None or g is None:
            if not (w is None and g is None):
                return False
        elif tol == 0:
            if Fraction(g) != w:
                return False
        elif abs(Fraction(g) - w) > tol:
            return False
    return True


def num_sig(case, symptom, usable):
    p = eff_props(case)
    return 'kind=num;dtype=%s;cat=%s;init=%s;usable=%d;symptom=%s' % (
        case['getter']['dtype'], {None: 'default', True: 'true', False: 'false'}[p.get('cat')],
        p['init'][0] if p.get('init') else 'none', 1 if usable else 0, symptom)


def run_num(ctx, case):
    g, e = case['getter'], case['epoch']
    p = eff_props(case)
    # the pm of a num case addresses the sensor by its own name or by '*' (both apply to it)
    mo = ctx.model([[128, [1, B.w_getter(g, e), [B.wq(B.tval(e, k)) for k in case['ts']], B.w_props(p)]]])[0] \
        if ctx.model_ok else None
    tol = 0 if case['family'] == 'exact' else Fraction(SMALL_TOL)
    ts = [B.tval(e, k) for k in case['ts']]
    off = Fraction(p.get('off') or 0) / 4
    samples = [(B.tval(e, k), Fraction(v), st) for (k, v, st) in g['samples']]
    nodes = doc_clean(samples, g['status'], off)
    # the dtype the decision looks at: that of the samples, or of the dummy built from initial_value when nothing is usable
    dt_eff = g['dtype'] if (nodes or p.get('init') is None) else p['init'][0]
    numeric = (not p['cat']) if p.get('cat') is not None else dt_eff == 'float'
    doc = [doc_interp(nodes, t) for t in ts] if nodes else None
    if mo is not None:
        m_usable = mo[2]
        if (m_usable > 0) != bool(nodes):
            ctx.disagree(num_sig(case, 'model_vs_documented_cleanup', bool(nodes)), case, None, mo[2],
                         'model and the documented clean-up disagree on whether the sensor has usable samples', kind='tie')
            return False
        if nodes and numeric and mo[0][0] == 0:
            mv = [B.unq(x) for x in mo[0][2]]
            sv = [B.unq(x) for x in mo[3]]
            if mv != doc or sv != doc:
                ctx.disagree(num_sig(case, 'model_vs_spec', True), case, None, dict(model=str(mv), spec=str(sv), doc=str(doc)),
                             'extract_t, spec_numeric and the documented rule disagree', kind='tie')
                return False
    impl = B.Impl()
    try:
        desc = dict(epoch=e, getters=[g], raw=[(case['name'], 0)], ts=case['ts'], keep=case['keep'],
                    props=case['pm'], virt=[], gname=None)
        sc, getters = impl.cache(desc)
        before = B.snapshot(getters[0])
        kw = B.py_kwargs(case['kw'])
        first = obs_full(lambda: sc.get(case['name'], select=case['select'], **kw))
        cached = obs_full(lambda: sc.get(case['name']))
        item = obs_full(lambda: sc[case['name']])
        after = B.snapshot(getters[0])
        ctx.traces_validated += 1
        usable = bool(nodes)
        keep = case['keep']

        def restrict(l, sel):
            return [x for x, b in zip(l, keep) if b] if sel else list(l)

        def bad(sym, got, want, what, kind='property'):
            ctx.disagree(num_sig(case, sym, usable), case, B._j(got), want, what, kind=kind)
            return False
        if before != after:
            return bad('raw_samples_altered', [str(x) for x in after[0]], [str(x) for x in before[0]],
                       'raw samples differ after the read (extraction must not alter them)')
        # ---- expectation
        want = None            # full-length list of Fractions / None (NaN), when the read is numeric and in the model's domain
        if usable and numeric:
            want = doc
        elif not usable and numeric:
            init = p.get('init')
            if init is None:
                want = {'float': [None] * len(ts), 'int': [Fraction(-1)] * len(ts), 'bool': [Fraction(0)] * len(ts)}[g['dtype']]
            elif init[0] == 'float':
                want = [Fraction(init[1])] * len(ts)
            elif init[0] in ('int', 'bool'):
                want = [Fraction({'int': int(init[1]), 'bool': 1}[init[0]])] * len(ts)
        if mo is not None and want is not None and mo[0][0] == 0:
            if mo[0][1] != 0 or [B.unq(x) for x in mo[0][2]] != want:
                return bad('model_vs_documented', None, dict(model=mo[0], doc=str(want)),
                           'model and documented rule disagree', kind='tie')
        if want is not None:
            for label, obs, sel in (('get', first, case['select']), ('cached', cached, False), ('item', item, True)):
                if obs[0] == 'err':
                    return bad('raises_' + obs[1], obs, str(want), '%s raised on a numeric read' % label)
                if obs[0] != 'arr':
                    return bad('kind_' + obs[0], obs, str(want), '%s: numeric read did not return an array' % label)
                if obs[1] != '<f8':
                    return bad('result_dtype', obs, 'float64', '%s: the interpolated result must be float64, found %s'
                               % (label, obs[1]))
                if not vals_close(obs[2], restrict(want, sel), tol):
                    return bad('values_differ' if label != 'cached' else 'cached_values_differ', obs,
                               [str(x) for x in restrict(want, sel)],
                               '%s: values differ from the documented interpolation' % label)
            # metamorphic: the same sensor without the initial_value, when it has usable samples
            if usable and p.get('init') is not None:
                desc2 = dict(desc, props=[(k, {a: b for a, b in q.items() if a != 'init'}) for (k, q) in case['pm']])
                sc2, _g2 = impl.cache(desc2)
                kw2 = {k: v for k, v in kw.items() if k != 'initial_value'}
                second = obs_full(lambda: sc2.get(case['name'], select=case['select'], **kw2))
                if second != first:
                    return bad('initial_value_acts', first, B._j(second),
                               'a sensor with usable samples read with and without initial_value gives different results')
                ctx.count('num:metamorphic_initial_value')
        else:
            # categorical decision (values are C10's) or out of the modelled domain: only the decision is compared
            if not numeric and first[0] == 'arr' and not case['select']:
                return bad('decision_numeric_instead_of_categorical', first, 'CategoricalData',
                           'a categorical read returned an array')
        ctx.count('num:dtype=%s;usable=%d;numeric=%d' % (g['dtype'], usable, numeric))
        return want is not None and usable
    finally:
        impl.close()


def gen_num(rng):
    dtype = rng.choice(['float', 'float', 'int', 'int', 'bool', 'bool', 'smallint'])
    family = 'exact' if dtype in ('float', 'int') and rng.random() < 0.8 else 'small'
    if dtype == 'smallint':
        dtype, family = 'int', 'small'
    if dtype == 'bool':
        family = 'small'
    status = rng.random() < 0.5
    lo = rng.choice([0, 0, 0, 10, 30])          # samples start at / after / long after the first dump
    n = rng.choice([0, 1, 1, 2, 2, 3, 4, 5, 6])
    samples = []
    for _ in range(n):
        k = rng.choice(samples)[0] if samples and rng.random() < 0.25 else rng.randint(lo, lo + 24)
        if family == 'exact':
            v = rng.randint(-40, 40) * B.L24
        elif dtype == 'bool':
            v = rng.randint(0, 1)
        elif dtype == 'int':
            v = rng.randint(-3, 9)
        else:
            v = Fraction(rng.randint(-64, 64), 8)
        st = rng.choice(B.STATUSES[:3] * 4 + B.STATUSES) if status else ''
        samples.append((k, v, st))
    if rng.random() < 0.3:
        samples.sort(key=lambda s: s[0])
    if family == 'small':
        # keep the cleaned node gaps small enough that 1e-12 covers the float64 rounding of slope * dx
        pass
    kind = rng.choice(['simple', 'rec'])
    g = dict(kind=kind, dtype=dtype, status=status, samples=samples, swidth=rng.choice([7, 12]), ustatus=False)
    start = rng.choice([-20, -6, 0, 4, 12, 40])
    step = rng.choice([1, 2, 3, 4])
    ts = [start + i * step for i in range(rng.randint(1, 7))]
    keep = [rng.random() < 0.6 for _ in ts]

    def some_props(p_init):
        q = {}
        if rng.random() < 0.35:
            q['off'] = rng.randint(-4, 4)
        r = rng.random()
        if r < 0.5:
            q['cat'] = False
        elif r < 0.6:
            q['cat'] = True
        if rng.random() < p_init:
            q['init'] = rng.choice([('float', rng.randint(-5, 5) * B.L24), ('float', 99), ('float', Fraction(7, 2)),
                                    ('int', 7), ('bool', 1), ('str', 0)])
        return q
    where = rng.choice(['kw', 'kw', 'name', 'wild', 'both'])
    name = rng.choice(['a/x', 'b/temperature', 'anc_air_temperature'])
    pm, kw = [], {}
    if where in ('name', 'both'):
        pm.append((name, some_props(0.6)))
    if where == 'wild':
        pm.append((rng.choice(['*', name[:2] + '*', '*' + name[-3:]]), some_props(0.6)))
    if where in ('kw', 'both'):
        kw = some_props(0.6)
    return dict(kind='num', family=family, epoch=rng.choice([0, 1500000000]), name=name, getter=g, ts=ts, keep=keep,
                pm=pm, kw=kw, select=rng.random() < 0.4)


def scripted_num():
    out = []
    base = dict(kind='num', family='exact', epoch=0, name='a/x', ts=[0, 2, 4, 8, 12], keep=[True, False, True, True, False],
                pm=[], kw={}, select=False)

    def G(dtype, samples, status=False):
        return dict(kind='simple', dtype=dtype, status=status, samples=samples, swidth=7, ustatus=False)
    late = [(8, 10 * B.L24, ''), (16, 20 * B.L24, '')]
    for init in [('float', 99), ('int', 7), ('bool', 1), ('float', -3 * B.L24)]:
        for where in ('kw', 'name', 'wild'):
            c = dict(base, getter=G('float', late))
            if where == 'kw':
                c['kw'] = dict(init=init)
            else:
                c['pm'] = [('a/x' if where == 'name' else '*', dict(init=init))]
            out.append(c)
            out.append(dict(c, getter=G('int', late), kw=dict(c['kw'], cat=False)))
    out.append(dict(base, getter=G('int', [(0, 0, ''), (16, B.L24, '')]), kw=dict(cat=False)))
    out.append(dict(base, family='small', getter=G('int', [(0, 0, ''), (16, 1, '')]), kw=dict(cat=False), select=True))
    out.append(dict(base, family='small', getter=G('bool', [(0, 0, ''), (8, 1, ''), (16, 0, '')]), kw=dict(cat=False)))
    out.append(dict(base, family='small', getter=G('bool', [(4, 1, 'failure')], status=True), kw=dict(cat=False)))
    out.append(dict(base, getter=G('int', [(4, B.L24, 'unknown')], status=True), kw=dict(cat=False)))
    out.append(dict(base, getter=G('float', [(4, B.L24, 'unknown')], status=True), kw=dict(init=('float', 99))))
    out.append(dict(base, getter=G('float', []), kw=dict(init=('float', 99))))
    return out


# ---------------------------------------------------------------------------------------------- (m) azel
def unqb(x):
    """rational sent as base-2^30 limbs (sign first, least significant limb next)"""
    if x == []:
        return None

    def z(l):
        return l[0] * sum(d << (30 * i) for i, d in enumerate(l[1:]))
    return Fraction(z(x[0]), z(x[1]))


def azel_names(case):
    """{name: ('az'|'el'|'mjd'|'src', source name or None)} for the antennas of the case"""
    mod, azf, elf = FMT[case['fmt']]
    d = {'Timestamps/mjd': ('mjd', None)}
    for ant in case['ants']:
        d['Antennas/%s/az' % ant] = ('az', azf % ant)
        d['Antennas/%s/el' % ant] = ('el', elf % ant)
        d[azf % ant] = ('src', None)
        d[elf % ant] = ('src', None)
    return d


def azel_desc(case):
    names = azel_names(case)
    virt = [dict(names=['Timestamps/mjd'], srcs=[], fid=0)]
    for n, (k, src) in sorted(names.items()):
        if k in ('az', 'el'):
            virt.append(dict(names=[n], srcs=[src], fid=1))
    return dict(epoch=case['epoch'], getters=case['getters'], raw=[(n, i) for (n, i) in case['raw']], ts=case['ts'],
                keep=case['keep'], props=[], virt=virt, gname=None)


def azel_tol(kind, want):
    if kind == 'mjd':
        return Fraction(MJD_TOL)
    if kind == 'src':
        return 0
    return abs(want) * Fraction(AZEL_RTOL)


def azel_cmp(kind, got, want):
    """got: list of float/None, want: list of Fraction/None"""
    if len(got) != len(want):
        return 'length_differs'
    for g, w in zip(got, want):
        if (g is None) != (w is None):
            return 'nan_differs'
        if g is None:
            continue
        if abs(Fraction(g) - w) > azel_tol(kind, w):
            return 'values_differ'
    return None


def run_azel(ctx, case):
    import importlib
    from katdal.sensordata import SensorCache
    desc = azel_desc(case)
    names = azel_names(case)
    ops = [tuple(o) for o in case['ops']]
    mo = ctx.model([[128, [2, B.w_cache(desc), [B.w_op(o) for o in ops]]]])[0]
    mres, mentries = mo[0], mo[1]
    mod = importlib.import_module(FMT[case['fmt']][0])
    impl = B.Impl()
    nontrivial = False

    def sig(name, sym, selected):
        return 'kind=azel;fmt=%s;sensor=%s;selected=%d;symptom=%s' % (case['fmt'], names.get(name, ('other',))[0],
                                                                      int(bool(selected)), sym)
    try:
        e = case['epoch']
        getters = [impl.getter(g, e, 'g%d' % i) for i, g in enumerate(case['getters'])]
        raw = {n: getters[i] for (n, i) in case['raw']}
        ts = np.array([float(B.tval(e, k)) for k in case['ts']])
        sc = SensorCache(raw, ts, 1.0, keep=np.array(case['keep'], dtype=bool), props={}, virtual=dict(mod.VIRTUAL_SENSORS))
        before = [B.snapshot(g) for g in getters]
        for i, o in enumerate(ops):
            obs = B.apply_op(sc, getters, o)
            m = mres[i]
            if o[0] == 'setkeep':
                continue
            name = o[1]
            selected = o[0] == 'item' or (o[0] == 'get' and o[2])
            if m[0] == 3:
                want_err = {0: 'key', 1: 'value'}.get(m[1])
                if want_err is None:
                    ctx.count('azel:skipped_model_out_of_domain')
                    return nontrivial
                if not (obs[0] == 'err' and obs[1] == want_err):
                    ctx.disagree(sig(name, 'expected_%s_error' % want_err, selected), dict(case, failing_op=i), B._j(obs), m,
                                 'op %d %r: expected %sError' % (i, o[:2], want_err.capitalize()))
                    return nontrivial
                continue
            if m[0] == 2:
                if obs != ('getter', m[1]):
                    ctx.disagree(sig(name, 'getter_identity', selected), dict(case, failing_op=i), B._j(obs), m,
                                 'op %d %r: extract=False must hand out the getter' % (i, o[:2]))
                    return nontrivial
                continue
            if m[0] != 0:
                ctx.count('azel:skipped_model_out_of_domain')
                return nontrivial
            want = [unqb(x) for x in m[1]]
            if obs[0] != 'vals':
                ctx.disagree(sig(name, 'raises_' + obs[1] if obs[0] == 'err' else 'kind_' + obs[0], selected),
                             dict(case, failing_op=i), B._j(obs), [str(x) for x in want],
                             'op %d %r did not return a float array' % (i, o[:2]))
                return nontrivial
            sym = azel_cmp(names.get(name, ('src',))[0], [None if x is None else float(x) for x in obs[1]], want)
            if sym:
                ctx.disagree(sig(name, sym, selected), dict(case, failing_op=i), B._j(obs), [str(x) for x in want],
                             'op %d %r: %s differs from the documented function of the source sensor '
                             '(deg2rad of the source at every dump / t/86400+40587)' % (i, o[:2], name))
                return nontrivial
            nontrivial = nontrivial or len(want) > 0
            ctx.count('azel:op=%s;sensor=%s' % (o[0], names.get(name, ('other',))[0]))
        # every cached array after the history, SOURCE sensors included
        for ent in mentries:
            name = ''.join(map(chr, ent[0]))
            if ent[1][0] != 1:
                continue
            want = [unqb(x) for x in ent[1][1]]
            got = sc._raw.get(name)
            if not isinstance(got, np.ndarray):
                ctx.disagree(sig(name, 'cache_entry_kind', 0), dict(case, failing_op='final'), repr(type(got)), 'array',
                             'after the history %s is not cached as an array' % name)
                return nontrivial
            sym = azel_cmp(names.get(name, ('src',))[0], [None if np.isnan(x) else float(x) for x in got], want)
            if sym:
                ctx.disagree(sig(name, 'cached_' + sym, 0), dict(case, failing_op='final'),
                             [None if np.isnan(x) else float(x) for x in got], [str(x) for x in want],
                             'after the history the cached array of %s differs (a virtual sensor must not alter its '
                             'source sensors; repeated access must return the same values)' % name)
                return nontrivial
        after = [B.snapshot(g) for g in getters]
        if before != after:
            ctx.disagree(sig('', 'raw_samples_altered', 0), dict(case, failing_op='final'), None, None,
                         'raw samples of a source getter differ after the history')
            return nontrivial
        ctx.traces_validated += 1
    finally:
        impl.close()
    return nontrivial


def gen_azel(rng):
    fmt = rng.choice(sorted(FMT))
    ants = rng.sample(['m000', 'm001', 'ant1'], rng.randint(1, 2))
    epoch = rng.choice([0, 1500000000])
    n = rng.randint(1, 7)
    start = rng.randint(0, 12)
    ks, k = [], start
    for _ in range(n):
        ks.append(k)
        k += rng.choice([1, 2, 4, 4, 4, 9])
    getters, raw = [], []
    mod, azf, elf = FMT[fmt]
    for ant in ants:
        for f in (azf, elf):
            mode = rng.random()
            exact_at_dumps = mode < 0.6
            if exact_at_dumps:    # sampled at every dump (interpolation exact at nodes), realistic degrees on a 1/64 lattice
                samples = [(kk, Fraction(rng.randint(-540 * 64, 540 * 64), 64), '') for kk in ks]
                if rng.random() < 0.3:    # extra samples outside the dump range / duplicates that lose against the last one
                    samples = [(ks[0] - 3, Fraction(7, 64), ''), (ks[-1] + 5, Fraction(-9, 64), '')] + samples
                    samples.insert(0, (ks[0], Fraction(1234, 64), ''))
                if rng.random() < 0.3:
                    rng.shuffle(samples)
            elif mode < 0.9:      # sparse: interpolation exact by construction (values multiples of lcm(1..24))
                samples = [(rng.randint(0, 24), rng.randint(-40, 40) * B.L24, '') for _ in range(rng.randint(1, 5))]
            else:
                samples = []      # no samples at all: NaN dummy, az stays NaN
            status = rng.random() < 0.3
            if status:
                pool = B.STATUSES[:3] if exact_at_dumps else B.STATUSES[:3] * 3 + B.STATUSES
                samples = [(a, b, rng.choice(pool)) for (a, b, _c) in samples]
            getters.append(dict(kind=rng.choice(['simple', 'rec']), dtype='float', status=status, samples=samples,
                                swidth=12, ustatus=False))
            raw.append((f % ant, len(getters) - 1))
    case = dict(kind='azel', fmt=fmt, ants=ants, epoch=epoch, getters=getters, raw=raw, ts=ks,
                keep=[rng.random() < 0.6 for _ in ks])
    pool = sorted(azel_names(case))
    ops = []
    for _ in range(rng.randint(2, 9)):
        r = rng.random()
        nm = rng.choice(pool) if rng.random() < 0.93 else rng.choice(['Antennas/zz/az', 'Antennas/zz/el', 'nope'])
        if r < 0.45:
            sel = rng.random() < 0.4
            ops.append(('get', nm, sel, True if sel else rng.random() < 0.85, {}))
        elif r < 0.85:
            ops.append(('item', nm))
        else:
            ops.append(('setkeep', None if rng.random() < 0.1 else [rng.random() < 0.5 for _ in ks]))
    # always end by re-reading the sources and the virtual sensors of one antenna
    a = ants[0]
    ops += [('get', azf % a, False, True, {}), ('get', 'Antennas/%s/az' % a, False, True, {}),
            ('item', 'Antennas/%s/el' % a), ('get', elf % a, False, True, {})]
    case['ops'] = ops
    return case


def scripted_azel():
    out = []
    for fmt in sorted(FMT):
        mod, azf, elf = FMT[fmt]
        ks = [0, 4, 8, 13]
        g = [dict(kind='simple', dtype='float', status=False, swidth=12, ustatus=False,
                  samples=[(k, Fraction(d), '') for k, d in zip(ks, degs)])
             for degs in ([180, -90, 359, 0], [90, 45, Fraction(1, 64), 93])]
        az, el = 'Antennas/m000/az', 'Antennas/m000/el'
        for ops in ([('get', azf % 'm000', False, True, {}), ('item', az), ('get', azf % 'm000', False, True, {}),
                     ('get', az, False, True, {}), ('item', el), ('get', elf % 'm000', True, True, {})],
                    [('item', az), ('item', el), ('get', azf % 'm000', False, True, {}), ('setkeep', [True, False, False, True]),
                     ('item', az), ('item', azf % 'm000'), ('get', 'Timestamps/mjd', True, True, {}), ('item', az)],
                    [('get', azf % 'm000', False, False, {}), ('get', az, True, True, {}), ('get', az, False, True, {})]):
            out.append(dict(kind='azel', fmt=fmt, ants=['m000'], epoch=1500000000, getters=g,
                            raw=[(azf % 'm000', 0), (elf % 'm000', 1)], ts=ks, keep=[True, True, False, True], ops=ops))
    return out


# ---------------------------------------------------------------------------------------------- (n) linear conversion law
def run_scale(ctx, rng, n):
    """interp of converted samples = converted interp, on np.interp itself (exact domain), and in the model"""
    wire, cases = [], []
    for _ in range(n):
        ks = sorted(rng.sample(range(0, 25), rng.randint(1, 6)))
        nodes = [(Fraction(k, 4), Fraction(rng.randint(-40, 40) * B.L24)) for k in ks]
        xs = [Fraction(rng.randint(-8, 110), 4) for _ in range(5)]
        c = Fraction(rng.choice([2, -3, 5, Fraction(1, 4), 64]))
        cases.append((c, nodes, xs))
        wire.append([128, [3, B.wq(c), [[B.wq(a), B.wq(b)] for a, b in nodes], [B.wq(x) for x in xs]]])
    for (c, nodes, xs), m in zip(cases, ctx.model(wire)):
        a = [B.unq(x) for x in m[0]]
        b = [B.unq(x) for x in m[1]]
        xp = np.array([float(t) for t, _ in nodes])
        got = np.interp(np.array([float(x) for x in xs]), xp, np.array([float(c * v) for _, v in nodes]))
        if a != b or [Fraction(float(x)) for x in got] != a:
            ctx.disagree('kind=scale;symptom=values_differ', dict(kind='scale', c=str(c), nodes=str(nodes), xs=str(xs)),
                         [str(Fraction(float(x))) for x in got], [str(x) for x in a],
                         'interpolation of scaled samples differs from the scaled interpolation', kind='tie')
            return
        ctx.count('scale')
        ctx.traces_validated += 1


# ---------------------------------------------------------------------------------------------- entry points
def _fix(case):
    case = json.loads(json.dumps(case, default=str))

    def fr(x):
        return Fraction(x) if isinstance(x, str) else x
    if case['kind'] == 'num':
        g = case['getter']
        g['samples'] = [(int(k), fr(v), st) for (k, v, st) in g['samples']]
        case['pm'] = [(k, _fix_props(q)) for (k, q) in case['pm']]
        case['kw'] = _fix_props(case['kw'])
    if case['kind'] == 'azel':
        for g in case['getters']:
            g['samples'] = [(int(k), fr(v), st) for (k, v, st) in g['samples']]
        case['raw'] = [tuple(r) for r in case['raw']]
        case['ops'] = [tuple(o) for o in case['ops'] if True]
    return case


def _fix_props(q):
    q = dict(q)
    if q.get('init') is not None:
        k, v = q['init']
        q['init'] = (k, Fraction(v) if isinstance(v, str) else v)
    return q


def run_case(ctx, case):
    case = _fix(case)
    case.pop('failing_op', None)
    if case['kind'] == 'num':
        return run_num(ctx, case)
    if case['kind'] == 'azel':
        return run_azel(ctx, case)


def run(ctx):
    rng = ctx.rng
    for case in scripted_num() + [gen_num(rng) for _ in range(ctx.scale(900, 9000))]:
        nt = run_num(ctx, case)
        ctx.note_case(('num', json.dumps(case, sort_keys=True, default=str)), nontrivial=bool(nt),
                      sample=dict(kind='num', dtype=case['getter']['dtype'], props=B._j(eff_props(case)),
                                  nsamples=len(case['getter']['samples']), ts=case['ts'][:3]))
        ctx.count('num')
    if not ctx.model_ok:
        return
    for case in scripted_azel() + [gen_azel(rng) for _ in range(ctx.scale(350, 3500))]:
        nt = run_azel(ctx, case)
        ctx.note_case(('azel', json.dumps(case, sort_keys=True, default=str)), nontrivial=bool(nt),
                      sample=dict(kind='azel', fmt=case['fmt'], ants=case['ants'], ops=[o[:2] for o in case['ops']][:5]))
        ctx.count('azel')
    run_scale(ctx, rng, ctx.scale(150, 1500))
