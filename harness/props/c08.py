RULE = 'wip'
ASSUMPTIONS = []
def run(ctx):
    print(ctx.model([[81, [2, 1]], [81, [3, 1, [1, 14]]], [8, [1, [147, 78]]]]))
def replay(ctx, doc):
    pass
