"""C08 -- Damaged/mismatched chunks and unreachable stores never masquerade as data (correspondence + search).

Every case is run on the real katdal code and on the extracted Coq model (wire 8 = Model/Npy.v, wire 81 =
Model/StoreErr.v).  Exceptions cross the wire as their position in props/c08_exn.EXN (= constructor order of
the Coq enum); the first part of every run checks that this table, the direct-base table and the whole
isinstance matrix of the model equal the real Python classes.
"""
import concurrent.futures
import importlib
import os
import re
import shutil
import subprocess
import sys
import time
import unittest.mock

import numpy as np

from fixtures import v4
from props.c08_exn import EXN
from props import c08_s3fake
from props.c08_putchild import make_chunk

RULE = ('(1) exhaustive: the 104 exception classes of the model enum (names, direct bases, full isinstance matrix) '
        'and, for each of the four error maps, every class raised inside the guarded block of a real store, through '
        'get_chunk / get_chunk_or_default / get_chunk_or_placeholder; (2) every truncation offset (quick: all header '
        'offsets plus a sample of body offsets) of chunk files written by the real NPY store (plain and direct_write) '
        'and of objects served by a loopback HTTP server with the full Content-Length, for several dtypes/shapes, plus '
        'non-prefix corruptions (zip signatures, bad magic / version / header length, header texts the tokenizer rejects, '
        'trailing garbage; NPY files and S3 objects); (2b) the S3 read as ONE HTTP response = (bytes the server holds under the key: the '
        'object truncated IN THE STORE at byte k, Content-Length it announces: honest k / whole object / none / any other '
        'number, bytes it delivers): every k of a 140-byte object with the honest Content-Length, header-boundary / last-byte '
        '/ random k for three more geometries, transfers cut in flight, no Content-Length, and random (held, delivered, '
        'announced) triples incl. Content-Length shorter / longer than what arrives -- compared with the response-level '
        'model (wire 83) and with "data only if the whole object arrived"; (3) dtype/shape mismatch matrix on the dict, NPY and S3 stores; (4) store-level '
        'faults (missing directory, EACCES as an unprivileged uid, ENOTDIR, EISDIR, 401/403, missing/empty bucket, '
        'connection refused); (5) the same faults under ChunkStoreVisFlagsWeights of a v4 data set (NPY and S3); '
        '(5b) data sets (T, F <= 6; B <= 4, or 4 / 12 through VisibilityDataV4) whose four arrays are chunked '
        'INDEPENDENTLY (identical / same block counts with shifted time and/or channel boundaries / independent / finer), '
        '30% with a dump/channel preselection, on a real NPY store or behind the loopback S3 server: every chunk of every '
        'array damaged once (sampled in the quick tier) plus random scenarios of 1-3 chunks: truncated at offsets around '
        'magic / header end / last byte and random ones (S3: body cut under the whole Content-Length), removed (404), bad '
        'magic, other dtype / shape, S3: 401 / 403; loaded through ChunkStoreVisFlagsWeights or d.vis / d.weights / '
        'd.raw_flags and compared element by element with the extracted model and spec (wire 82); '
        '(6) strace of put_chunk compared with the model op list, then SIGKILL / ENOSPC / EIO / EACCES injected at '
        'each system call of the put (quick: a sample) with and without a previous chunk, and a genuine short write '
        'on a full tmpfs (plain and direct_write, with and without a previous chunk); (7) put_chunk_noraise under a '
        'file-size limit L (RLIMIT_FSIZE in a child; a write crossing L returns a short count, a write at L fails with '
        'EFBIG): every L in 0..size+1 of a 140-byte chunk file x {no previous chunk, previous good chunk}, for a '
        '9728-byte chunk (two write(2) calls) and a direct_write chunk the offsets around header start/end, 512/4096/'
        '8192-byte boundaries, file end, padded end plus a seeded random sample strictly inside header and body '
        '(thorough: every offset of files <= 2500 bytes, more geometries incl. a 96128-byte chunk); the straced '
        'system-call results of every put are fed to the model state machine as its event list and report, final '
        'state, temp state and the calls issued are compared; (8) writing to the S3 store through the loopback endpoint: '
        'put_chunk / put_chunk_noraise answered with EVERY status of a list (2xx: 200 201 204; 13 client errors; 12 server '
        'errors incl. 501 505 507 508 511 outside and 500 502 503 504 inside the retry force list; 301 / 307 without '
        'Location) under six Retry configurations (the store default, force list with 0 / 1 / 2 status retries, no force '
        'list, a custom force list), answer SEQUENCES (glitch x k then 2xx / 4xx / 5xx), put_dask_array with per-block '
        'answers (the store running full halfway), mark_complete (bucket PUT x marker PUT answers, 409 = exists), nobody '
        'listening, a chunk that does not fit its slices: outcome, what is in the store afterwards and the attempts made '
        'are compared with the model (wire 83) and with "success reported => the complete object is in the store; every '
        'attempt refused => a ChunkStoreError is raised / returned".  A case is non-trivial when a fault is present; '
        'distinct by (part, store, geometry, fault, offset / limit, previous chunk).')
ASSUMPTIONS = ['S3 responses: the loopback server sends exactly the planned bytes and closes; a blocking socket read returns '
               'everything that arrives before the close (so one read() / readinto() sees all of it)',
               'S3 puts: a status inside the Retry force list is only answered to stores whose Retry object has backoff 0 '
               '(the default object would sleep 10 s+ between attempts); 1xx and 3xx-with-Location answers are not generated',
               'S3 cases use retries=0 so a persistent truncation exhausts the read retries at once (retry schedule: C09)',
               'a SIGKILL injected on entry of a system call may or may not let that call take effect: both model '
               'crash points k and k+1 are accepted',
               'the short-write case needs permission to mount a 16 KiB tmpfs; it is skipped (and counted) otherwise',
               'the file-size-limit sweep relies on CPython ignoring SIGXFSZ (a write beyond RLIMIT_FSIZE returns a short '
               'count / EFBIG instead of killing the process); without strace only its property half runs',
               'after the model run of a limited put has ended (error raised) the real code may issue further FAILING '
               'write calls (BufferedWriter flushing again on close): accepted, they have no effect',
               'header text parser of the executable model handles the canonical header numpy writes for simple dtypes',
               'a chunk file that starts with a zip signature is taken NOT to be a well-formed zip archive (np.load then raises '
               'BadZipFile, which is what the model raises for every zip-signature file); a well-formed archive under a chunk '
               'name is the open finding C08-F5h (NpzFile object -> AttributeError outside the guarded block), run as a witness only',
               'part 5b: stored values are small integers (exact products), vis never 0 so that a zero means zero-filled; when '
               'several chunks make a load fail any one of their exceptions is accepted (scheduler order is not modelled)']

IDX = {ctor: i for i, (ctor, _) in enumerate(EXN)}
_CLASSES = None


def classes():
    global _CLASSES
    if _CLASSES is None:
        out = []
        for ctor, qn in EXN:
            mod, name = qn.rsplit('.', 1)
            out.append(getattr(importlib.import_module(mod), name))
        _CLASSES = out
    return _CLASSES


def exn_index(e):
    t = e if isinstance(e, type) else type(e)
    try:
        return classes().index(t)
    except ValueError:
        return -1


def exn_label(i):
    return EXN[i][1] if 0 <= i < len(EXN) else 'outside-enum'


def make_exc(cls):
    """An instance of any class of the enum."""
    class _Resp:
        length_remaining = 3

        def tell(self):
            return 0

    for args in (('boom',), (), ('utf-8', b'x', 0, 1, 'boom'), (None, 'http://x/', 'boom'), (None, 'boom'),
                 ('boom', 'doc', 0), (b'', 1), ('x',), (None, 'http://x/', None), (_Resp(), b'ff')):
        try:
            return cls(*args)
        except (TypeError, AttributeError):
            continue
    raise RuntimeError('cannot instantiate %s' % cls)


def codes(s):
    return [ord(c) for c in s]


# ------------------------------------------------------------------------------------------------
# observing the three getters

DEFAULT = 77


def observe(fn, stored):
    """Run a getter; canonical outcome [0, kind] (0 stored data, 1 default fill, 2 placeholder, -1 WRONG DATA)
    or [1, exception index]."""
    from katdal.chunkstore import PlaceholderChunk
    try:
        y = fn()
    except BaseException as e:   # noqa: B902 - KeyboardInterrupt is a member of the enum
        return [1, exn_index(e)]
    if isinstance(y, PlaceholderChunk):
        return [0, 2]
    if isinstance(y, np.ndarray):
        if stored is not None and y.shape == stored.shape and y.dtype == stored.dtype and np.array_equal(y, stored):
            return [0, 0]
        if y.size and np.all(y == DEFAULT):
            return [0, 1]
        if stored is not None and stored.size == 0 and y.shape == stored.shape:
            return [0, 0]
    return [0, -1]


def three(store, name, slices, dtype, stored):
    return [observe(lambda: store.get_chunk(name, slices, dtype), stored),
            observe(lambda: store.get_chunk_or_default(name, slices, dtype, default_value=DEFAULT), stored),
            observe(lambda: store.get_chunk_or_placeholder(name, slices, dtype), stored)]


def spec_three(obs):
    """The property, stated on the observed triple alone: filler only when get_chunk raised a ChunkNotFound;
    data only when get_chunk returned data; nothing that is not the stored data is ever returned as data."""
    from katdal.chunkstore import ChunkNotFound
    g, d, p = obs
    bad = []
    if g[0] == 0 and g[1] != 0:
        bad.append('get_chunk returned something that is not the stored chunk')
    for o, nm, filler in ((d, 'or_default', 1), (p, 'or_placeholder', 2)):
        if o[0] == 0 and o[1] == -1:
            bad.append(nm + ' returned wrong data')
        if g[0] == 1:
            cls = classes()[g[1]] if g[1] >= 0 else None
            nf = cls is not None and issubclass(cls, ChunkNotFound)
            if o == [0, filler] and not nf:
                bad.append(nm + ' absorbed a %s' % exn_label(g[1]))
            if o[0] == 0 and o[1] == 0:
                bad.append(nm + ' returned data although get_chunk raised')
        elif o != g:
            bad.append(nm + ' differs from get_chunk on a healthy chunk')
    return bad


def compare_three(ctx, part, case, obs, exp, extra_sig='', zero_size=False):
    """exp = model triple.  Tie: obs == exp.  Property: spec_three(obs)."""
    ctx.traces_validated += 1
    if zero_size:    # an empty default fill IS the stored (empty) chunk: compare or_default only as data-vs-raise
        norm = lambda t: [t[0], [0, 0] if t[1][0] == 0 and t[1][1] in (0, 1) else t[1], t[2]]   # noqa: E731
        obs, exp = norm(obs), norm(exp)
    if obs != exp:
        wrong = any(o[0] == 0 and o[1] == -1 for o in obs)
        sym = 'wrong_data' if wrong else ('absorbed' if any(o[0] == 0 and o[1] in (1, 2) for o in obs[1:])
                                          and not any(o[0] == 0 and o[1] in (1, 2) for o in exp[1:]) else 'class')
        ctx.disagree('part=%s;%s;symptom=%s;impl=%s' % (part, extra_sig, sym, show(obs[0])), case,
                     [show(o) for o in obs], [show(o) for o in exp],
                     'implementation outcome differs from the model', kind='tie' if not wrong else 'property')
    for msg in ([] if zero_size else spec_three(obs)):
        ctx.disagree('part=%s;%s;spec=%s' % (part, extra_sig, msg.split(' ')[0] + '_' + msg.split(' ')[1]), case,
                     [show(o) for o in obs], [show(o) for o in exp], msg, kind='property')


def show(o):
    if o[0] == 0:
        return {0: 'data', 1: 'default-fill', 2: 'placeholder', -1: 'WRONG-DATA'}[o[1]]
    return 'raise ' + exn_label(o[1])


# ------------------------------------------------------------------------------------------------
# part 1: the enum, the maps, standard_errors

def part_enum(ctx):
    table = ctx.model([[81, [1]]])[0]
    cl = classes()
    if len(table) != len(EXN):
        ctx.disagree('part=enum;what=size', {}, len(EXN), len(table), 'enum size differs', kind='tie')
        return
    for i, (row, (ctor, qn)) in enumerate(zip(table, EXN)):
        name = ''.join(chr(c) for c in row[0])
        real = cl[i].__module__ + '.' + cl[i].__qualname__
        bases = [cl.index(b) if b in cl else -1 for b in cl[i].__bases__ if b is not object]
        if name != qn or real != qn or row[1] != bases:
            ctx.disagree('part=enum;class=%s' % qn, dict(cls=qn), [real, bases], [name, row[1]],
                         'class table of the model differs from the real class', kind='tie')
        ctx.note_case(('enum', qn), nontrivial=True, sample=dict(cls=qn, bases=[EXN[b][1] for b in bases]) if i == 37 else None)
    n = len(EXN)
    outs = ctx.model([[81, [4, i, j]] for i in range(n) for j in range(n)])
    k = 0
    for i in range(n):
        for j in range(n):
            if bool(outs[k]) != issubclass(cl[i], cl[j]):
                ctx.disagree('part=enum;what=isinstance', dict(e=EXN[i][1], c=EXN[j][1]), issubclass(cl[i], cl[j]),
                             bool(outs[k]), 'isinstance differs', kind='tie')
            k += 1
    ctx.evaluations += n * n
    ctx.count('isinstance_pairs', n * n)


class _Raiser:
    def __init__(self, exc):
        self.exc = exc

    def __getitem__(self, k):
        raise self.exc


def part_maps(ctx, tmp):
    from katdal.chunkstore import ChunkStore
    from katdal.chunkstore_dict import DictChunkStore
    from katdal.chunkstore_npy import NpyFileChunkStore
    from katdal.chunkstore_s3 import S3ChunkStore

    class DefaultProbe(ChunkStore):
        exc = None

        def get_chunk(self, array_name, slices, dtype):
            chunk_name, shape = self.chunk_metadata(array_name, slices, dtype=dtype)
            with self._standard_errors(chunk_name):
                raise self.exc

    class S3Probe(S3ChunkStore):
        exc = None

        def get_chunk(self, array_name, slices, dtype):
            chunk_name, shape = self.chunk_metadata(array_name, slices, dtype=dtype)
            with self._standard_errors(chunk_name):
                raise self.exc

    os.makedirs(tmp + '/maps/a', exist_ok=True)
    stores = [(0, 'default', DefaultProbe()), (1, 'npy', NpyFileChunkStore(tmp + '/maps')),
              (2, 'dict', DictChunkStore()), (3, 's3', S3Probe('http://127.0.0.1:%d' % c08_s3fake.closed_port()))]
    cl = classes()
    sl = (slice(0, 2),)
    for sidx, sname, store in stores:
        m = ctx.model([[81, [2, sidx]]])[0]
        real = [[exn_index(k), exn_index(v)] for k, v in store._error_map.items()]
        if real != m[0]:
            ctx.disagree('part=maps;store=%s;what=error_map' % sname, dict(store=sname),
                         [[exn_label(a), exn_label(b)] for a, b in real], [[exn_label(a), exn_label(b)] for a, b in m[0]],
                         'error map of the real store differs from the translated map', kind='tie')
        cases = [[81, [3, sidx, [1, i]]] for i in range(len(EXN))]
        exps = ctx.model(cases)
        for i, exp in enumerate(exps):
            exc = make_exc(cl[i])
            if sname == 'npy':
                with unittest.mock.patch.object(np, 'load', side_effect=exc):
                    obs = three(store, 'a', sl, np.uint8, None)
            elif sname == 'dict':
                store.arrays = _Raiser(exc)
                obs = three(store, 'a', sl, np.uint8, None)
            else:
                store.exc = exc
                obs = three(store, 'a', sl, np.uint8, None)
            case = dict(part='maps', store=sname, raised=EXN[i][1])
            compare_three(ctx, 'maps', case, obs, exp, 'store=%s;raised=%s' % (sname, EXN[i][0]))
            ctx.note_case(('maps', sname, i), nontrivial=True,
                          sample=dict(case, outcome=[show(o) for o in obs]) if (sidx, i) == (1, IDX['B_PermissionError']) else None)
            ctx.count('maps:' + sname)
            # the spec for store-level failures: an OSError that is not "no such file" must not become filler
            check_store_level(ctx, sname, EXN[i][0], obs, case)


STORE_LEVEL = ('B_PermissionError', 'B_NotADirectoryError', 'B_IsADirectoryError', 'B_ConnectionRefusedError',
               'B_TimeoutError', 'R_ConnectionError', 'R_SSLError', 'R_ConnectTimeout', 'K_AuthorisationFailed',
               'K_StoreUnavailable', 'K_InvalidToken')


def check_store_level(ctx, sname, ctor, obs, case):
    if sname == 'npy' and not ctor.startswith('B_'):
        return      # np.load cannot raise requests / katdal classes
    if sname in ('dict', 'default') and ctor not in ('K_AuthorisationFailed', 'K_StoreUnavailable', 'K_InvalidToken'):
        return
    if ctor in STORE_LEVEL and any(o[0] == 0 for o in obs[1:]):
        ctx.disagree('store=%s;fault=%s;symptom=absorbed_as_missing' % (sname, 'oserror' if ctor.startswith('B_') else ctor),
                     case, [show(o) for o in obs], 'raise (store-level failure)',
                     'a store-level failure is turned into a missing chunk (filler) instead of failing the load',
                     kind='property')


# ------------------------------------------------------------------------------------------------
# part 2: truncation of NPY files and S3 objects

GEOMS_QUICK = [('u1', (3, 4)), ('<c8', (2, 3, 2)), ('<f4', (0, 3)), ('u1', ()), ('<f4', (5,)), ('<c8', (4, 8, 6))]
GEOMS_MORE = [('<i2', (7, 1)), ('>i4', (2, 2)), ('<f8', (3, 1, 2)), ('u1', (1, 1, 1)), ('<c8', (1, 16, 40)), ('u1', (300,)),
              ('<u2', (2, 3, 4, 2))]


def descr_of(dt):
    return np.lib.format.dtype_to_descr(np.dtype(dt))


def want_of(dt, shape):
    return [codes(descr_of(dt)), 0, list(shape)]


def offsets(ctx, n, hdr_end, budget):
    if ctx.tier == 'thorough' or n + 1 <= budget:
        return list(range(n + 1))
    ks = set(range(0, min(hdr_end + 3, n + 1))) | {n, n - 1, n - 2}
    pool = [k for k in range(n + 1) if k not in ks]
    ks |= set(ctx.rng.sample(pool, max(0, min(len(pool), budget - len(ks)))))
    return sorted(ks)


def part_npy_truncation(ctx, tmp):
    from katdal.chunkstore_npy import NpyFileChunkStore
    geoms = GEOMS_QUICK + (GEOMS_MORE if ctx.tier == 'thorough' else [])
    files = {}
    for direct in (False, True):
        d = tmp + ('/npyd' if direct else '/npy')
        os.makedirs(d + '/a', exist_ok=True)
        store = NpyFileChunkStore(d, direct_write=direct)
        for gi, (dt, shape) in enumerate(geoms):
            if direct and ctx.tier != 'thorough' and gi not in (0, 1):
                continue
            x = make_chunk(dt, shape, 3)
            sl = tuple(slice(0, n) for n in shape)
            try:
                store.put_chunk('a', sl, x)
            except Exception as e:
                if direct:     # O_DIRECT not supported by the scratch file system
                    ctx.count('direct_write_unsupported')
                    continue
                raise
            name, _ = store.chunk_metadata('a', sl)
            fn = os.path.join(d, name) + '.npy'
            full = open(fn, 'rb').read()
            files[(dt, shape)] = full
            # decoder tie on the complete file
            dec = ctx.model([[8, [1, list(full)]]])[0]
            y = np.load(fn)
            real = [0, codes(descr_of(y.dtype)), 0, list(y.shape), list(y.tobytes())]
            if dec != real:
                ctx.disagree('part=npy;what=decoder;dtype=%s' % dt, dict(dtype=dt, shape=list(shape), direct=direct),
                             real[:4], dec[:4], 'model decoder differs from np.load on a complete file', kind='tie')
            exps = ctx.model([[81, [10, list(full), want_of(dt, shape)]]])[0]
            hdr_end = len(full) - x.nbytes
            # printer tie: the header text numpy / katdal wrote is print_hdr_c (the printer of the round-trip theorem)
            nb = 2 if full[6] == 1 else 4
            htext = full[8 + nb:hdr_end]
            pad = len(htext) - len(htext.rstrip(b' \n')) - 1
            printed = ctx.model([[8, [4, want_of(dt, shape), pad]]])[0]
            ctx.traces_validated += 1
            ctx.count('header_printer_tie')
            if bytes(printed) != htext or int.from_bytes(full[8:8 + nb], 'little') != len(htext):
                ctx.disagree('part=npy;what=header_printer;dtype=%s' % dt, dict(part='npy_truncation', dtype=dt, shape=list(shape),
                             direct_write=direct, offset=0), htext.decode('latin1'), bytes(printed).decode('latin1'),
                             'the header text of a stored chunk is not what the model printer prints', kind='tie')
            for k in offsets(ctx, len(full), hdr_end, 220 if not direct else 60):
                with open(fn, 'wb') as f:
                    f.write(full[:k])
                obs = three(store, 'a', sl, x.dtype, x)
                case = dict(part='npy_truncation', dtype=dt, shape=list(shape), direct_write=direct, offset=k, size=len(full))
                compare_three(ctx, 'npy_truncation', case, obs, exps[k][0],
                              'dtype=%s;offset=%s' % (dt, 'zero' if k == 0 else 'header' if k < hdr_end else 'body'),
                              zero_size=x.size == 0)
                if k < len(full) and obs[0][0] == 0:
                    ctx.disagree('part=npy_truncation;symptom=truncated_returned_as_data', case, show(obs[0]),
                                 show(exps[k][0][0]), 'a truncated chunk file was returned as data')
                if k < len(full) and obs[0][0] == 1 and not is_notfound(obs[0][1]):
                    ctx.disagree('store=npy;fault=truncation_offset_%s;symptom=raw_exception' % ('zero' if k == 0 else 'other'),
                                 case, show(obs[0]), 'ChunkNotFound', 'a truncated chunk file is not reported as a missing chunk')
                ctx.note_case(('npyT', dt, shape, direct, k), nontrivial=k < len(full),
                              sample=dict(case, outcome=[show(o) for o in obs]) if k == 9 and gi == 1 else None)
                ctx.count('npy_truncation_offsets')
            with open(fn, 'wb') as f:
                f.write(full)
    # non-prefix corruptions on one geometry
    d = tmp + '/npy'
    store = NpyFileChunkStore(d)
    dt, shape = GEOMS_QUICK[0]
    x = make_chunk(dt, shape, 3)
    sl = tuple(slice(0, n) for n in shape)
    full = files[(dt, shape)]
    fn = os.path.join(d, store.chunk_metadata('a', sl)[0]) + '.npy'
    muts = {'zip_signature': b'PK\x03\x04' + full[4:], 'empty_zip_signature': b'PK\x05\x06' + full[4:],
            'bad_magic': b'\x93NUMPX' + full[6:], 'version_9': full[:6] + b'\x09\x00' + full[8:],
            'minor_1': full[:7] + b'\x01' + full[8:], 'hlen_huge': full[:8] + b'\xff\xff' + full[10:],
            'hlen_short': full[:8] + b'\x10\x00' + full[10:], 'trailing_garbage': full + b'abc',
            'version_2_len16': full[:6] + b'\x02\x00' + full[8:], 'pickle_like': b'\x80\x04' + full[2:]}
    muts.update(header_text_mutations(full))
    for nm, data in sorted(muts.items()):
        with open(fn, 'wb') as f:
            f.write(data)
        exp1 = ctx.model([[81, [5, [list(data)], want_of(dt, shape)]]])[0]
        obs = three(store, 'a', sl, x.dtype, x)
        exp_g = [0, 0] if exp1[0] == 0 and bytes(exp1[1]) == x.tobytes() else ([0, -1] if exp1[0] == 0 else [1, exp1[1]])
        case = dict(part='npy_corruption', kind=nm)
        ctx.traces_validated += 1
        if obs[0] != exp_g and not (obs[0][0] == 1 and exp_g[0] == 1 and (nm.endswith('zip_signature') or nm == 'hlen_short')):
            ctx.disagree('part=npy_corruption;kind=%s;symptom=class' % nm, case, show(obs[0]), show(exp_g),
                         'get_chunk on a corrupted file differs from the model', kind='tie')
        for msg in spec_three(obs):
            ctx.disagree('part=npy_corruption;kind=%s;spec' % nm, case, [show(o) for o in obs], show(exp_g), msg)
        if obs[0][0] == 1 and not is_chunkstore_error(obs[0][1]):
            ctx.disagree('store=npy;fault=undecodable_file;symptom=raw_exception', case,
                         show(obs[0]), 'a ChunkStoreError', 'an undecodable chunk file surfaces as a raw (non chunk-store) exception')
        ctx.note_case(('npyC', nm), nontrivial=True)
        ctx.count('npy_corruptions')
    with open(fn, 'wb') as f:
        f.write(full)
    return files


def header_text_mutations(full):
    """Chunk files / objects whose header TEXT is damaged (framing intact, same length): numpy parses it with
    ast.literal_eval, falls back to tokenize for Python-2 style headers, and raises ValueError or tokenize.TokenError."""
    nb = 2 if full[6] == 1 else 4
    hlen = int.from_bytes(full[8:8 + nb], 'little')
    h0, h1 = 8 + nb, 8 + nb + hlen
    text = full[h0:h1]
    out = {}
    for nm, t in (('header_unterminated_string', text.replace(b"), }", b"), '''}")),      # TokenError: EOF in multi-line string
                  ('header_open_bracket', text.replace(b"), }", b"),   ")),               # TokenError: EOF in multi-line statement
                  ('header_nul_bytes', b'\x00' * len(text)),                                # TokenError: null bytes
                  ('header_bad_literal', text.replace(b"False", b"0x   ")),                # TokenError: invalid hexadecimal literal
                  ('header_not_a_dict', b'[' + text[1:].replace(b"}", b"]")),              # ValueError
                  ('header_unknown_key', text.replace(b"'shape'", b"'shapf'"))):           # ValueError
        if len(t) != len(text):
            t = (t + b' ' * len(text))[:len(text) - 1] + b'\n'
        if t != text:
            out[nm] = full[:h0] + t + full[h1:]
    return out


def is_notfound(i):
    from katdal.chunkstore import ChunkNotFound
    return i >= 0 and issubclass(classes()[i], ChunkNotFound)


def is_chunkstore_error(i):
    from katdal.chunkstore import ChunkStoreError
    return i >= 0 and issubclass(classes()[i], ChunkStoreError)


def s3_store(url):
    from katdal.chunkstore_s3 import S3ChunkStore
    return S3ChunkStore(url, timeout=(3, 3), retries=0)


def s3_cut_offsets(ctx, n, hdr_end, every=False):
    """Offsets at which a transfer is cut under the whole Content-Length (every offset in the thorough tier); the objects
    truncated in the store / other Content-Lengths are part 2b."""
    if ctx.tier == 'thorough' or every:
        return list(range(n + 1))
    ks = {0, 1, 5, 6, 7, 8, 9, 10, 11, 12, hdr_end - 1, hdr_end, hdr_end + 1, n - 2, n - 1, n} | {ctx.rng.randrange(n + 1) for _ in range(6)}
    return sorted(k for k in ks if 0 <= k <= n)


def part_s3(ctx, files):
    from katdal.chunkstore import npy_header_and_body
    srv = c08_s3fake.FakeS3()
    try:
        store = s3_store(srv.url)
        geoms = [g for g in (GEOMS_QUICK + GEOMS_MORE) if g in files] if ctx.tier == 'thorough' else GEOMS_QUICK[:4]
        for gi, (dt, shape) in enumerate(geoms):
            x = make_chunk(dt, shape, 3)
            hdr, body = npy_header_and_body(x)
            full = bytes(hdr) + body.tobytes()
            sl = tuple(slice(0, n) for n in shape)
            arr = 'bkt/arr%d' % gi
            name, _ = store.chunk_metadata(arr, sl)
            path = '/' + name + '.npy'
            srv.put(path, full)
            exps = ctx.model([[81, [10, list(full), want_of(dt, shape)]]])[0]
            hdr_end = len(hdr)
            for k in s3_cut_offsets(ctx, len(full), hdr_end, every=(gi == 0)):
                srv.plan(path, ('cut', k) if k < len(full) else ('ok',))
                obs = three(store, arr, sl, x.dtype, x)
                case = dict(part='s3_truncation', dtype=dt, shape=list(shape), offset=k, size=len(full))
                compare_three(ctx, 's3_truncation', case, obs, exps[k][1],
                              'dtype=%s;offset=%s' % (dt, 'zero' if k == 0 else 'header' if k < hdr_end else 'body'),
                              zero_size=x.size == 0)
                if k < len(full) and obs[0][0] == 0:
                    ctx.disagree('part=s3_truncation;symptom=truncated_returned_as_data', case, show(obs[0]),
                                 show(exps[k][1][0]), 'a truncated object was returned as data')
                if k < len(full) and obs[0][0] == 1 and not is_notfound(obs[0][1]):
                    ctx.disagree('store=s3;fault=truncation;symptom=not_reported_missing', case, show(obs[0]),
                                 'a ChunkNotFound', 'a truncated object is not reported as a missing chunk')
                ctx.note_case(('s3T', dt, shape, k), nontrivial=k < len(full),
                              sample=dict(case, outcome=[show(o) for o in obs]) if k == 10 and gi == 0 else None)
                ctx.count('s3_truncation_offsets')
            srv.plan(path, None)
        # corrupted (non-prefix) objects: ValueError / TokenError of read_array -> BadChunk (repaired finding C08-F5d)
        dt, shape = GEOMS_QUICK[0]
        x = make_chunk(dt, shape, 3)
        sl = tuple(slice(0, n) for n in shape)
        hdr, body = npy_header_and_body(x)
        full = bytes(hdr) + body.tobytes()
        path = '/' + store.chunk_metadata('bkt/arr0', sl)[0] + '.npy'
        for nm, data in ([('bad_magic', b'\x93NUMPX' + full[6:]), ('version_3', full[:6] + b'\x03\x00' + full[8:]),
                          ('zip_signature', b'PK\x03\x04' + full[4:]), ('hlen_huge', full[:8] + b'\xff\xff' + full[10:]),
                          ('pickle_like', b'\x80\x04' + full[2:])] + sorted(header_text_mutations(full).items())):
            srv.put(path, data)
            exp1 = ctx.model([[81, [6, list(data), want_of(dt, shape)]]])[0]
            obs = three(store, 'bkt/arr0', sl, x.dtype, x)
            exp_g = [0, 0] if exp1[0] == 0 else [1, exp1[1]]
            case = dict(part='s3_corruption', kind=nm)
            ctx.traces_validated += 1
            if obs[0] != exp_g:
                ctx.disagree('part=s3_corruption;kind=%s;symptom=class' % nm, case, show(obs[0]), show(exp_g),
                             'get_chunk on a corrupted object differs from the model', kind='tie')
            for msg in spec_three(obs):
                ctx.disagree('part=s3_corruption;kind=%s;spec' % nm, case, [show(o) for o in obs], show(exp_g), msg)
            if obs[0][0] == 1 and not is_chunkstore_error(obs[0][1]):
                ctx.disagree('store=s3;fault=undecodable_object;symptom=raw_exception', case, show(obs[0]),
                             'a ChunkStoreError', 'an undecodable object surfaces as a raw (non chunk-store) exception')
            ctx.note_case(('s3C', nm), nontrivial=True)
        srv.put(path, full)
        # store-level faults
        faults = [('status_401', ('status', 401), 'K_AuthorisationFailed'), ('status_403', ('status', 403), 'K_AuthorisationFailed'),
                  ('missing_object', None, 'K_S3ObjectNotFound')]
        for nm, plan, ctor in faults:
            p = path if plan else '/bkt/arr0/00099_00000.npy'
            if plan:
                srv.plan(p, plan)
            s2 = (slice(0, 3), slice(0, 4)) if plan else (slice(99, 102), slice(0, 4))
            obs = three(store, 'bkt/arr0', s2, x.dtype, x)
            exp = ctx.model([[81, [3, 3, [1, IDX[ctor]]]]])[0]
            case = dict(part='s3_store_fault', fault=nm)
            compare_three(ctx, 's3_store_fault', case, obs, exp, 'fault=' + nm)
            check_store_level(ctx, 's3', ctor, obs, case)
            ctx.note_case(('s3F', nm), nontrivial=True, sample=dict(case, outcome=[show(o) for o in obs]) if nm == 'status_403' else None)
            ctx.count('s3_store_faults')
            srv.plan(p, None)
        for nm, attr in (('missing_bucket', 'missing_buckets'), ('empty_bucket', 'empty_buckets')):
            getattr(srv.httpd, attr).add('gone-' + nm[:3])
            st2 = s3_store(srv.url)
            obs = three(st2, 'gone-%s/arr' % nm[:3], (slice(0, 3), slice(0, 4)), x.dtype, x)
            exp = ctx.model([[81, [3, 3, [1, IDX['K_StoreUnavailable']]]]])[0]
            case = dict(part='s3_store_fault', fault=nm)
            compare_three(ctx, 's3_store_fault', case, obs, exp, 'fault=' + nm)
            check_store_level(ctx, 's3', 'K_StoreUnavailable', obs, case)
            ctx.note_case(('s3F', nm), nontrivial=True)
            ctx.count('s3_store_faults')
        st3 = s3_store('http://127.0.0.1:%d' % c08_s3fake.closed_port())
        obs = three(st3, 'bkt/arr0', (slice(0, 3), slice(0, 4)), x.dtype, x)
        exp = ctx.model([[81, [3, 3, [1, IDX['R_ConnectionError']]]]])[0]
        case = dict(part='s3_store_fault', fault='connection_refused')
        compare_three(ctx, 's3_store_fault', case, obs, exp, 'fault=connection_refused')
        check_store_level(ctx, 's3', 'R_ConnectionError', obs, case)
        ctx.note_case(('s3F', 'refused'), nontrivial=True)
        ctx.count('s3_store_faults')
    finally:
        srv.close()


# ------------------------------------------------------------------------------------------------
# part 2b: the S3 read at the level of one HTTP response (wire 83 = Model/S3Wire.v): the server HOLDS the first
#          `held` bytes of the object, ANNOUNCES Content-Length `cl` (None: no header) and DELIVERS `delivered` bytes

RESP_GEOMS = [('u1', (3, 4)), ('<c8', (2, 3, 2)), ('<f4', (0, 3)), ('u1', ())]


def resp_cases(ctx, n, hdr_end, every):
    rng = ctx.rng
    cases = []
    if every:
        ks = range(n + 1)
    else:
        ks = sorted(k for k in ({0, 1, 5, 6, 7, 8, 9, 10, 11, hdr_end - 1, hdr_end, hdr_end + 1, n - 2, n - 1, n}
                                | {rng.randrange(n + 1) for _ in range(10)}) if 0 <= k <= n)
    for k in ks:
        cases.append((k, k, k))                      # truncated IN THE STORE, honestly announced, all of it delivered
    pool = [k for k in sorted({0, 1, 8, 9, 10, hdr_end - 1, hdr_end, hdr_end + 1, n - 1} | {rng.randrange(n + 1) for _ in range(4)})
            if 0 <= k <= n]
    for k in rng.sample(pool, min(len(pool), 6 if ctx.tier != 'thorough' else len(pool))):
        cases.append((n, k, n))                      # cut in flight under the whole Content-Length
        cases.append((k, k, None))                   # no Content-Length at all: the connection just ends
    for _ in range(ctx.scale(10, 80)):               # any combination
        held = rng.choice([n, n, rng.randrange(n + 1)])
        delivered = rng.choice([held, held, rng.randrange(held + 1)])
        cl = rng.choice([None, held, n, n + 1, n + 7, max(0, n - 1), rng.randrange(n + 8)])
        cases.append((held, delivered, cl))
    cases += [(n, n, n), (n, n, None), (n, n, n + 3), (n, n, max(0, n - 1)), (n, n + 5, n)]
    seen, out = set(), []
    for c in cases:
        if c not in seen:
            seen.add(c)
            out.append(c)
    return out


def resp_features(n, hdr_end, held, delivered, cl):
    arrived = min(held, delivered, n if cl is None else cl)
    trunc = ('none' if held >= n and delivered >= min(held, n) else 'store' if held < n and delivered >= held
             else 'flight' if held >= n else 'both')
    cll = 'none' if cl is None else 'whole' if cl == n else 'honest' if cl == min(held, n) else 'short' if cl < n else 'long'
    where = 'zero' if arrived == 0 else 'header' if arrived < hdr_end else 'body' if arrived < n else 'complete'
    return 'truncated=%s;content_length=%s;arrived=%s' % (trunc, cll, where)


_WIRES = {}


def wire_ok(ctx, w):
    """Is wire w served by the model binary of this run?  (A model file whose translator item failed is left out of the
    driver; the parts that use it then run their property half only.)"""
    if not ctx.model_ok:
        return False
    if w not in _WIRES:
        try:
            ctx.model([[w, [0]]])
            _WIRES[w] = True
        except Exception:
            _WIRES[w] = False
    return _WIRES[w]


def part_s3_response(ctx, only=None):
    from katdal.chunkstore import npy_header_and_body
    srv = c08_s3fake.FakeS3()
    have_model = wire_ok(ctx, 83)
    try:
        store = s3_store(srv.url)
        geoms = RESP_GEOMS + ([('<c8', (4, 8, 6)), ('<i2', (7, 1))] if ctx.tier == 'thorough' else [])
        if only is not None:
            geoms = [(only['dtype'], tuple(only['shape']))]
        for gi, (dt, shape) in enumerate(geoms):
            x = make_chunk(dt, shape, 3)
            hdr, body = npy_header_and_body(x)
            full = bytes(hdr) + body.tobytes()
            n, hdr_end = len(full), len(hdr)
            sl = tuple(slice(0, m) for m in shape)
            arr = 'rsp/arr%d' % gi
            path = '/' + store.chunk_metadata(arr, sl)[0] + '.npy'
            srv.put(path, full)
            cases = ([tuple(only['response'])] if only is not None
                     else resp_cases(ctx, n, hdr_end, every=(gi == 0 or ctx.tier == 'thorough')))
            mouts = (ctx.model([[83, [1, list(full), want_of(dt, shape),
                                      [[h, d, [] if c is None else [c]] for h, d, c in cases]]]])[0]
                     if have_model else [None] * len(cases))
            for (held, delivered, cl), mo in zip(cases, mouts):
                srv.plan(path, ('raw', cl, full[:held][:delivered] if delivered <= held else full[:held] + b'J' * (delivered - held)))
                obs = three(store, arr, sl, x.dtype, x)
                feat = resp_features(n, hdr_end, held, delivered, cl)
                case = dict(part='s3_response', dtype=dt, shape=list(shape), size=n, response=[held, delivered, cl])
                complete = held >= n and delivered >= n and (cl is None or cl >= n)
                if mo is not None:
                    compare_three(ctx, 's3_response', case, obs, mo[0], feat, zero_size=x.size == 0)
                    if bool(mo[2]) != complete:
                        ctx.disagree('part=s3_response;what=spec_bit', case, complete, mo[2],
                                     '"the whole object arrived" differs between the model and the harness', kind='tie')
                else:
                    ctx.traces_validated += 1
                if not complete and obs[0][0] == 0:
                    ctx.disagree('part=s3_response;%s;symptom=truncated_returned_as_data' % feat, case, show(obs[0]),
                                 'a ChunkNotFound', 'an object of which only a part arrived was returned as data')
                if not complete and x.size and any(o[0] == 0 and o[1] in (0, -1) for o in obs[1:]):
                    ctx.disagree('part=s3_response;%s;symptom=truncated_returned_as_data_by_filling_getter' % feat, case,
                                 [show(o) for o in obs], 'filler', 'get_chunk_or_default / _or_placeholder returned a partial object')
                if not complete and obs[0][0] == 1 and not is_notfound(obs[0][1]):
                    ctx.disagree('part=s3_response;%s;symptom=not_reported_missing' % feat, case, show(obs[0]),
                                 'a ChunkNotFound', 'an incomplete object is not reported as a missing chunk')
                ctx.note_case(('s3R', dt, shape, held, delivered, cl), nontrivial=not complete,
                              sample=dict(case, outcome=[show(o) for o in obs]) if (held, delivered, cl) == (n - 1, n - 1, n - 1) and gi == 0 else None)
                ctx.count('s3_response:' + feat.split(';')[0])
            srv.plan(path, None)
    finally:
        srv.close()


# ------------------------------------------------------------------------------------------------
# part 8: writing to the S3 store: a refused PUT is reported, for every status class (wire 83)

PUT_2XX = [200, 201, 204]
PUT_4XX = [400, 401, 403, 404, 405, 409, 411, 412, 413, 416, 429, 451, 499]
PUT_5XX = [500, 501, 502, 503, 504, 505, 506, 507, 508, 510, 511, 599]
PUT_3XX = [301, 307]        # a redirect without a Location header: nothing for requests to follow (finding C08-F5g, repaired)
SIG_3XX = 'store=s3;fault=put_answered_3xx;symptom=failure_swallowed'


def put_retry_cfgs():
    from urllib3.util.retry import Retry
    from katdal.chunkstore_s3 import _DEFAULT_SERVER_GLITCHES
    g = tuple(_DEFAULT_SERVER_GLITCHES)
    mk = lambda **kw: Retry(connect=0, read=0, backoff_factor=0, **kw)       # noqa: E731
    return [('default', 0),                                  # the store's own Retry object (status=5, backoff 10 s): never
                                                             # given a status of its force list here (it would sleep)
            ('glitches_status0', mk(status=0, status_forcelist=g)),
            ('glitches_status1', mk(status=1, status_forcelist=g)),
            ('glitches_status2', mk(status=2, status_forcelist=g)),
            ('no_forcelist', mk(status=2)),
            ('forcelist_507_509', mk(status=1, status_forcelist=(507, 509)))]


def put_status_label(s, fl):
    if 200 <= s < 300:
        return '2xx'
    if 300 <= s < 400:
        return '3xx'
    if 400 <= s < 500:
        return '4xx_forcelist' if s in fl else '4xx'
    if 500 <= s < 600:
        return '5xx_forcelist' if s in fl else '5xx_outside_forcelist'
    return 'other'


def put_sequences(ctx, label, fl, nstat):
    quick = ctx.tier != 'thorough'
    seqs = []
    singles = PUT_2XX + PUT_4XX + PUT_5XX
    if quick and label not in ('default', 'glitches_status0'):
        singles = sorted(set(ctx.rng.sample(singles, 8)) | {200, 403, 501, 507})
    if label == 'default':
        singles = singles + PUT_3XX
    for s in singles:
        if label == 'default' and s in fl:
            continue
        seqs.append([s])
    if label != 'default':
        gs = sorted(fl) or [503]
        for _ in range(ctx.scale(6, 30)):
            g = ctx.rng.choice(gs)
            k = ctx.rng.randint(1, nstat + 1)
            tail = ctx.rng.choice([[200], [201], [507], [403], [501], [ctx.rng.choice(gs)], [ctx.rng.choice(PUT_5XX)], [404]])
            seqs.append([g] * k + tail)
        seqs += [[gs[0], 200], [gs[0]] * (nstat + 1) + [200], [gs[0]] * nstat + [507]]
    return seqs


def _ans(a, nstat):
    """Answers for the model: the loopback server answers 200 once its plan for the path is used up."""
    return [[0, s] for s in list(a) + [200] * (nstat + 2)]


def _obs_call(fn):
    try:
        r = fn()
    except BaseException as e:   # noqa: B902
        return ['raise', exn_index(e)]
    return ['ok'] if r is None else ['returned', exn_index(r) if isinstance(r, BaseException) else -2]


def _exp_put(mo, op):
    if op == 'put_chunk':
        return ['ok'] if mo[0] == [0] else ['raise', mo[0][1]]
    return ['ok'] if mo[1] == [0] else ['returned', mo[1][1]] if mo[1][0] == 1 else ['raise', mo[1][1]]


def show_put(o):
    return o[0] if o[0] == 'ok' else '%s %s' % (o[0], exn_label(o[1]))


def put_spec(ctx, sig, case, op, obs, answered, stored_ok, what):
    """The property on the observation alone: every attempt was answered with an error status => an error is reported
    (raised by put_chunk / mark_complete, returned by put_chunk_noraise) and it is a ChunkStoreError; success reported
    => the object is in the store, complete."""
    refused = bool(answered) and all(300 <= s < 600 for s in answered)
    if obs[0] == 'ok' and not stored_ok and answered and 300 <= answered[-1] < 400:
        ctx.disagree(SIG_3XX, case, show_put(obs), 'an error (answered %s)' % answered,
                     '%s reported success although the server answered with a redirect status and stored nothing' % what)
    elif obs[0] == 'ok' and not stored_ok:
        ctx.disagree(sig + ';symptom=failure_swallowed', case, show_put(obs), 'an error (answered %s)' % answered,
                     '%s reported success but the object is not in the store' % what)
    elif refused and obs[0] == 'ok':
        ctx.disagree(sig + ';symptom=failure_swallowed', case, show_put(obs), 'an error (answered %s)' % answered,
                     '%s reported success although the server refused every attempt' % what)
    if refused and obs[0] != 'ok':
        good = 'returned' if op == 'put_chunk_noraise' else 'raise'
        if obs[0] != good or not is_chunkstore_error(obs[1]):
            ctx.disagree(sig + ';symptom=not_a_chunkstore_error', case, show_put(obs), good + ' a ChunkStoreError',
                         '%s reported the refused put with something that is not a %s ChunkStoreError' % (what, good))


def part_s3_put(ctx, only=None):
    import dask
    import dask.array as da
    from katdal.chunkstore import npy_header_and_body
    from katdal.chunkstore_s3 import S3ChunkStore
    srv = c08_s3fake.FakeS3()
    counter = [0]
    have_model = wire_ok(ctx, 83)

    def fresh():
        counter[0] += 1
        return counter[0]
    try:
        x = make_chunk('<f4', (3, 4), 7)
        sl = (slice(0, 3), slice(0, 4))
        hdr, body = npy_header_and_body(x)
        xbytes = bytes(hdr) + body.tobytes()
        if have_model:
            mflags = ctx.model([[83, [6]]])[0]
        cfgs = put_retry_cfgs()
        for label, retries in cfgs:
            if only is not None and only.get('retry') != label:
                continue
            store = S3ChunkStore(srv.url, timeout=(3, 3), retries=retries)
            fl = sorted(store.retries.status_forcelist or ())
            nstat = store.retries.status
            mcfg = [fl, nstat]
            if label == 'default' and have_model:
                ctx.traces_validated += 1
                if mflags[5] != fl:
                    ctx.disagree('part=s3_put;what=force_list', dict(part='s3_put', retry=label), fl, mflags[5],
                                 'status force list of the store differs from the translated _DEFAULT_SERVER_GLITCHES', kind='tie')
            # ---- put_chunk / put_chunk_noraise
            seqs = put_sequences(ctx, label, fl, nstat) if only is None else ([only['answers']] if only.get('op') in ('put_chunk', 'put_chunk_noraise') else [])
            mouts = ctx.model([[83, [2, mcfg, 1, _ans(a, nstat)]] for a in seqs]) if have_model else [None] * len(seqs)
            for answers, mo in zip(seqs, mouts):
                for op in ('put_chunk', 'put_chunk_noraise'):
                    if only is not None and only['op'] != op:
                        continue
                    arr = 'pb/a%d' % fresh()
                    path = '/' + store.chunk_metadata(arr, sl, chunk=x)[0] + '.npy'
                    srv.put_plan(path, answers)
                    obs = _obs_call(lambda: getattr(store, op)(arr, sl, x))
                    answered = srv.attempts(path)
                    stored_ok = srv.get(path) == xbytes
                    srv.put_plan(path, None)
                    case = dict(part='s3_put', op=op, retry=label, answers=answers)
                    sig = 'part=s3_put;op=%s;last_status=%s' % (op, put_status_label(answered[-1], fl) if answered else 'none')
                    ctx.traces_validated += 1
                    if mo is not None:
                        exp = _exp_put(mo, op)
                        if obs != exp or bool(mo[2]) != stored_ok or mo[3] != len(answered):
                            ctx.disagree(sig + ';tie;symptom=%s' % ('outcome' if obs != exp else 'stored' if bool(mo[2]) != stored_ok else 'attempts'),
                                         case, dict(outcome=show_put(obs), stored=stored_ok, attempts=answered),
                                         dict(outcome=show_put(exp), stored=bool(mo[2]), attempts=mo[3]),
                                         'outcome / store content / attempts of the put differ from the model', kind='tie')
                    put_spec(ctx, sig, case, op, obs, answered, stored_ok, op)
                    ctx.note_case(('s3P', label, op, tuple(answers)), nontrivial=any(s >= 300 for s in answers),
                                  sample=dict(case, outcome=show_put(obs), stored=stored_ok) if answers == [507] and op == 'put_chunk_noraise' else None)
                    ctx.count('s3_put:' + put_status_label(answers[-1], fl))
            # ---- put_dask_array: one put_chunk_noraise per block
            if label in ('default', 'glitches_status1', 'forcelist_507_509') and (only is None or only.get('op') == 'put_dask_array'):
                data = np.arange(4 * 6, dtype=np.float32).reshape(4, 6) + 1
                blocks = [(0, 0), (0, 3), (2, 0), (2, 3)]
                scen = []
                if only is not None:
                    scen = [only['answers']]
                else:
                    choices = [[200], [507], [403], [501], [404], [505]] + ([[fl[0], 200], [fl[0], fl[0]], [fl[0], 507]] if label != 'default' else [])
                    scen.append([[200], [200], [507], [507]])            # the store runs full halfway through
                    for _ in range(ctx.scale(2, 10)):
                        scen.append([ctx.rng.choice(choices) for _ in blocks])
                mouts = ctx.model([[83, [3, mcfg, [_ans(a, nstat) for a in sc]]] for sc in scen]) if have_model else [None] * len(scen)
                for sc, mo in zip(scen, mouts):
                    arr = 'pb/d%d' % fresh()
                    paths = []
                    for (t, f), a in zip(blocks, sc):
                        path = '/%s/%05d_%05d.npy' % (arr, t, f)
                        paths.append(path)
                        srv.put_plan(path, a)
                    try:
                        with dask.config.set(scheduler='sync'):
                            res = store.put_dask_array(arr, da.from_array(data, chunks=(2, 3))).compute()
                        got = [_obs_call(lambda r=res[i // 2, i % 2]: r) for i in range(4)]
                        got = [['ok'] if g == ['ok'] else g for g in got]
                    except BaseException as e:   # noqa: B902
                        got = ['raise', exn_index(e)]
                    case = dict(part='s3_put', op='put_dask_array', retry=label, answers=sc)
                    ctx.traces_validated += 1
                    if mo is not None:
                        exp = (['raise', mo[0][1]] if mo[0][0] == 1 else
                               [['ok'] if r == [0] else ['returned', r[1]] if r[0] == 1 else ['raise', r[1]] for r in mo[0][1]])
                        if got != exp:
                            ctx.disagree('part=s3_put;op=put_dask_array;tie;symptom=outcome', case, got, exp,
                                         'result array of put_dask_array differs from the model', kind='tie')
                    if got and got[0] == 'raise':
                        ctx.disagree('part=s3_put;op=put_dask_array;symptom=compute_raises', case, exn_label(got[1]), 'an array of None / error objects',
                                     'put_dask_array(...).compute() raised instead of reporting per chunk')
                    else:
                        for i, ((t, f), path) in enumerate(zip(blocks, paths)):
                            h2, b2 = npy_header_and_body(np.ascontiguousarray(data[t:t + 2, f:f + 3]))
                            ok = srv.get(path) == bytes(h2) + b2.tobytes()
                            answered = srv.attempts(path)
                            put_spec(ctx, 'part=s3_put;op=put_dask_array;last_status=%s' % (put_status_label(answered[-1], fl) if answered else 'none'),
                                     dict(case, block=i), 'put_chunk_noraise', got[i], answered, ok, 'put_dask_array (block %d)' % i)
                    for path in paths:
                        srv.put_plan(path, None)
                    ctx.note_case(('s3D', label, str(sc)), nontrivial=True,
                                  sample=dict(case, result=[show_put(g) for g in got] if got and got[0] != 'raise' else 'raise') if sc == [[200], [200], [507], [507]] and label == 'default' else None)
                    ctx.count('s3_put:dask')
            # ---- mark_complete: bucket PUT (409 is fine), then the marker PUT
            if label in ('default', 'glitches_status1') and (only is None or only.get('op') == 'mark_complete'):
                if only is not None:
                    pairs = [tuple(only['answers'])]
                else:
                    pairs = [([200], [200]), ([409], [200]), ([409], [507]), ([200], [501]), ([403], [200]), ([507], [200]),
                             ([200], [403]), ([200], [404]), ([505], [505])]
                    if label != 'default':
                        pairs += [([fl[0], 200], [fl[0], 507]), ([fl[0], fl[0]], [200]), ([fl[0], 409], [fl[0], 204])]
                    if ctx.tier != 'thorough':
                        pairs = pairs[:3] + ctx.rng.sample(pairs[3:], 4)
                mouts = ctx.model([[83, [4, mcfg, _ans(b, nstat), _ans(m, nstat)]] for b, m in pairs]) if have_model else [None] * len(pairs)
                for (b, m), mo in zip(pairs, mouts):
                    k = fresh()
                    arr = 'mb%d/arr' % k
                    mpath = '/mb%d/arr/complete' % k
                    srv.put_plan('/mb%d' % k, b)
                    srv.put_plan(mpath, m)
                    obs = _obs_call(lambda: store.mark_complete(arr))
                    stored_ok = srv.get(mpath) is not None
                    answered_b, answered_m = srv.attempts('/mb%d' % k), srv.attempts(mpath)
                    seen = _obs_call(lambda: None if s3_store(srv.url).is_complete(arr) else ValueError('not complete'))
                    case = dict(part='s3_put', op='mark_complete', retry=label, answers=[list(b), list(m)])
                    last = (answered_m or answered_b or [0])[-1]
                    sig = 'part=s3_put;op=mark_complete;last_status=%s' % put_status_label(last, fl)
                    ctx.traces_validated += 1
                    if mo is not None:
                        exp = ['ok'] if mo[0] == [0] else ['raise', mo[0][1]]
                        if obs != exp or bool(mo[1]) != stored_ok:
                            ctx.disagree(sig + ';tie;symptom=%s' % ('outcome' if obs != exp else 'stored'), case,
                                         dict(outcome=show_put(obs), marker_stored=stored_ok), dict(outcome=show_put(exp), marker_stored=bool(mo[1])),
                                         'mark_complete differs from the model', kind='tie')
                    if (seen == ['ok']) != stored_ok:
                        ctx.disagree(sig + ';symptom=is_complete_wrong', case, seen, stored_ok, 'is_complete disagrees with the store content')
                    bucket_refused = bool(answered_b) and all(400 <= s < 600 and s != 409 for s in answered_b)
                    put_spec(ctx, sig, case, 'mark_complete', obs, answered_b if bucket_refused else answered_m,
                             stored_ok, 'mark_complete')
                    ctx.note_case(('s3M', label, str(b), str(m)), nontrivial=True)
                    ctx.count('s3_put:mark_complete')
        if only is None:
            # nobody listens; and a chunk that does not fit its slices is refused before anything is sent
            dead = S3ChunkStore('http://127.0.0.1:%d' % c08_s3fake.closed_port(), timeout=(3, 3), retries=0)
            store = S3ChunkStore(srv.url, timeout=(3, 3), retries=0)
            for nm, st, args, wire in (('connection_refused', dead, ('pb/dead', sl, x), [2, [[], 0], 1, [[1, IDX['R_ConnectionError']]]]),
                                       ('bad_shape', store, ('pb/bad', (slice(0, 2), slice(0, 4)), x), [2, [[], 0], 0, [[0, 200]]])):
                mo = ctx.model([[83, wire]])[0] if have_model else None
                for op in ('put_chunk', 'put_chunk_noraise'):
                    obs = _obs_call(lambda: getattr(st, op)(*args))
                    case = dict(part='s3_put', op=op, fault=nm)
                    ctx.traces_validated += 1
                    if mo is not None and obs != _exp_put(mo, op):
                        ctx.disagree('part=s3_put;op=%s;fault=%s;tie' % (op, nm), case, show_put(obs), show_put(_exp_put(mo, op)),
                                     'put on an unreachable store / of a misshapen chunk differs from the model', kind='tie')
                    if obs[0] == 'ok' or not is_chunkstore_error(obs[1]):
                        ctx.disagree('part=s3_put;op=%s;fault=%s;symptom=failure_swallowed' % (op, nm), case, show_put(obs),
                                     'a ChunkStoreError', 'a put that cannot have stored anything is not reported')
                    ctx.note_case(('s3P', nm, op), nontrivial=True)
    finally:
        srv.close()


# ------------------------------------------------------------------------------------------------
# part 3: dtype / shape mismatch matrix on the three back-ends

def model_or_spec(ctx, case):
    """ctx.model for one case, or -- while searching without a model binary -- the property's own answer."""
    if ctx.model_ok:
        return ctx.model([case])[0]
    w = case[1]
    bad = [1, IDX['K_BadChunk']]
    if w[0] == 3 and w[2][0] == 0:
        ok = w[2][1] and w[2][2]
        return [[0, 0]] * 3 if ok else [bad] * 3
    if w[0] == 3:
        e = w[2][1]
        nf = is_notfound(e)
        return [[1, e], [0, 1] if nf else [1, e], [0, 2] if nf else [1, e]]
    if w[0] == 7:
        flags = []
        for k, lo in w[2]:
            if lo[0] == 0:
                if not (lo[1] and lo[2]):
                    return bad
                flags.append(0)
            elif lo[1] in (IDX['B_FileNotFoundError'], IDX['B_EOFError'], IDX['B_ValueError'], IDX['U_MaxRetryError'],
                           IDX['K_S3ObjectNotFound']):
                flags.append(1)
            elif lo[1] == IDX['B_IsADirectoryError']:
                return [1, IDX['K_StoreUnavailable']]
            else:
                return [1, lo[1]]
        return [0, flags, int(any(flags))]
    raise RuntimeError('no fallback')


def part_mismatch(ctx, tmp):
    from katdal.chunkstore import npy_header_and_body
    from katdal.chunkstore_dict import DictChunkStore
    from katdal.chunkstore_npy import NpyFileChunkStore
    stored_specs = [('u1', (3, 4)), ('<c8', (2, 3)), ('<f4', (4,))]
    req_dtypes = ['u1', 'i1', '<c8', '<f4', '<f8', '>f4', '<u2']
    srv = c08_s3fake.FakeS3()
    try:
        os.makedirs(tmp + '/mm', exist_ok=True)
        npy = NpyFileChunkStore(tmp + '/mm')
        s3 = s3_store(srv.url)
        for si, (dt, shape) in enumerate(stored_specs):
            x = make_chunk(dt, shape, 5)
            sl = tuple(slice(0, n) for n in shape)
            arr = 'mm/x%d' % si
            npy.create_array(arr)
            npy.put_chunk(arr, sl, x)
            hdr, body = npy_header_and_body(x)
            srv.put('/' + s3.chunk_metadata(arr, sl)[0] + '.npy', bytes(hdr) + body.tobytes())
            dct = DictChunkStore(**{'x': x})
            shapes = [shape] + [tuple(n + d for n in shape) for d in (1, 2)] + [shape[:-1] + (shape[-1] + 3,)]
            if ctx.tier == 'thorough':
                shapes += [tuple(max(1, n - 1) for n in shape)]
            for rdt in req_dtypes:
                for rshape in shapes:
                    rsl = tuple(slice(0, n) for n in rshape)
                    sok = int(tuple(rshape) == tuple(shape))
                    dok = int(np.dtype(rdt) == np.dtype(dt))
                    if any(r < s for r, s in zip(rshape, shape)):
                        # a smaller request: dict store slices the array (data), file stores see a bigger chunk
                        pass
                    for sidx, sname, store, nm in ((1, 'npy', npy, arr), (2, 'dict', dct, 'x'), (3, 's3', s3, arr)):
                        s_ok = sok
                        stored_view = x
                        if sname == 'dict' and all(r <= s for r, s in zip(rshape, shape)):
                            s_ok = 1
                            stored_view = x[rsl]
                        exp = model_or_spec(ctx, [81, [3, sidx, [0, s_ok, dok]]])
                        obs = three(store, nm, rsl, np.dtype(rdt), stored_view)
                        case = dict(part='mismatch', store=sname, stored=[dt, list(shape)], requested=[rdt, list(rshape)])
                        compare_three(ctx, 'mismatch', case, obs, exp,
                                      'store=%s;shape_ok=%d;dtype_ok=%d' % (sname, s_ok, dok))
                        if not (s_ok and dok) and obs[0] != [1, IDX['K_BadChunk']]:
                            ctx.disagree('part=mismatch;store=%s;symptom=not_badchunk;shape_ok=%d;dtype_ok=%d' % (sname, s_ok, dok),
                                         case, show(obs[0]), 'raise BadChunk', 'a dtype/shape mismatch did not raise BadChunk')
                        ctx.note_case(('mm', sname, dt, shape, rdt, rshape), nontrivial=not (s_ok and dok),
                                      sample=dict(case, outcome=[show(o) for o in obs]) if (sname, rdt, si) == ('s3', '<f8', 0) and rshape == shape else None)
                        ctx.count('mismatch:' + sname)
    finally:
        srv.close()


# ------------------------------------------------------------------------------------------------
# part 4: store-level faults on the NPY store with real OS errors

def child_env():
    env = dict(os.environ)
    env['PYTHONPATH'] = os.pathsep.join([os.environ.get('VERIF_REPO', '/repo'), os.path.dirname(os.path.dirname(os.path.abspath(__file__)))])
    env['PYTHONDONTWRITEBYTECODE'] = '1'
    return env


CHILD = os.path.join(os.path.dirname(os.path.abspath(__file__)), 'c08_putchild.py')


def part_npy_store_faults(ctx, tmp):
    from katdal.chunkstore import StoreUnavailable
    from katdal.chunkstore_npy import NpyFileChunkStore
    # missing directory at construction
    try:
        NpyFileChunkStore(tmp + '/does-not-exist')
        obs = 'constructed'
    except Exception as e:
        obs = type(e)
    ctx.traces_validated += 1
    if obs is not StoreUnavailable:
        ctx.disagree('store=npy;fault=missing_directory;symptom=%s' % getattr(obs, '__name__', obs), dict(part='npy_store_fault', fault='missing_directory'),
                     str(obs), 'StoreUnavailable', 'a missing store directory does not raise StoreUnavailable')
    ctx.note_case(('npyF', 'missing_dir'), nontrivial=True)
    x = make_chunk('u1', (3, 4), 1)
    sl = (slice(0, 3), slice(0, 4))
    kinds = ['enotdir', 'eisdir', 'dir_removed', 'eacces']
    for kind in kinds:
        d = tmp + '/sf_' + kind
        os.makedirs(d + '/a', exist_ok=True)
        store = NpyFileChunkStore(d)
        store.put_chunk('a', sl, x)
        fn = d + '/a/00000_00000.npy'
        if kind == 'enotdir':
            shutil.rmtree(d + '/a')
            open(d + '/a', 'w').close()
            low = 'B_NotADirectoryError'
        elif kind == 'eisdir':
            os.remove(fn)
            os.makedirs(fn)
            low = 'B_IsADirectoryError'
        elif kind == 'dir_removed':
            shutil.rmtree(d)
            low = 'B_FileNotFoundError'
        else:
            low = 'B_PermissionError'
        exp = ctx.model([[81, [3, 1, [1, IDX[low]]]]])[0]
        if kind == 'eacces':
            os.chmod(d + '/a', 0)
            os.chmod(d, 0o755)
            os.chmod(tmp, 0o755)
            r = subprocess.run([sys.executable, CHILD, d, '0', 'u1', '3,4', '1', '65534'], capture_output=True, text=True,
                               env=dict(child_env(), C08_MODE='get'), timeout=120)
            os.chmod(d + '/a', 0o755)
            lines = dict(l.split()[1:3] for l in r.stdout.splitlines() if l.startswith('GET '))
            if len(lines) != 3:
                ctx.count('eacces_child_unavailable')
                continue
            obs = []
            for meth, filler in (('get_chunk', None), ('get_chunk_or_default', 1), ('get_chunk_or_placeholder', 2)):
                v = lines[meth]
                if v.startswith('raise:'):
                    qn = v[6:]
                    obs.append([1, [q for _, q in EXN].index(qn) if qn in [q for _, q in EXN] else -1])
                else:
                    obs.append([0, 2 if v == 'PlaceholderChunk' else 1])
        else:
            obs = three(store, 'a', sl, x.dtype, x)
        case = dict(part='npy_store_fault', fault=kind)
        compare_three(ctx, 'npy_store_fault', case, obs, exp, 'fault=' + kind)
        if kind != 'dir_removed':
            check_store_level(ctx, 'npy', low, obs, case)
        ctx.note_case(('npyF', kind), nontrivial=True, sample=dict(case, outcome=[show(o) for o in obs]) if kind == 'enotdir' else None)
        ctx.count('npy_store_faults')


# ------------------------------------------------------------------------------------------------
# part 5: the same faults under ChunkStoreVisFlagsWeights / a v4 data set

ARRAYS = ['correlator_data', 'flags', 'weights', 'weights_channel']


def part_vfw(ctx, tmp):
    from katdal.chunkstore import npy_header_and_body
    from katdal.vis_flags_weights import ChunkStoreVisFlagsWeights
    from katdal.flags import DATA_LOST
    T, F = 4, 4
    chunks = {'correlator_data': (2, 2, 12), 'flags': (2, 2, 12), 'weights': (2, 2, 12), 'weights_channel': (2, 2)}
    x = v4.build_v4(T=T, F=F, chunks=chunks, tmp=tmp + '/v4', seed=ctx.seed % 1000)
    stored = x.stored
    B = stored['flags'].shape[2]
    prefix = x.chunk_info['flags']['prefix']
    kinds = ['missing', 'zero_length', 'truncated_header', 'truncated_body', 'bad_dtype', 'bad_shape', 'eisdir']
    low_of = {'missing': 'B_FileNotFoundError', 'zero_length': 'B_EOFError', 'truncated_header': 'B_ValueError',
              'truncated_body': 'B_ValueError', 'eisdir': 'B_IsADirectoryError'}
    n_arr = len(ARRAYS) if ctx.tier == 'thorough' else None
    combos = [(a, k) for a in ARRAYS for k in kinds]
    if ctx.tier != 'thorough':
        ctx.rng.shuffle(combos)
        must = [('correlator_data', 'missing'), ('flags', 'missing'), ('weights', 'bad_dtype'), ('correlator_data', 'truncated_body'),
                ('weights_channel', 'bad_shape'), ('flags', 'zero_length'), ('correlator_data', 'eisdir')]
        combos = must + [c for c in combos if c not in must][:5]

    def vfw_for(store):
        return ChunkStoreVisFlagsWeights(store, x.chunk_info)

    def run_load(vfw):
        try:
            vis = vfw.vis.compute()
            flags = vfw.flags.compute()
            weights = vfw.weights.compute()
            return ('ok', vis, flags, weights)
        except BaseException as e:   # noqa: B902
            return ('raise', exn_index(e))

    def check(case, res, arr, lowres, sidx, cell):
        arrays = [[int(a == 'flags'), (lowres if a == arr else [0, 1, 1])] for a in ARRAYS]
        exp = model_or_spec(ctx, [81, [7, sidx, arrays]])
        ctx.traces_validated += 1
        t0, f0 = cell
        region = (slice(2 * t0, 2 * t0 + 2), slice(2 * f0, 2 * f0 + 2))
        if res[0] == 'raise':
            if exp[0] != 1 or exp[1] != res[1]:
                ctx.disagree('part=vfw;store=%d;array=%s;fault=%s;symptom=load_raises' % (sidx, arr, case['fault']), case,
                             'raise ' + exn_label(res[1]), exp, 'load raised but the model says otherwise', kind='tie')
            return
        _, vis, flags, weights = res
        if exp[0] == 1:
            ctx.disagree('part=vfw;store=%d;array=%s;fault=%s;symptom=load_succeeds' % (sidx, arr, case['fault']), case,
                         'load succeeded', 'raise ' + exn_label(exp[1]),
                         'a load that must fail (BadChunk / StoreUnavailable / raw error) succeeded', kind='property')
            return
        lost = np.zeros((T, F, B), bool)
        if exp[2]:
            lost[region] = True
        exp_flags = stored['flags'].copy()
        if arr == 'flags' and exp[2]:
            exp_flags[region] = 0
        exp_flags = exp_flags | (lost * np.uint8(DATA_LOST))
        exp_vis = stored['correlator_data'].copy()
        if arr == 'correlator_data' and exp[2]:
            exp_vis[region] = 0
        okf = np.array_equal(flags, exp_flags)
        okv = np.array_equal(vis, exp_vis)
        if not (okf and okv):
            ctx.disagree('part=vfw;store=%d;array=%s;fault=%s;symptom=%s' % (sidx, arr, case['fault'], 'flags' if not okf else 'vis'),
                         case, dict(lost_flagged=bool(np.all(flags[region] & DATA_LOST)), flags_equal=okf, vis_equal=okv),
                         dict(lost=bool(exp[2])), 'loaded flags/vis differ from stored data with data_lost on the faulty chunk only')

    def damage(arr, kind, cell):
        info = x.chunk_info[arr]
        idx = cell[:len(info['chunks'])] + (0,) * (len(info['chunks']) - 2)
        starts = [2 * cell[0], 2 * cell[1]] + [0] * (len(info['chunks']) - 2)
        fn = os.path.join(x.tmp, prefix, arr, '_'.join('%05d' % s for s in starts) + '.npy')
        full = open(fn, 'rb').read()
        a = np.load(fn)
        if kind == 'missing':
            os.remove(fn)
            data = None
        elif kind == 'zero_length':
            data = b''
        elif kind == 'truncated_header':
            data = full[:57]
        elif kind == 'truncated_body':
            data = full[:len(full) - max(1, a.nbytes // 2)]
        elif kind == 'bad_dtype':
            b = a.astype('<f8') if a.dtype != np.dtype('<f8') else a.astype('<f4')
            h, bb = npy_header_and_body(b)
            data = bytes(h) + bb.tobytes()
        elif kind == 'bad_shape':
            b = np.concatenate([a, a], axis=0)
            h, bb = npy_header_and_body(b)
            data = bytes(h) + bb.tobytes()
        elif kind == 'eisdir':
            os.remove(fn)
            os.makedirs(fn)
            data = 'dir'
        if isinstance(data, bytes):
            with open(fn, 'wb') as f:
                f.write(data)
        return fn, full, data

    def restore(fn, full):
        if os.path.isdir(fn):
            os.rmdir(fn)
        with open(fn, 'wb') as f:
            f.write(full)

    srv = c08_s3fake.FakeS3()
    try:
        for arr, kind in combos:
            cell = (ctx.rng.randint(0, 1), ctx.rng.randint(0, 1))
            fn, full, data = damage(arr, kind, cell)
            try:
                if kind in low_of:
                    lowres = [1, IDX[low_of[kind]]]
                else:
                    lowres = [0, int(kind != 'bad_shape'), int(kind != 'bad_dtype')]
                case = dict(part='vfw', store='npy', array=arr, fault=kind, cell=list(cell))
                res = run_load(vfw_for(x.store))
                check(case, res, arr, lowres, 1, cell)
                if kind == 'eisdir' and res[0] == 'ok':
                    ctx.disagree('store=npy;fault=oserror;symptom=absorbed_as_missing', case, 'load succeeded (data_lost)',
                                 'raise (store-level failure)',
                                 'a store-level failure is turned into a missing chunk (filler) instead of failing the load')
                # through the data set object as well
                if arr == 'correlator_data' and kind in ('missing', 'bad_dtype'):
                    try:
                        d = x.d
                        d.select()
                        vis = np.asarray(d.vis[:])
                        fl = np.asarray(d.raw_flags[:]) if hasattr(d, 'raw_flags') else None
                        out = ('ok', vis, fl, None)
                    except BaseException as e:   # noqa: B902
                        out = ('raise', exn_index(e))
                    check(dict(case, via='dataset'), out, arr, lowres, 1, cell)
                ctx.note_case(('vfw', 'npy', arr, kind), nontrivial=True,
                              sample=dict(case, outcome=res[0] if res[0] == 'ok' else 'raise ' + exn_label(res[1])) if kind == 'bad_dtype' else None)
                ctx.count('vfw:npy')
            finally:
                restore(fn, full)
        # S3: serve the same files; faults by plan
        for root, _, fs_ in os.walk(x.tmp):
            for f in fs_:
                if f.endswith('.npy'):
                    p = os.path.join(root, f)
                    srv.put('/' + os.path.relpath(p, x.tmp), open(p, 'rb').read())
        s3 = s3_store(srv.url)
        s3_faults = [('status_403', ('status', 403), [1, IDX['K_AuthorisationFailed']]),
                     ('status_401', ('status', 401), [1, IDX['K_AuthorisationFailed']]),
                     ('cut_header', ('cut', 31), [1, IDX['U_MaxRetryError']]),
                     ('cut_body', ('cut', 131), [1, IDX['U_MaxRetryError']]),
                     ('missing', ('status', 404), [1, IDX['K_S3ObjectNotFound']])]
        arrs = ARRAYS if ctx.tier == 'thorough' else ['correlator_data', 'flags']
        for arr in arrs:
            for nm, plan, lowres in s3_faults:
                cell = (ctx.rng.randint(0, 1), ctx.rng.randint(0, 1))
                info = x.chunk_info[arr]
                starts = [2 * cell[0], 2 * cell[1]] + [0] * (len(info['chunks']) - 2)
                path = '/' + prefix + '/' + arr + '/' + '_'.join('%05d' % s for s in starts) + '.npy'
                srv.plan(path, plan)
                case = dict(part='vfw', store='s3', array=arr, fault=nm, cell=list(cell))
                res = run_load(vfw_for(s3))
                check(case, res, arr, lowres, 3, cell)
                srv.plan(path, None)
                ctx.note_case(('vfw', 's3', arr, nm), nontrivial=True,
                              sample=dict(case, outcome=res[0] if res[0] == 'ok' else 'raise ' + exn_label(res[1])) if nm == 'status_403' and arr == 'flags' else None)
                ctx.count('vfw:s3')
        dead = s3_store('http://127.0.0.1:%d' % c08_s3fake.closed_port())
        res = run_load(vfw_for(dead))
        arrays = [[int(a == 'flags'), [1, IDX['R_ConnectionError']]] for a in ARRAYS]
        exp = model_or_spec(ctx, [81, [7, 3, arrays]])
        ctx.traces_validated += 1
        if not (res[0] == 'raise' and exp[0] == 1 and issubclass(classes()[res[1]], classes()[IDX['K_StoreUnavailable']])):
            ctx.disagree('part=vfw;store=s3;fault=connection_refused;symptom=%s' % res[0], dict(part='vfw', store='s3', fault='connection_refused'),
                         res[0], exp, 'an unreachable S3 endpoint did not make the load fail with StoreUnavailable')
        ctx.note_case(('vfw', 's3', 'refused'), nontrivial=True)
    finally:
        srv.close()


# ------------------------------------------------------------------------------------------------
# part 5b: damaged chunks under ChunkStoreVisFlagsWeights / a v4 data set whose arrays are chunked DIFFERENTLY
#          (wire 82 = Model/VfwDamage.v): zero-filled AND data_lost exactly on the damaged chunk's elements

DMG_DT = {'correlator_data': np.complex64, 'flags': np.uint8, 'weights': np.uint8, 'weights_channel': np.float32}
DMG_STYLES = ['identical', 'shifted_time', 'shifted_freq', 'shifted_both', 'random', 'finer']


def _composition(rng, n, k):
    """n as an ordered sum of k positive parts, uniformly."""
    cuts = sorted(rng.sample(range(1, n), k - 1)) if k > 1 else []
    return [b - a for a, b in zip([0] + cuts, cuts + [n])]


def _rnd_chunks(rng, n):
    r = rng.random()
    if r < 0.15:
        return [n]
    if r < 0.3:
        return [1] * n
    return _composition(rng, n, rng.randint(1, n))


def _shifted(rng, base):
    """Another chunking of the same axis with the SAME number of chunks but at least one different boundary."""
    n, k = sum(base), len(base)
    if k < 2 or n <= k:
        return None
    for _ in range(50):
        c = _composition(rng, n, k)
        if c != base:
            return c
    return None


def dmg_geometry(rng, style, path):
    """One data set geometry: T x F x B and the chunking of each of the four arrays."""
    for _ in range(200):
        T, F = rng.randint(2, 6), rng.randint(2, 6)
        B = rng.choice([4, 12]) if path == 'v4' else rng.choice([1, 2, 3, 4])
        if style.startswith('shifted'):
            T, F = max(T, 3), max(F, 3)
        dims = [T, F, B]
        fl = [_rnd_chunks(rng, n) for n in dims]
        if style in ('shifted_time', 'shifted_both'):
            fl[0] = _composition(rng, T, rng.randint(2, T - 1))
        if style in ('shifted_freq', 'shifted_both'):
            fl[1] = _composition(rng, F, rng.randint(2, F - 1))
        chunks = {'flags': fl}
        ok = True
        for name in ('correlator_data', 'weights', 'weights_channel'):
            if style == 'identical':
                c = [list(x) for x in fl]
            elif style == 'random':
                c = [_rnd_chunks(rng, n) for n in dims]
            elif style == 'finer':
                c = [[1] * n if rng.random() < 0.6 else _rnd_chunks(rng, n) for n in dims]
            else:
                c = [list(x) for x in fl]
                axes = {'shifted_time': [0], 'shifted_freq': [1], 'shifted_both': [0, 1]}[style]
                for ax in axes:
                    sh = _shifted(rng, fl[ax])
                    if sh is None:
                        ok = False
                    else:
                        c[ax] = sh
            chunks[name] = c[:2] if name == 'weights_channel' else c
        if not ok:
            continue
        pre = []
        if rng.random() < 0.3:
            for n in (T, F)[:rng.choice([1, 2])]:
                a, b = sorted(rng.sample(range(n + 1), 2))
                pre.append(None if rng.random() < 0.3 else [a, b])
        return dict(T=T, F=F, B=B, chunks=chunks, pre=pre, style=style, path=path, seed=rng.randint(0, 10 ** 6))
    raise RuntimeError('no geometry for ' + style)


def dmg_values(geo):
    """Stored values: vis never 0 (a zero means zero-filled), weights > 0, stored flags rarely carry data_lost."""
    rs = np.random.RandomState(geo['seed'])
    T, F, B = geo['T'], geo['F'], geo['B']
    vis = (rs.randint(1, 100, (T, F, B)) + 1j * rs.randint(0, 100, (T, F, B))).astype(np.complex64)
    flags = (rs.randint(0, 256, (T, F, B)) & 0xf7).astype(np.uint8)
    flags |= (rs.random_sample((T, F, B)) < 0.05).astype(np.uint8) * np.uint8(8)
    weights = rs.randint(1, 9, (T, F, B)).astype(np.uint8)
    wc = rs.randint(1, 5, (T, F)).astype(np.float32)
    return dict(correlator_data=vis, flags=flags, weights=weights, weights_channel=wc)


def _enc_vis(a):
    a = np.asarray(a)
    return np.rint(a.real).astype(np.int64) * 256 + np.rint(a.imag).astype(np.int64)


def _chunk_starts(chunks, idx):
    return [int(sum(c[:i])) for c, i in zip(chunks, idx)]


def _chunk_slices(chunks, idx):
    return tuple(slice(int(sum(c[:i])), int(sum(c[:i + 1]))) for c, i in zip(chunks, idx))


def _all_idx(chunks):
    return [tuple(int(i) for i in ix) for ix in np.ndindex(*[len(c) for c in chunks])]


DMG_STATUS = {'status_401': 401, 'status_403': 403}      # S3 only: the request itself is refused (AuthorisationFailed)


def dmg_bytes(kind, offset, full, arr):
    """What is stored under the chunk's name after the damage (None = nothing)."""
    from katdal.chunkstore import npy_header_and_body
    if kind == 'remove':
        return None
    if kind in DMG_STATUS:
        return ('status', DMG_STATUS[kind])
    if kind == 'truncate':
        return full[:offset]
    if kind == 'bad_magic':
        return b'\x93NUMPX' + full[6:]
    if kind == 'bad_dtype':
        b = arr.astype('<f8') if arr.dtype != np.dtype('<f8') else arr.astype('<f4')
    elif kind == 'bad_shape':
        b = np.concatenate([arr, arr], axis=0)
    else:
        raise ValueError(kind)
    h, bb = npy_header_and_body(np.ascontiguousarray(b))
    return bytes(h) + bb.tobytes()


def dmg_norm_window(w, n):
    if w is None:
        return []
    lo, hi = w
    return [] if (lo == 0 and hi >= n) else [lo, hi]


def dmg_py_spec(geo, vals, damages):
    """Independent numpy statement of the property for this part: (must_fail, vis, weights, flags) over the window."""
    T, F, B = geo['T'], geo['F'], geo['B']
    miss = {k: np.zeros((T, F) if k == 'weights_channel' else (T, F, B), bool) for k in ARRAYS}
    sel = tuple(slice(None) if w is None else slice(w[0], w[1]) for w in geo['pre'])
    sel = sel + (slice(None),) * (2 - len(sel))
    must_fail = False
    for dm in damages:
        sl = _chunk_slices(geo['chunks'][dm['array']], dm['idx'])
        inwin = np.zeros(miss[dm['array']].shape, bool)
        inwin[sl] = True
        if dm['kind'] in ('bad_dtype', 'bad_shape') or dm['kind'] in DMG_STATUS:
            must_fail = must_fail or bool(inwin[sel[:inwin.ndim]].any())
            if dm['kind'] in DMG_STATUS:
                miss[dm['array']][sl] = True     # (irrelevant when the load fails; mirrors the Coq spec)
        else:
            miss[dm['array']][sl] = True
    mv = miss['correlator_data']
    mw = miss['weights'] | miss['weights_channel'][..., None]
    ev = np.where(mv, 0, vals['correlator_data'])[sel]
    ew = np.where(mw, 0, vals['weights'].astype(np.float32) * vals['weights_channel'][..., None])[sel]
    ef = (np.where(miss['flags'], 8, vals['flags']) | np.where(mv | mw, 8, 0)).astype(np.uint8)[sel]
    return must_fail, _enc_vis(ev), ew.astype(np.int64), ef.astype(np.int64)


def dmg_classify(obs, impl, exp):
    if impl.shape != exp.shape:
        return 'shape'
    bad = impl != exp
    if obs == 'flags':
        i8, e8 = impl & 8, exp & 8
        if np.any((i8 == 0) & (e8 != 0)):
            return 'data_lost_not_set'
        if np.any((i8 != 0) & (e8 == 0)):
            return 'data_lost_spurious'
        return 'other_bits_changed'
    if np.any(bad & (exp == 0)):
        return 'damaged_not_zeroed'
    if np.any(bad & (impl == 0)):
        return 'healthy_zeroed'
    return 'wrong_value'


def dmg_first_bad(impl, exp):
    if impl.shape != exp.shape:
        return dict(impl_shape=list(impl.shape), expected_shape=list(exp.shape))
    at = np.argwhere(impl != exp)[0].tolist()
    return dict(at=at, impl=int(impl[tuple(at)]), expected=int(exp[tuple(at)]), n_bad=int((impl != exp).sum()))


def dmg_fault_label(dm, hdr_end):
    if dm['kind'] != 'truncate':
        return dm['kind']
    k = dm['offset']
    return 'truncate_' + ('zero' if k == 0 else 'header' if k < hdr_end else 'body') + ('_in_store' if dm.get('mode') == 'store' else '')


class _DmgStore:
    """One data set on disk (and optionally behind the loopback S3 server) that can be damaged and restored."""

    def __init__(self, geo, tmp, srv=None):
        from katdal.chunkstore_npy import NpyFileChunkStore
        self.geo, self.tmp, self.srv = geo, tmp, srv
        self.vals = dmg_values(geo)
        self.x = None
        os.makedirs(tmp, exist_ok=True)
        pre = {}
        raw = geo['pre']
        if len(raw) > 0 and raw[0] is not None:
            pre['dumps'] = slice(raw[0][0], raw[0][1])
        if len(raw) > 1 and raw[1] is not None:
            pre['channels'] = slice(raw[1][0], raw[1][1])
        chunks = {k: tuple(tuple(int(c) for c in ax) for ax in geo['chunks'][k]) for k in ARRAYS}
        if geo['path'] == 'v4':
            ants = ('m000',) if geo['B'] == 4 else ('m000', 'm001')
            self.x = v4.build_v4(T=geo['T'], F=geo['F'], ants=ants, arrays=dict(self.vals), chunks=chunks, tmp=tmp,
                                 seed=geo['seed'], source_kwargs={'preselect': pre} if pre else None, acts=((0, 'track'),))
            self.store, self.info = self.x.store, self.x.chunk_info
        else:
            self.store = NpyFileChunkStore(tmp)
            self.info = {k: v4.put_array(self.store, 'cb-sdp-l0', k, self.vals[k], chunks[k]) for k in ARRAYS}
        self.index = tuple(slice(None) if w is None else slice(w[0], w[1]) for w in raw)
        self.s3 = None
        if srv is not None:
            for root, _, fs_ in os.walk(tmp):
                for f in fs_:
                    if f.endswith('.npy'):
                        q = os.path.join(root, f)
                        srv.put('/' + os.path.relpath(q, tmp), open(q, 'rb').read())
            self.s3 = s3_store(srv.url)

    def rel(self, name, idx):
        starts = _chunk_starts(self.geo['chunks'][name], idx)
        return os.path.join(self.info[name]['prefix'], name, '_'.join('%05d' % s for s in starts) + '.npy')

    def original(self, name, idx):
        return open(os.path.join(self.tmp, self.rel(name, idx)), 'rb').read()

    def apply(self, name, idx, data, full, via_s3, mode=None):
        rel = self.rel(name, idx)
        if via_s3:
            if isinstance(data, tuple):
                self.srv.plan('/' + rel, data)
            elif data is None:
                self.srv.plan('/' + rel, ('status', 404))
            elif len(data) < len(full) and full.startswith(data) and mode == 'store':
                self.srv.plan('/' + rel, ('raw', len(data), data))    # the object is short IN THE STORE: honest Content-Length
            elif len(data) < len(full) and full.startswith(data):
                self.srv.plan('/' + rel, ('cut', len(data)))      # whole-object Content-Length, body cut
            else:
                self.srv.put('/' + rel, data)
            return
        fn = os.path.join(self.tmp, rel)
        if data is None:
            os.remove(fn)
        else:
            with open(fn, 'wb') as f:
                f.write(data)

    def restore(self, name, idx, full, via_s3):
        rel = self.rel(name, idx)
        if via_s3:
            self.srv.plan('/' + rel, None)
            self.srv.put('/' + rel, full)
            return
        with open(os.path.join(self.tmp, rel), 'wb') as f:
            f.write(full)

    def load(self, via_s3):
        import dask
        from katdal.vis_flags_weights import ChunkStoreVisFlagsWeights
        try:
            with dask.config.set(scheduler='sync'):
                if self.x is not None and not via_s3:
                    d = self.x.d
                    return ('ok', np.asarray(d.vis[:]), np.asarray(d.weights[:]), np.asarray(d.raw_flags[:]))
                vfw = ChunkStoreVisFlagsWeights(self.s3 if via_s3 else self.store, self.info, preselect_index=self.index)
                vis, weights, flags = dask.compute(vfw.vis, vfw.weights, vfw.flags)
                return ('ok', vis, weights, flags)
        except BaseException as e:   # noqa: B902
            return ('raise', exn_index(e), repr(e)[:200])


def dmg_scenarios(ctx, geo, st, n_random, every_chunk):
    """List of scenarios; a scenario is a list of damages dict(array, idx, kind, offset)."""
    rng = ctx.rng
    out = []
    chunks = geo['chunks']

    def one(name, idx, kind=None):
        full = st.original(name, idx)
        arr = st.vals[name][_chunk_slices(chunks[name], idx)]
        hdr_end = len(full) - arr.nbytes
        kind = kind or rng.choice(['truncate'] * 6 + ['remove'] + ([] if geo.get('s3') else ['bad_magic']))
        off = None
        if kind == 'truncate':
            off = rng.choice([k for k in (0, 1, 5, 6, 7, 8, 9, 10, 11, hdr_end - 1, hdr_end, hdr_end + 1, len(full) - 1,
                                          rng.randrange(len(full)), rng.randrange(len(full))) if 0 <= k < len(full)])
        dm = dict(array=name, idx=list(idx), kind=kind, offset=off)
        if kind == 'truncate' and geo.get('s3'):
            dm['mode'] = rng.choice(['store', 'store', 'flight'])
        return dm
    if every_chunk:      # every chunk of every array once (which elements a damaged chunk covers is the point)
        allc = [(name, idx) for name in ARRAYS for idx in _all_idx(chunks[name])]
        if ctx.tier != 'thorough' and len(allc) > every_chunk:
            allc = rng.sample(allc, every_chunk)
        for name, idx in allc:
            out.append([one(name, idx)])
    if geo.get('s3'):    # the request for one chunk is refused: the load must fail with StoreUnavailable
        for kind in sorted(DMG_STATUS):
            name = rng.choice(ARRAYS)
            out.append([one(name, rng.choice(_all_idx(chunks[name])), kind)])
    for _ in range(n_random):
        r = rng.random()
        name = rng.choice(ARRAYS)
        idx = rng.choice(_all_idx(chunks[name]))
        if r < 0.5:
            out.append([one(name, idx)])
        elif r < 0.65:
            out.append([one(name, idx, rng.choice(['bad_dtype', 'bad_shape'] + (sorted(DMG_STATUS) if geo.get('s3') else [])))])
        else:            # several chunks at once, different arrays or the same
            sc = [one(name, idx)]
            for _ in range(rng.randint(1, 2)):
                n2 = rng.choice(ARRAYS)
                i2 = rng.choice(_all_idx(chunks[n2]))
                if not any(d['array'] == n2 and d['idx'] == list(i2) for d in sc):
                    sc.append(one(n2, i2, rng.choice(['truncate', 'truncate', 'remove', 'bad_dtype'])))
            out.append(sc)
    return out


def dmg_wire(geo, st, scenario, via_s3):
    dims = [geo['T'], geo['F']]
    win = [dmg_norm_window(w, n) for w, n in zip(geo['pre'], dims)]
    chunks = [geo['chunks'][k] for k in ARRAYS]
    vals = st.vals
    data = [_enc_vis(vals['correlator_data']).ravel().tolist(), vals['flags'].ravel().astype(int).tolist(),
            vals['weights'].ravel().astype(int).tolist(), vals['weights_channel'].ravel().astype(int).tolist()]
    files = []
    for dm in scenario:
        name, idx = dm['array'], tuple(dm['idx'])
        full = st.original(name, idx)
        sl = _chunk_slices(geo['chunks'][name], idx)
        arr = vals[name][sl]
        b = dmg_bytes(dm['kind'], dm['offset'], full, arr)
        files.append([ARRAYS.index(name), _chunk_starts(geo['chunks'][name], idx), want_of(DMG_DT[name], arr.shape),
                      IDX['K_AuthorisationFailed'] if isinstance(b, tuple) else [] if b is None else [list(b)]])
    return [82, [3 if via_s3 else 1, chunks, win, data, files]]


def dmg_check(ctx, geo, st, scenario, via_s3, mout):
    """Apply the scenario, load, compare with model (tie) and spec (property), restore."""
    vals = st.vals
    fulls = []
    labels = []
    for dm in scenario:
        name, idx = dm['array'], tuple(dm['idx'])
        full = st.original(name, idx)
        arr = vals[name][_chunk_slices(geo['chunks'][name], idx)]
        fulls.append(full)
        labels.append(dmg_fault_label(dm, len(full) - arr.nbytes))
    try:
        for dm, full in zip(scenario, fulls):
            arr = vals[dm['array']][_chunk_slices(geo['chunks'][dm['array']], tuple(dm['idx']))]
            st.apply(dm['array'], tuple(dm['idx']), dmg_bytes(dm['kind'], dm['offset'], full, arr), full, via_s3, dm.get('mode'))
        res = st.load(via_s3)
    finally:
        for dm, full in zip(scenario, fulls):
            st.restore(dm['array'], tuple(dm['idx']), full, via_s3)
    case = dict(part='vfw_damage', geo=geo, damages=scenario, via_s3=bool(via_s3), where=labels)
    arrs = sorted({d['array'] for d in scenario})
    kinds = sorted({d['kind'] for d in scenario})
    grid = 'same_counts_shifted' if geo['style'].startswith('shifted') else 'identical' if geo['style'] == 'identical' else 'independent'
    feats = 'part=vfw_damage;path=%s;store=%s;grid=%s;array=%s;fault=%s' % (
        geo['path'], 's3' if via_s3 else 'npy', grid, arrs[0] if len(arrs) == 1 else 'several' if arrs else 'none',
        kinds[0] if len(kinds) == 1 else 'several' if kinds else 'none')
    must_fail, pv, pw, pf = dmg_py_spec(geo, vals, scenario)
    spec = dict(vis=pv, weights=pw, flags=pf)
    shape = pv.shape
    model = None
    errs = None
    if mout is not None and mout != [-999]:
        errs = mout[0]
        n = int(np.prod(shape))
        if tuple(mout[1]) != shape:
            ctx.disagree(feats + ';symptom=model_shape', case, list(shape), mout[1], 'model window shape differs', kind='tie')
        else:
            model = dict(vis=np.array(mout[2], np.int64).reshape(shape), weights=np.array(mout[3], np.int64).reshape(shape),
                         flags=np.array(mout[4], np.int64).reshape(shape))
            cspec = dict(vis=np.array(mout[5], np.int64).reshape(shape), weights=np.array(mout[6], np.int64).reshape(shape),
                         flags=np.array(mout[7], np.int64).reshape(shape))
            for obs in ('vis', 'weights', 'flags'):
                if not np.array_equal(cspec[obs], spec[obs]):
                    ctx.disagree(feats + ';obs=%s;symptom=coq_spec_vs_numpy_spec' % obs, case, dmg_first_bad(spec[obs], cspec[obs]),
                                 None, 'extracted spec differs from the numpy statement of the spec', kind='tie')
            if bool(mout[8]) != must_fail:
                ctx.disagree(feats + ';symptom=coq_must_fail_vs_numpy', case, must_fail, mout[8],
                             'extracted spec_must_fail differs from the numpy statement', kind='tie')
            if not mout[10]:     # the model then has an empty lost map: only the spec is compared below
                if not ctx.searching:
                    # (when an obligation is already reported as broken - the proof that needs this flag is one - this is
                    # not a failing INPUT: it was a false alarm on the benign refactor C08-3)
                    ctx.disagree('part=vfw_damage;symptom=lost_map_source_not_modelled', case, None, None,
                                 'the lost-map section of vis_flags_weights.py is not the modelled code', kind='tie')
                model = None
        del n
    ctx.traces_validated += 1
    if res[0] == 'raise':
        if errs is not None and res[1] not in errs:
            ctx.disagree(feats + ';symptom=load_raises', case, 'raise ' + exn_label(res[1]) + ' ' + res[2],
                         [exn_label(e) for e in errs], 'load raised an exception the model does not predict', kind='tie')
        if must_fail:
            from katdal.chunkstore import BadChunk, StoreUnavailable
            want = set()
            for dmx in scenario:
                want.add(StoreUnavailable if dmx['kind'] in DMG_STATUS else BadChunk if dmx['kind'] in ('bad_dtype', 'bad_shape') else None)
            want.discard(None)
            cls = classes()[res[1]] if res[1] >= 0 else None
            if cls is None or not any(issubclass(cls, w) for w in want):
                ctx.disagree(feats + ';symptom=wrong_failure_class', case, 'raise ' + exn_label(res[1]) + ' ' + res[2],
                             sorted(w.__name__ for w in want), 'the load failed, but not with BadChunk / StoreUnavailable')
        if not must_fail:
            if not is_chunkstore_error(res[1]):
                ctx.disagree(feats + ';symptom=raw_exception', case, 'raise ' + exn_label(res[1]) + ' ' + res[2], 'data_lost or a ChunkStoreError',
                             'a damaged chunk made the load fail with a raw (non chunk-store) exception')
            elif errs is None:
                ctx.disagree(feats + ';symptom=load_raises', case, 'raise ' + exn_label(res[1]) + ' ' + res[2], 'zero-filled + data_lost',
                             'a damaged (undecodable) chunk made the load fail instead of being flagged', kind='tie')
        return 'raise'
    if must_fail:
        ctx.disagree(feats + ';symptom=load_succeeds', case, 'load succeeded', 'raise BadChunk / StoreUnavailable',
                     'a mismatched chunk / refused request inside the window did not make the load fail')
        return 'ok'
    if errs:
        ctx.disagree(feats + ';symptom=load_succeeds', case, 'load succeeded', [exn_label(e) for e in errs],
                     'load succeeded although the model says it raises', kind='tie')
    impl = dict(vis=_enc_vis(res[1]), weights=np.asarray(res[2]).astype(np.float64), flags=np.asarray(res[3]).astype(np.int64))
    if not np.array_equal(impl['weights'], np.rint(impl['weights'])):
        ctx.disagree(feats + ';obs=weights;symptom=non_integral', case, None, None, 'weights are not the exact products')
    impl['weights'] = impl['weights'].astype(np.int64)
    for obs in ('vis', 'weights', 'flags'):
        same = model is not None and np.array_equal(model[obs], spec[obs])     # then the property line below says it all
        if model is not None and not errs and not same and (impl[obs].shape != shape or not np.array_equal(impl[obs], model[obs])):
            ctx.disagree(feats + ';obs=%s;tie;symptom=%s' % (obs, dmg_classify(obs, impl[obs], model[obs])), case,
                         dmg_first_bad(impl[obs], model[obs]), None, 'katdal differs from the model on ' + obs, kind='tie')
        if impl[obs].shape != shape or not np.array_equal(impl[obs], spec[obs]):
            fb = dmg_first_bad(impl[obs], spec[obs])
            ctx.disagree(feats + ';obs=%s;symptom=%s' % (obs, dmg_classify(obs, impl[obs], spec[obs])), case, fb, None,
                         'loaded %s differ from "zero-filled and data_lost exactly on the damaged chunks"' % obs, spec=fb)
    return 'ok'


def dmg_open(ctx, geo, d, srv):
    """Write the data set and open it; a healthy store that cannot be opened is a violation in itself."""
    try:
        return _DmgStore(geo, d, srv if geo.get('s3') else None)
    except Exception as e:
        ctx.disagree('part=vfw_damage;path=%s;symptom=open_raises:%s' % (geo['path'], type(e).__name__),
                     dict(part='vfw_damage', geo=geo, damages=[], via_s3=bool(geo.get('s3'))), repr(e)[:300], None,
                     'a healthy data set with these chunkings could not be written / opened')
        ctx.note_case(('vfw_damage_open', str(geo)), nontrivial=False)
        return None


def dmg_run_geometry(ctx, geo, tmp, srv, n_random, every_chunk, tag):
    d = os.path.join(tmp, 'dmg_%s' % tag)
    st = dmg_open(ctx, geo, d, srv)
    if st is None:
        shutil.rmtree(d, ignore_errors=True)
        return
    try:
        scen = dmg_scenarios(ctx, geo, st, n_random, every_chunk)
        dmg_run_scenarios(ctx, geo, st, scen)
    finally:
        shutil.rmtree(d, ignore_errors=True)


def dmg_run_scenarios(ctx, geo, st, scen):
    via = bool(geo.get('s3'))
    mouts = ctx.model([dmg_wire(geo, st, sc, via) for sc in scen]) if wire_ok(ctx, 82) else [None] * len(scen)
    # healthy store first: nothing flagged, nothing zeroed
    m0 = ctx.model([dmg_wire(geo, st, [], via)])[0] if wire_ok(ctx, 82) else None
    dmg_check(ctx, geo, st, [], via, m0)
    for sc, mo in zip(scen, mouts):
        out = dmg_check(ctx, geo, st, sc, via, mo)
        key = (geo['path'], via, geo['T'], geo['F'], geo['B'], str(geo['chunks']), str(geo['pre']),
               tuple((d['array'], tuple(d['idx']), d['kind'], d['offset'], d.get('mode')) for d in sc))
        straddle = geo['style'].startswith('shifted') or geo['style'] in ('random', 'finer')
        ctx.note_case(key, nontrivial=True,
                      sample=dict(style=geo['style'], path=geo['path'], chunks=geo['chunks'], pre=geo['pre'], damages=sc, outcome=out)
                      if straddle and len(sc) == 1 and sc[0]['kind'] == 'truncate' else None)
        ctx.count('vfw_damage:grid=' + geo['style'])
        ctx.count('vfw_damage:path=' + geo['path'] + (':s3' if via else ''))
        ctx.count('vfw_damage:n_damaged=%d' % len(sc))
        ctx.count('vfw_damage:outcome=' + out)
        for dmn in sc:
            ctx.count('vfw_damage:kind=' + dmn['kind'])


def part_vfw_damage(ctx, tmp, only=None):
    srv = None
    try:
        if only is not None:
            geo, scen = only
            if geo.get('s3'):
                srv = c08_s3fake.FakeS3()
            d = os.path.join(tmp, 'dmg_replay')
            st = dmg_open(ctx, geo, d, srv)
            if st is not None:
                dmg_run_scenarios(ctx, geo, st, [scen] if scen else [])
            return
        thorough = ctx.tier == 'thorough'
        # fixed: the geometry of the missed seeded change (same block counts, shifted boundaries) on each path
        plan = [('shifted_time', 'vfw', False, True), ('shifted_freq', 'vfw', False, True), ('shifted_both', 'vfw', False, True),
                ('shifted_both', 'v4', False, True), ('identical', 'vfw', False, False), ('random', 'vfw', False, True),
                ('finer', 'v4', False, False), ('shifted_time', 'vfw', True, False), ('random', 'vfw', True, False)]
        for _ in range(ctx.scale(3, 60)):
            plan.append((ctx.rng.choice(DMG_STYLES), ctx.rng.choice(['vfw', 'vfw', 'v4']), ctx.rng.random() < 0.2,
                         ctx.rng.random() < 0.5))
        for gi, (style, path, s3, every) in enumerate(plan):
            if s3 and srv is None:
                srv = c08_s3fake.FakeS3()
            geo = dmg_geometry(ctx.rng, style, 'vfw' if s3 else path)
            geo['s3'] = bool(s3)
            dmg_run_geometry(ctx, geo, tmp, srv, (12 if thorough else 5) if not s3 else (8 if thorough else 4),
                             (24 if gi < 4 else 10) if every else 0, str(gi))
    finally:
        if srv is not None:
            srv.close()


# ------------------------------------------------------------------------------------------------
# part 6: strace of put_chunk, crash points, injected errors, short write

SYSCALLS = 'openat,open,creat,write,pwrite64,writev,pwritev,ftruncate,truncate,rename,renameat,renameat2,unlink,unlinkat,link,linkat'
LINE = re.compile(r'^(\d+)\s+(\w+)\((.*)\)\s+=\s+(-?\d+|\?)(.*)$')
_STRACE_FAST = None


def strace_fast():
    """['--seccomp-bpf'] when this strace accepts it (only the traced system calls stop the child: the Python
    start-up of every traced child is 2x faster), else []."""
    global _STRACE_FAST
    if _STRACE_FAST is None:
        r = subprocess.run(['strace', '-f', '--seccomp-bpf', '-o', '/dev/null', '-e', 'trace=rename', 'true'], capture_output=True, text=True)
        _STRACE_FAST = ['--seccomp-bpf'] if r.returncode == 0 and not r.stderr.strip() else []
    return _STRACE_FAST


_ATTACH = [True]
PUT_WORKERS = 8       # injected children of part 6 that run at the same time


class _Done:
    def __init__(self, stdout, stderr, returncode):
        self.stdout, self.stderr, self.returncode = stdout, stderr, returncode


def run_child_attached(cmd, trace, tmpn, finaln, inject, timeout):
    """Fault injection needs every traced system call to stop (no seccomp filter), which makes the Python start-up
    of the child slow; so the child starts untraced, imports everything, says READY and waits; strace (with the
    injection) is attached to it, and only then it is told to do the put.  Returns None when attaching fails."""
    import select
    if os.path.exists(trace):
        os.remove(trace)
    p = subprocess.Popen(cmd, stdin=subprocess.PIPE, stdout=subprocess.PIPE, stderr=subprocess.PIPE, text=True,
                         env=dict(child_env(), C08_WAIT='1'))
    st = None
    try:
        line = ''
        if select.select([p.stdout], [], [], 60)[0]:
            line = p.stdout.readline()
        if line.strip() != 'READY':
            out, err = p.communicate(timeout=timeout)
            return _Done(line + out, err, p.returncode)      # e.g. CONSTRUCT <error>: nothing to trace
        st = subprocess.Popen(['strace', '-f', '-p', str(p.pid), '-o', trace, '-e', 'trace=' + SYSCALLS, '-P', tmpn, '-P', finaln,
                               '-e', 'inject=' + inject], stdout=subprocess.DEVNULL, stderr=subprocess.PIPE, text=True)
        ok = False
        if select.select([st.stderr], [], [], 15)[0]:
            ok = 'attached' in st.stderr.readline()
        if not ok:
            p.kill()
            p.communicate()
            return None
        out, err = p.communicate('\n', timeout=timeout)
        try:
            st.wait(timeout=15)
        except subprocess.TimeoutExpired:
            st.kill()
        return _Done(out, err, p.returncode)
    finally:
        if p.poll() is None:
            p.kill()
        if st is not None and st.poll() is None:
            st.kill()


def run_child(d, direct, dt, shape, seed, inject=None, trace=None, timeout=180):
    base = os.path.join(d, 'a', '_'.join('%05d' % 0 for _ in shape))
    tmpn, finaln = base + '.writing.npy', base + '.npy'
    cmd = [sys.executable, CHILD, d, '1' if direct else '0', dt, ','.join(str(s) for s in shape), str(seed)]
    if trace and inject and _ATTACH[0]:
        r = run_child_attached(cmd, trace, tmpn, finaln, inject, timeout)
        if r is not None:
            res = [l for l in r.stdout.splitlines() if l.startswith('RESULT ')]
            return (res[0].split()[1:] if res else None), tmpn, finaln, r
        _ATTACH[0] = False      # strace -p does not work here: trace the child from its start instead
    if trace:
        pre = ['strace', '-f'] + ([] if inject else strace_fast()) + ['-o', trace, '-e', 'trace=' + SYSCALLS, '-P', tmpn, '-P', finaln]
        if inject:
            pre += ['-e', 'inject=' + inject]
        cmd = pre + cmd
    r = subprocess.run(cmd, capture_output=True, text=True, env=child_env(), timeout=timeout)
    res = [l for l in r.stdout.splitlines() if l.startswith('RESULT ')]
    return (res[0].split()[1:] if res else None), tmpn, finaln, r


def parse_trace(path, tmpn, finaln):
    """-> list of ops [kind, name, arg] for syscalls that took effect, in order."""
    ops = []
    for line in open(path):
        m = LINE.match(line.rstrip())
        if not m:
            continue
        _, sc, args, ret, rest = m.groups()
        if ret == '?' or int(ret) < 0:
            continue
        if sc in ('openat', 'open', 'creat'):
            nm = 'tmp' if tmpn in args else 'final' if finaln in args else '?'
            ops.append(['creat' if ('O_CREAT' in args and 'O_TRUNC' in args) or sc == 'creat' else 'open', nm, args.split(', ')[2] if sc == 'openat' else ''])
        elif sc in ('write', 'pwrite64', 'writev', 'pwritev'):
            ops.append(['write', 'tmp', int(ret)])
        elif sc in ('ftruncate', 'truncate'):
            ops.append(['ftruncate', 'tmp', int(args.split(', ')[-1])])
        elif sc.startswith('rename'):
            names = re.findall(r'"([^"]*)"', args)
            ops.append(['rename', 'tmp' if names and names[0] == tmpn else '?', 'final' if len(names) > 1 and names[1] == finaln else '?'])
        else:
            ops.append([sc, '?', args[:60]])
    return ops


def model_ops(ctx, base, sizes, trunc):
    raw = ctx.model([[81, [8, codes(base), [[0] * s for s in sizes], [trunc] if trunc is not None else []]]])[0]
    out = []
    tmpc, finc = codes(base + '.writing.npy'), codes(base + '.npy')
    nm = lambda c: 'tmp' if c == tmpc else 'final' if c == finc else '?'   # noqa: E731
    for op in raw:
        if op[0] == 0:
            out.append(['creat', nm(op[1])])
        elif op[0] == 1:
            out.append(['write', nm(op[1]), op[2]])
        elif op[0] == 2:
            out.append(['ftruncate', nm(op[1]), op[2]])
        else:
            out.append(['rename', nm(op[1]), nm(op[2])])
    return out


def file_entry(p):
    return [list(open(p, 'rb').read())] if os.path.isfile(p) else []


def part_put(ctx, tmp):
    from katdal.chunkstore import npy_header_and_body
    from katdal.chunkstore_npy import NpyFileChunkStore
    if shutil.which('strace') is None:
        ctx.count('strace_unavailable')
        return
    configs = [(False, 'u1', (3, 4)), (True, 'u1', (3, 4)), (False, '<c8', (40, 30))]
    if ctx.tier == 'thorough':
        configs += [(False, '<f4', (0, 3)), (False, 'u1', ()), (True, '<c8', (40, 30)), (False, 'u1', (70000,))]
    for ci, (direct, dt, shape) in enumerate(configs):
        d = '%s/put%d' % (tmp, ci)
        os.makedirs(d + '/a', exist_ok=True)
        new = make_chunk(dt, shape, 2)
        old = make_chunk(dt, shape, 1)
        hdr, body = npy_header_and_body(new)
        new_bytes = bytes(hdr) + body.tobytes()
        hdr, body = npy_header_and_body(old)
        old_bytes = bytes(hdr) + body.tobytes()
        trace = d + '/trace.txt'
        rep, tmpn, finaln, r = run_child(d, direct, dt, shape, 2, trace=trace)
        base = tmpn[:-len('.writing.npy')]
        ops = parse_trace(trace, tmpn, finaln)
        case = dict(part='put_trace', direct_write=direct, dtype=dt, shape=list(shape))
        if rep is None or rep[0] != 'returned' or rep[1] != 'builtins.NoneType':
            if direct:
                ctx.count('direct_write_unsupported')
                continue
            ctx.disagree('part=put_trace;symptom=healthy_put_failed', case, rep, 'returned None', 'a healthy put failed', kind='tie')
            continue
        sizes = [o[2] for o in ops if o[0] == 'write']
        trunc = next((o[2] for o in ops if o[0] == 'ftruncate'), None)
        have_model = wire_ok(ctx, 81)       # without it (broken tie) only the property half of this part runs
        obs_ops = [[o[0], o[1]] + ([o[2]] if o[0] in ('write', 'ftruncate', 'rename') else []) for o in ops]
        mops = model_ops(ctx, base, sizes, trunc) if have_model else obs_ops
        ctx.traces_validated += 1
        if obs_ops != mops:
            ctx.disagree('part=put_trace;direct=%s;symptom=syscall_sequence' % direct, case, obs_ops, mops,
                         'system calls of put_chunk on the temp/final names differ from the model op list', kind='tie')
        got = open(finaln, 'rb').read() if os.path.isfile(finaln) else None
        if got != new_bytes or (trunc is None and sum(sizes) != len(new_bytes)) or (trunc is not None and trunc != len(new_bytes)):
            ctx.disagree('part=put_trace;direct=%s;symptom=final_content' % direct, case, len(got or b''), len(new_bytes),
                         'final file after a healthy put is not header+body', kind='property')
        ctx.note_case(('putT', direct, dt, shape), nontrivial=False, sample=dict(case, ops=obs_ops))
        ctx.count('put_traces')
        # split the bytes handed to write(2) the way the trace shows
        padded = new_bytes + b'\0' * (sum(sizes) - len(new_bytes))
        writes, pos = [], 0
        for s in sizes:
            writes.append(list(padded[pos:pos + s]))
            pos += s
        # fault plan: op index k -> (syscall, ordinal)
        ords, plan = {}, []
        for k, o in enumerate(ops):
            sc = {'creat': 'openat', 'write': 'write', 'ftruncate': 'ftruncate', 'rename': 'rename'}[o[0]]
            ords[sc] = ords.get(sc, 0) + 1
            plan.append((k, sc, ords[sc]))
        faults = []
        for (k, sc, n) in plan:
            faults.append((k, sc, n, 'signal=SIGKILL', None))
            for err, low in (('ENOSPC', 'B_OSError'), ('EIO', 'B_OSError'), ('EACCES', 'B_PermissionError')):
                if err == 'EACCES' and sc != 'openat':
                    continue
                faults.append((k, sc, n, 'error=' + err, low))
        if ctx.tier != 'thorough':
            keep = [f for f in faults if f[3] == 'signal=SIGKILL' and f[1] in ('rename', 'write')][:3]
            rest = [f for f in faults if f not in keep]
            ctx.rng.shuffle(rest)
            faults = (keep + rest)[:(7 if ci == 0 else 4)]
        # the injected children are independent of each other: each gets a directory of its own and they run a few at a
        # time; the comparisons below then go through the results in the original order
        tasks = []
        for (k, sc, n, what, low) in faults:
            for with_old in ((False, True) if (ctx.tier == 'thorough' or what == 'signal=SIGKILL') else (ctx.rng.random() < 0.5,)):
                tasks.append((k, sc, n, what, low, with_old))

        def run_task(j):
            k, sc, n, what, low, with_old = tasks[j]
            dj = '%s_f%d' % (d, j)
            os.makedirs(dj + '/a', exist_ok=True)
            fj = os.path.join(dj, 'a', os.path.basename(finaln))
            if with_old:
                with open(fj, 'wb') as f:
                    f.write(old_bytes)
            return run_child(dj, direct, dt, shape, 2, inject='%s:%s:when=%d' % (sc, what, n), trace=dj + '/trace.txt')
        with concurrent.futures.ThreadPoolExecutor(max_workers=PUT_WORKERS) as pool:
            results = list(pool.map(run_task, range(len(tasks))))
        d0, tmpn0, finaln0, base0 = d, tmpn, finaln, base
        for j, (k, sc, n, what, low, with_old) in enumerate(tasks):
            if True:
                rep, tmpn, finaln, r = results[j]
                d = '%s_f%d' % (d0, j)
                base = tmpn[:-len('.writing.npy')]
                fin, tm = file_entry(finaln), file_entry(tmpn)
                oldw = [list(old_bytes)] if with_old else []
                if low is None:
                    flts = [[1, k, []], [1, k + 1, []]]
                    obs_rep = [] if rep is None else ['reported', rep]
                else:
                    flts = [[2, k, [], IDX[low]]]
                    qn = rep[1] if rep else None
                    i = [q for _, q in EXN].index(qn) if qn in [q for _, q in EXN] else -1
                    obs_rep = [] if rep is None else ([0] if qn == 'builtins.NoneType' else [1 if rep[0] == 'returned' else 2, i])
                obs = [obs_rep, fin, tm]
                exps = (ctx.model([[81, [9, codes(base), writes, [trunc] if trunc is not None else [], 1, fl, oldw]] for fl in flts])
                        if have_model else [obs])
                case = dict(part='put_fault', direct_write=direct, dtype=dt, shape=list(shape), op=k, syscall=sc,
                            inject=what, previous_chunk=with_old)
                ctx.traces_validated += 1
                if low is not None:
                    # after a FAILED call Python's buffered writer may retry the flush when the file is closed:
                    # the temp file content is only required to be a prefix of what was to be written
                    tmp_ok = (not tm) or bytes(tm[0]) == padded[:len(tm[0])]
                    agree = tmp_ok and any(obs[:2] == e[:2] for e in exps)
                else:
                    agree = obs in exps
                if not agree:
                    short = lambda t: [t[0], ['absent'] if not t[1] else [len(t[1][0])], ['absent'] if not t[2] else [len(t[2][0])]]   # noqa: E731
                    ctx.disagree('part=put_fault;direct=%s;syscall=%s;inject=%s;symptom=state' % (direct, sc, what.split('=')[1]), case,
                                 short(obs), [short(e) for e in exps],
                                 'report / final file / temp file after the fault differ from the model', kind='tie')
                # the property, on the observation alone
                state = 'absent' if not fin else 'old' if bytes(fin[0]) == old_bytes else 'new' if bytes(fin[0]) == new_bytes else 'OTHER'
                allowed = {'old' if with_old else 'absent', 'new'}
                if state not in allowed:
                    ctx.disagree('part=put_fault;direct=%s;symptom=final_%s' % (direct, state), case, state, sorted(allowed),
                                 'after an interrupted / failed put the final name holds neither the previous nor the new chunk')
                if low is not None and (rep is None or rep[1] == 'builtins.NoneType') and state != 'new':
                    ctx.disagree('part=put_fault;direct=%s;symptom=failure_swallowed' % direct, case, rep, 'an error object',
                                 'put_chunk_noraise reported success although the put failed')
                if low is not None and rep is not None and rep[1] == 'builtins.NoneType' and state == 'new' and sc != 'never':
                    ctx.disagree('part=put_fault;direct=%s;symptom=injected_error_ignored' % direct, case, rep, 'an error object',
                                 'an injected I/O error was ignored', kind='tie')
                # a fresh reader
                reader = NpyFileChunkStore(d)
                sl = tuple(slice(0, s) for s in shape)
                try:
                    y = reader.get_chunk('a', sl, new.dtype)
                    seen = 'new' if np.array_equal(y, new) else 'old' if np.array_equal(y, old) else 'OTHER'
                except Exception as e:
                    seen = 'raise ' + exn_label(exn_index(e))
                want = {'new': 'new', 'old': 'old', 'absent': 'raise katdal.chunkstore.ChunkNotFound'}.get(state, '?')
                if new.size == 0 and seen in ('new', 'old'):
                    seen = want if want in ('new', 'old') else seen
                if seen != want:
                    ctx.disagree('part=put_fault;direct=%s;symptom=reader_%s' % (direct, seen.split('.')[-1]), case, seen, want,
                                 'a fresh reader does not see the previous state or the complete new chunk')
                ctx.note_case(('putF', direct, dt, shape, k, what, with_old), nontrivial=True,
                              sample=dict(case, report=rep, final=state, reader=seen) if what == 'error=ENOSPC' and sc == 'write' else None)
                ctx.count('put_faults:' + what.split('=')[1])
                shutil.rmtree(d, ignore_errors=True)
        d, tmpn, finaln, base = d0, tmpn0, finaln0, base0
        for p in (tmpn, finaln):
            if os.path.exists(p):
                os.remove(p)
    part_short_write(ctx, tmp)


def part_short_write(ctx, tmp):
    """direct_write on a nearly full 16 KiB tmpfs: write(2) of the padded buffer comes back short."""
    from katdal.chunkstore import npy_header_and_body
    if getattr(ctx, '_c08_short_write_done', False):
        return          # already run as the witness of C08-F5e in this check
    ctx._c08_short_write_done = True
    mnt = tmp + '/tmpfs'
    os.makedirs(mnt, exist_ok=True)
    r = subprocess.run(['mount', '-t', 'tmpfs', '-o', 'size=16k', 'tmpfs', mnt], capture_output=True, text=True)
    if r.returncode != 0:
        ctx.count('short_write_env_unavailable')
        return
    try:
        os.makedirs(mnt + '/a')
        with open(mnt + '/filler', 'wb') as f:
            f.write(b'\0' * 8192)
        dt, shape = 'u1', (9000,)
        new = make_chunk(dt, shape, 2)
        hdr, body = npy_header_and_body(new)
        new_bytes = bytes(hdr) + body.tobytes()
        rep, tmpn, finaln, _ = run_child(mnt, True, dt, shape, 2)
        fin, tm = file_entry(finaln), file_entry(tmpn)
        base = tmpn[:-len('.writing.npy')]
        padded = new_bytes + b'\0' * (-len(new_bytes) % 4096)
        part = list(padded[:len(tm[0])]) if tm else (list(padded[:8192]))
        exp = ctx.model([[81, [9, codes(base), [list(padded)], [len(new_bytes)], 1, [3, 1, part], []]]])[0] if wire_ok(ctx, 81) else None
        qn = rep[1] if rep else None
        i = [q for _, q in EXN].index(qn) if qn in [q for _, q in EXN] else -1
        obs_rep = [] if rep is None else ([0] if qn == 'builtins.NoneType' else [1 if rep[0] == 'returned' else 2, i])
        case = dict(part='short_write', direct_write=True, dtype=dt, shape=list(shape), free_bytes=8192)
        ctx.traces_validated += 1
        if exp is not None and [obs_rep, fin, tm] != exp:
            ctx.disagree('part=short_write;symptom=state', case, [obs_rep, len(fin[0]) if fin else None, len(tm[0]) if tm else None],
                         [exp[0], len(exp[1][0]) if exp[1] else None, len(exp[2][0]) if exp[2] else None],
                         'outcome of a short write differs from the model', kind='tie')
        if fin and bytes(fin[0]) != new_bytes:
            try:
                y = np.load(finaln)
                wrong = int(np.sum(y != new)) if y.shape == new.shape else -1
            except Exception:
                wrong = -2          # not even loadable
            ctx.disagree('store=npy;direct_write;fault=short_write;symptom=%s' % ('zero_padded_chunk_published' if wrong > -2 else 'damaged_chunk_published'), case,
                         dict(report=rep, final_size=len(fin[0]), wrong_elements=wrong),
                         'final absent, error reported',
                         'a short write was padded with zeros by ftruncate and renamed onto the final name: a reader gets wrong data')
        if not fin and (rep is None or rep[1] == 'builtins.NoneType'):
            ctx.disagree('part=short_write;symptom=failure_swallowed', case, rep, 'an error object', 'failed put reported as success')
        ctx.note_case(('short_write',), nontrivial=True, sample=dict(case, report=rep, final='absent' if not fin else len(fin[0])))
        ctx.count('short_write_cases')
    finally:
        subprocess.run(['umount', mnt], capture_output=True)
    # the same on the plain path and on top of a previous good chunk (property only): the file system fills up
    # strictly inside the body, write(2) comes back short (page granularity), then ENOSPC
    dt, shape = 'u1', (9000,)
    new, old = make_chunk(dt, shape, 2), make_chunk(dt, shape, 1)
    new_bytes, old_bytes = _old_bytes(new), _old_bytes(old)
    for direct, with_old in ((False, False), (False, True), (True, True)):
        if subprocess.run(['mount', '-t', 'tmpfs', '-o', 'size=16k', 'tmpfs', mnt], capture_output=True).returncode != 0:
            ctx.count('short_write_env_unavailable')
            return
        try:
            os.makedirs(mnt + '/a')
            finaln = mnt + '/a/00000.npy'
            if with_old:
                with open(finaln, 'wb') as f:       # 3 of the 4 pages: one page is left for the new chunk
                    f.write(old_bytes)
            else:
                with open(mnt + '/filler', 'wb') as f:
                    f.write(b'\0' * 8192)
            rep, tmpn, finaln, _ = run_child(mnt, direct, dt, shape, 2)
            fin = file_entry(finaln)
            state = 'absent' if not fin else 'old' if bytes(fin[0]) == old_bytes else 'new' if bytes(fin[0]) == new_bytes else 'damaged'
            case = dict(part='short_write', direct_write=direct, dtype=dt, shape=list(shape), previous_chunk=with_old,
                        free_bytes=4096 if with_old else 8192)
            sig = 'part=short_write;direct=%s;previous=%s;symptom=' % (direct, 'good_chunk' if with_old else 'absent')
            ctx.traces_validated += 1
            if rep is None and direct:
                ctx.count('direct_write_unsupported')
                continue
            prev = 'old' if with_old else 'absent'
            if state not in (prev, 'new'):
                ctx.disagree(sig + 'final_' + state, case, state, [prev, 'new'],
                             'a put on a full file system left neither the previous state nor the complete new chunk under the final name')
            if rep is None or rep[0] != 'returned' or (rep[1] == 'builtins.NoneType' and state != 'new'):
                ctx.disagree(sig + 'failure_swallowed', case, rep, 'a returned error object', 'failed put (ENOSPC inside the body) not reported')
            ctx.note_case(('short_write', direct, with_old), nontrivial=True, sample=dict(case, report=rep, final=state))
            ctx.count('short_write_cases')
        finally:
            subprocess.run(['umount', mnt], capture_output=True)


# ------------------------------------------------------------------------------------------------
# part 7: puts under a file-size limit at every byte offset (short writes on the plain and the direct path)

LIMIT_CONFIGS_QUICK = [(False, 'u1', (3, 4)), (False, '<f8', (40, 30)), (True, 'u1', (9000,))]
LIMIT_CONFIGS_MORE = [(False, '<c8', (2, 3, 2)), (False, '<i2', (40, 25)), (False, '<f8', (300, 40)), (False, 'u1', (70000,)), (True, 'u1', (3, 4)),
                      (True, '<c8', (40, 30)), (False, '<f4', (5,))]


def limit_plan(ctx, direct, S, hdr, every):
    """Limits to try for a chunk file of S bytes with an hdr-byte header: every byte offset when `every`, else
    every offset around the places where behaviour changes plus a random sample strictly inside header and body."""
    pad = -S % 4096 if direct else 0
    if every:
        lims = set(range(0, S + 2))
    else:
        lims = {0, 1, 2, hdr // 2, hdr - 1, hdr, hdr + 1, S - 2, S - 1, S, S + 1}
        for b in (512, 4096, 8192, 65536, 131072):
            lims |= {b - 1, b, b + 1}
        n = 1 if ctx.tier != 'thorough' else 6 if S <= 20000 else 2
        lims |= {ctx.rng.randrange(1, hdr) for _ in range(6 * n)}
        lims |= {ctx.rng.randrange(hdr + 1, S) for _ in range(14 * n)}
    if direct:
        lims |= {k for k in range(0, S + pad + 1, 512)} | {S + pad, S + pad + 1}
    out = []
    for L in sorted(l for l in lims if 0 <= l <= S + pad + 1):
        olds = (0, 1) if (every or ctx.tier == 'thorough' or L in (hdr - 1, hdr + 1, S - 1)) else (ctx.rng.randrange(2),)
        out += [[L, o] for o in olds]
    return out


def parse_limit_trace(path, tmpn, finaln, sep):
    """strace output of a limits sweep -> {i: [(kind, arg, ret, errno name)]} for the calls between the markers."""
    import errno as _errno
    runs, cur = {}, None
    for line in open(path):
        m = LINE.match(line.rstrip())
        if not m:
            if 'unfinished' in line or 'resumed' in line:
                raise RuntimeError('interleaved strace line: ' + line[:100])
            continue
        _, sc, args, ret, rest = m.groups()
        if sc == 'truncate' and sep in args:
            n = int(args.split(', ')[-1])
            if n % 2 == 0:
                cur = n // 2
                runs[cur] = []
            else:
                cur = None
            continue
        if cur is None:
            continue
        r = -1 if ret == '?' else int(ret)
        err = rest.split()[0] if r < 0 and rest.split() else None
        if sc in ('openat', 'open', 'creat'):
            kind = 0 if (tmpn in args and 'O_CREAT' in args and 'O_TRUNC' in args) else -1
            runs[cur].append((kind, 0, r, err))
        elif sc in ('write', 'pwrite64'):
            runs[cur].append((1, int(args.split(', ')[-1 if sc == 'write' else -2]), r, err))
        elif sc in ('ftruncate',):
            runs[cur].append((2, int(args.split(', ')[-1]), r, err))
        elif sc.startswith('rename'):
            names = re.findall(r'"([^"]*)"', args)
            runs[cur].append((3 if names[:2] == [tmpn, finaln] else -1, 0, r, err))
        else:
            runs[cur].append((-1, 0, r, err))
    return runs


def oserror_index(name):
    import errno as _errno
    return exn_index(OSError(getattr(_errno, name, _errno.EIO), 'x'))


def part_put_limit(ctx, tmp, only=None):
    from katdal.chunkstore import npy_header_and_body
    import json
    if shutil.which('strace') is None:
        ctx.count('strace_unavailable')
    configs = list(LIMIT_CONFIGS_QUICK) + (LIMIT_CONFIGS_MORE if ctx.tier == 'thorough' else [])
    if only is not None:
        configs = [tuple(only[:3])]
    # the sweep children (one per geometry) are independent: the plans are drawn first, in order, then the children run
    # side by side; the comparisons below go through them in the original order
    use_strace = shutil.which('strace') is not None
    prepared = []
    for ci, (direct, dt, shape) in enumerate(configs):
        shape = tuple(shape)
        d = '%s/lim%d' % (tmp, ci)
        os.makedirs(d + '/a', exist_ok=True)
        new = make_chunk(dt, shape, 2)
        hdr, body = npy_header_and_body(new)
        S, hlen = len(bytes(hdr)) + body.nbytes, len(bytes(hdr))
        base = os.path.join(d, 'a', '_'.join('%05d' % 0 for _ in shape))
        tmpn, finaln, sep = base + '.writing.npy', base + '.npy', d + '/sep'
        open(sep, 'wb').close()
        if only is not None:
            plan = [[None, 0], [only[3], 1 if only[4] else 0]]
        else:
            plan = [[None, 0]] + limit_plan(ctx, direct, S, hlen, every=(S <= 200 or (ctx.tier == 'thorough' and S <= 2500 and not direct)))
        cmd = [sys.executable, CHILD, d, '1' if direct else '0', dt, ','.join(str(x) for x in shape), '2']
        if use_strace:
            cmd = ['strace', '-f'] + strace_fast() + ['-o', d + '/trace.txt', '-e', 'trace=' + SYSCALLS, '-P', tmpn, '-P', finaln, '-P', sep] + cmd
        prepared.append((plan, cmd, sep))

    def sweep(j):
        plan, cmd, sep = prepared[j]
        return subprocess.run(cmd, input=json.dumps(dict(limits=plan, sep=sep)), capture_output=True, text=True,
                              env=dict(child_env(), C08_MODE='limits'), timeout=600)
    with concurrent.futures.ThreadPoolExecutor(max_workers=4) as pool:
        swept = list(pool.map(sweep, range(len(prepared))))
    for ci, (direct, dt, shape) in enumerate(configs):
        shape = tuple(shape)
        d = '%s/lim%d' % (tmp, ci)
        new, old = make_chunk(dt, shape, 2), make_chunk(dt, shape, 1)
        hdr, body = npy_header_and_body(new)
        new_bytes, hlen = bytes(hdr) + body.tobytes(), len(bytes(hdr))
        S = len(new_bytes)
        base = os.path.join(d, 'a', '_'.join('%05d' % 0 for _ in shape))
        tmpn, finaln, sep = base + '.writing.npy', base + '.npy', d + '/sep'
        plan = prepared[ci][0]
        trace = d + '/trace.txt'
        r = swept[ci]
        obs = [json.loads(l[6:]) for l in r.stdout.splitlines() if l.startswith('LIMIT ')]
        after = [json.loads(l[6:]) for l in r.stdout.splitlines() if l.startswith('AFTER ')]
        cfg = dict(part='put_limit', direct_write=direct, dtype=dt, shape=list(shape))
        if len(obs) != len(plan) or not after:
            if direct and obs and obs[0]['rep'][1] != 'builtins.NoneType':
                ctx.count('direct_write_unsupported')
                continue
            ctx.disagree('part=put_limit;symptom=child_failed', cfg, r.stderr[-400:], 'one line per put', 'sweep child failed', kind='tie')
            continue
        if obs[0]['rep'][1] != 'builtins.NoneType' or obs[0]['final'] != ['new']:
            if direct:
                ctx.count('direct_write_unsupported')
                continue
            ctx.disagree('part=put_limit;symptom=healthy_put_failed', cfg, obs[0], 'returned None, final new', 'a healthy put failed', kind='tie')
            continue
        runs = parse_limit_trace(trace, tmpn, finaln, sep) if use_strace else {}
        # the byte strings the code hands to write(2) when nothing goes wrong, from the unlimited put
        sizes, trunc = None, None
        if use_strace:
            h = runs.get(0, [])
            sizes = [c[1] for c in h if c[0] == 1]
            trunc = next((c[1] for c in h if c[0] == 2), None)
            if any(c[2] < 0 or (c[0] == 1 and c[2] != c[1]) or c[0] < 0 for c in h) or sum(sizes) < S:
                ctx.disagree('part=put_limit;direct=%s;symptom=healthy_trace' % direct, cfg, h, 'complete writes', 'system calls of a healthy put not understood', kind='tie')
                sizes = None
        padded = new_bytes + b'\0' * ((sum(sizes) - S) if sizes else 0)
        writes, pos = [], 0
        for sz in sizes or []:
            writes.append(list(padded[pos:pos + sz]))
            pos += sz
        if after[0]['rep'] != 'None' or after[0]['reader'] not in ('new', 'array'):
            ctx.disagree('part=put_limit;direct=%s;symptom=later_put_failed' % direct, cfg, after[0], 'None / new',
                         'a put after the limit was lifted fails or is not visible')
        todo, cases = [], []
        for o in obs[1:]:
            L, with_old, i = o['limit'], bool(o['old']), o['i']
            where = ('start' if L == 0 else 'header' if L < hlen else 'header_end' if L == hlen else 'body' if L < S
                     else 'padding' if L < len(padded) else 'enough')
            case = dict(cfg, limit=L, previous_chunk=with_old, where=where, size=S)
            rep = o['rep']
            success = rep[0] == 'returned' and rep[1] == 'builtins.NoneType'
            state = o['final'][0]
            sig = 'part=put_limit;direct=%s;where=%s;previous=%s;symptom=' % (direct, where, 'good_chunk' if with_old else 'absent')
            ctx.traces_validated += 1
            # ---- the property, on the observation alone
            allowed = {'old' if with_old else 'absent', 'new'}
            if state not in allowed:
                ctx.disagree(sig + 'final_%s' % ('damaged' if state == 'other' else state), case, o['final'], sorted(allowed),
                             'after a put that hit a file-size limit the final name holds neither the previous nor the complete new chunk')
            if success and state != 'new':
                ctx.disagree(sig + 'failure_swallowed', case, rep, 'an error object',
                             'put_chunk_noraise reported success although the complete chunk is not in place')
            if not success and rep[0] == 'raised':
                ctx.disagree(sig + 'raised_not_returned', case, rep, 'a returned ChunkStoreError', 'put_chunk_noraise raised')
            want = {'new': ('new', 'array'), 'old': ('old', 'array'), 'absent': ('raise:katdal.chunkstore.ChunkNotFound',)}.get(state)
            if want is not None and o['reader'] not in want:
                ctx.disagree(sig + 'reader_%s' % o['reader'].split('.')[-1], case, o['reader'], want,
                             'a fresh reader does not see the previous state or the complete new chunk')
            if state == 'other' and not o['reader'].startswith('raise:'):
                ctx.disagree(sig + 'damaged_chunk_read_as_data', case, o['reader'], 'an error', 'a damaged chunk file was returned as data')
            extra = [n for n in o['listing'] if n not in (os.path.basename(tmpn), os.path.basename(finaln))]
            if extra:
                ctx.disagree(sig + 'stray_files', case, extra, [], 'files other than the temp and final names were left behind', kind='tie')
            ctx.note_case(('putL', direct, dt, shape, L, with_old), nontrivial=L < len(padded),
                          sample=dict(case, report=rep, final=o['final'], tmp=o['tmp'], reader=o['reader']) if where in ('header', 'body') and i % 7 == 0 else None)
            ctx.count('put_limit:' + where)
            # ---- the tie: the model run on the answers the kernel actually gave
            if not (use_strace and sizes and ctx.model_ok):
                continue
            calls = runs.get(i, [])
            evs = [[2, oserror_index(c[3] or 'EIO')] if c[2] < 0 else [3, c[2]] if (c[0] == 1 and c[2] < c[1]) else [0] for c in calls]
            todo.append([81, [11, codes(base), writes, [trunc] if trunc is not None else [], 1, evs, [list(_old_bytes(old))] if with_old else []]])
            cases.append((case, sig, o, calls))
        outs = ctx.model(todo) if todo else []
        for (case, sig, o, calls), m in zip(cases, outs):
            rep = o['rep']
            qn = rep[1]
            qi = [q for _, q in EXN].index(qn) if qn in [q for _, q in EXN] else -1
            obs_rep = [0] if qn == 'builtins.NoneType' else [1 if rep[0] == 'returned' else 2, qi]
            old_b = _old_bytes(old)

            def st(entry):
                if not entry:
                    return ['absent']
                b = bytes(entry[0])
                return ['new'] if b == new_bytes else ['old'] if b == old_b else ['other', len(b), new_bytes[:len(b)] == b]
            mobs = [m[0], st(m[1]), st(m[2])]
            if [obs_rep, o['final'], o['tmp']] != mobs:
                ctx.disagree(sig + 'state;tie', case, [obs_rep, o['final'], o['tmp']], mobs,
                             'report / final file / temp file after the limited put differ from the model run on the same system-call results', kind='tie')
            mcalls = [tuple(c) for c in m[3]]
            tcalls = [(c[0], c[1]) for c in calls]
            tail = calls[len(mcalls):]
            if tcalls[:len(mcalls)] != mcalls or any(c[2] >= 0 or c[0] != 1 for c in tail):
                ctx.disagree(sig + 'calls;tie', case, tcalls, mcalls,
                             'system calls issued by the limited put differ from the calls of the model run '
                             '(beyond them only failing flush attempts are accepted)', kind='tie')
        shutil.rmtree(d, ignore_errors=True)


def _old_bytes(old):
    from katdal.chunkstore import npy_header_and_body
    h, b = npy_header_and_body(old)
    return bytes(h) + b.tobytes()


# ------------------------------------------------------------------------------------------------

def run_witness(ctx, w, tmp):
    """Known-finding witnesses, through the same comparisons."""
    from katdal.chunkstore_npy import NpyFileChunkStore
    kind = w.get('kind')
    if kind == 'npy_truncation':
        d = tmp + '/w_' + str(abs(hash(str(w))) % 10000)
        os.makedirs(d + '/a', exist_ok=True)
        store = NpyFileChunkStore(d)
        dt, shape = w['dtype'], tuple(w['shape'])
        x = make_chunk(dt, shape, 3)
        sl = tuple(slice(0, n) for n in shape)
        store.put_chunk('a', sl, x)
        fn = os.path.join(d, store.chunk_metadata('a', sl)[0]) + '.npy'
        full = open(fn, 'rb').read()
        k = w['offset']
        with open(fn, 'wb') as f:
            f.write(full[:k])
        obs = three(store, 'a', sl, x.dtype, x)
        exp = ctx.model([[81, [10, list(full), want_of(dt, shape)]]])[0][k][0] if ctx.model_ok else obs
        case = dict(part='npy_truncation', dtype=dt, shape=list(shape), offset=k, size=len(full))
        compare_three(ctx, 'npy_truncation', case, obs, exp, 'dtype=%s;offset=%s' % (dt, 'zero' if k == 0 else 'other'))
        if obs[0][0] == 1 and not is_chunkstore_error(obs[0][1]):
            ctx.disagree('store=npy;fault=truncation_offset_%s;symptom=raw_exception' % ('zero' if k == 0 else 'other'), case,
                         show(obs[0]), 'ChunkNotFound', 'a truncated chunk file surfaces as a raw (non chunk-store) exception')
        ctx.note_case(('witness', str(w)))
    elif kind == 'short_write':
        if ctx.model_ok:
            part_short_write(ctx, tmp)
    elif kind == 'npy_valid_zip':
        # open finding C08-F5h: a WELL-FORMED zip archive under a chunk name (outside the model, which reads every
        # zip-signature file as BadZipFile): np.load returns an NpzFile, get_chunk raises AttributeError
        import io
        import zipfile
        d = tmp + '/w_' + kind
        os.makedirs(d + '/a', exist_ok=True)
        store = NpyFileChunkStore(d)
        x = make_chunk('u1', (3, 4), 3)
        sl = (slice(0, 3), slice(0, 4))
        store.put_chunk('a', sl, x)
        fn = d + '/a/00000_00000.npy'
        full = open(fn, 'rb').read()
        buf = io.BytesIO()
        with zipfile.ZipFile(buf, 'w') as z:
            z.writestr('arr_0.npy', full)
        for nm, data in (('npz_archive', buf.getvalue()), ('empty_archive', b'PK\x05\x06' + bytes(18))):
            with open(fn, 'wb') as f:
                f.write(data)
            obs = three(store, 'a', sl, x.dtype, x)
            case = dict(part='npy_corruption', kind=nm)
            ctx.traces_validated += 1
            for msg in spec_three(obs):
                ctx.disagree('part=npy_corruption;kind=%s;spec' % nm, case, [show(o) for o in obs], None, msg)
            if obs[0][0] == 1 and not is_chunkstore_error(obs[0][1]):
                ctx.disagree('store=npy;fault=wellformed_zip_archive;symptom=raw_exception', case, show(obs[0]), 'a ChunkStoreError',
                             'a well-formed zip archive under a chunk name surfaces as a raw (non chunk-store) exception')
            ctx.note_case(('witness', kind, nm), nontrivial=True)
    elif kind in ('npy_zip', 'npy_eisdir'):
        d = tmp + '/w_' + kind
        os.makedirs(d + '/a', exist_ok=True)
        store = NpyFileChunkStore(d)
        x = make_chunk('u1', (3, 4), 3)
        sl = (slice(0, 3), slice(0, 4))
        store.put_chunk('a', sl, x)
        fn = d + '/a/00000_00000.npy'
        full = open(fn, 'rb').read()
        os.remove(fn)
        if kind == 'npy_zip':
            with open(fn, 'wb') as f:
                f.write(b'PK\x03\x04' + full[4:])
        else:
            os.makedirs(fn)
        obs = three(store, 'a', sl, x.dtype, x)
        case = dict(part='npy_corruption' if kind == 'npy_zip' else 'npy_store_fault', kind=kind)
        if kind == 'npy_zip' and obs[0][0] == 1 and not is_chunkstore_error(obs[0][1]):
            ctx.disagree('store=npy;fault=undecodable_file;symptom=raw_exception', case, show(obs[0]), 'a ChunkStoreError',
                         'an undecodable chunk file surfaces as a raw (non chunk-store) exception')
        if kind == 'npy_eisdir':
            check_store_level(ctx, 'npy', 'B_IsADirectoryError', obs, case)
        ctx.note_case(('witness', kind))
    elif kind == 's3_bad_magic':
        from katdal.chunkstore import npy_header_and_body
        srv = c08_s3fake.FakeS3()
        try:
            store = s3_store(srv.url)
            x = make_chunk('u1', (3, 4), 3)
            sl = (slice(0, 3), slice(0, 4))
            hdr, body = npy_header_and_body(x)
            srv.put('/bkt/w/00000_00000.npy', b'\x93NUMPX' + bytes(hdr)[6:] + body.tobytes())
            obs = three(store, 'bkt/w', sl, x.dtype, x)
            if obs[0][0] == 1 and not is_chunkstore_error(obs[0][1]):
                ctx.disagree('store=s3;fault=undecodable_object;symptom=raw_exception', dict(part='s3_corruption', kind='bad_magic'),
                             show(obs[0]), 'a ChunkStoreError', 'an undecodable object surfaces as a raw (non chunk-store) exception')
            ctx.note_case(('witness', kind))
        finally:
            srv.close()
    elif kind == 'put_enospc':
        part_put_single(ctx, tmp, w)
    elif kind == 's3_put_status':
        part_s3_put(ctx, only=dict(op=w.get('op', 'put_chunk_noraise'), retry='default', answers=[w['status']]))
    if kind == 'npy_truncation' and not ctx.model_ok:
        return


def part_put_single(ctx, tmp, w):
    """One injected error on one syscall of a plain put (witness of the swallowed write error)."""
    from katdal.chunkstore import npy_header_and_body
    if shutil.which('strace') is None:
        return
    d = tmp + '/wput'
    os.makedirs(d + '/a', exist_ok=True)
    dt, shape = w['dtype'], tuple(w['shape'])
    new = make_chunk(dt, shape, 2)
    hdr, body = npy_header_and_body(new)
    new_bytes = bytes(hdr) + body.tobytes()
    trace = d + '/trace.txt'
    worst = None
    for n in (1, 2, 3):
        for p in os.listdir(d + '/a'):
            os.remove(os.path.join(d, 'a', p))
        rep, tmpn, finaln, _ = run_child(d, False, dt, shape, 2, inject='write:error=%s:when=%d' % (w['errno'], n), trace=trace)
        fin = file_entry(finaln)
        injected = 'INJECTED' in open(trace).read()
        if not injected:
            break
        state = 'absent' if not fin else 'new' if bytes(fin[0]) == new_bytes else 'OTHER'
        case = dict(part='put_fault', direct_write=False, dtype=dt, shape=list(shape), syscall='write', inject='error=' + w['errno'], nth=n)
        ctx.traces_validated += 1
        if state == 'OTHER' or (rep and rep[1] == 'builtins.NoneType' and state != 'new'):
            ctx.disagree('store=npy;fault=write_error;symptom=failure_swallowed', case, dict(report=rep, final=state),
                         'an error object, final unchanged',
                         'a failed write of the chunk body is swallowed: success reported and a truncated file renamed onto the final name')
        ctx.note_case(('witness', 'put_enospc', n))


def run(ctx):
    tmp = v4.scratch_dir('c08')
    os.chmod(tmp, 0o755)
    try:
        _WIRES.clear()
        if not (wire_ok(ctx, 8) and wire_ok(ctx, 81)):
            ctx.model_ok = False
        for f in ctx.findings:
            try:
                run_witness(ctx, f.get('witness', {}), tmp)
            except Exception as e:
                if ctx.searching and 'does not compile on this tree' in str(e):
                    # the Model file of this witness' wire is left out of the driver because a translator item / proof is
                    # already reported as broken: not a failing input (was a false alarm on benign refactors C08-1, C08-2)
                    continue
                ctx.disagree('witness-error:%s' % f.get('id'), f.get('witness'), repr(e), None, 'witness could not be run', kind='tie')
        if not ctx.model_ok:
            search_without_model(ctx, tmp)
            return
        walls = {}

        def timed(name, fn, *a):
            t0 = time.time()
            r = fn(*a)
            walls[name] = round(time.time() - t0, 1)
            return r
        ctx.extra['part_wall_s'] = walls
        timed('enum', part_enum, ctx)
        timed('maps', part_maps, ctx, tmp)
        files = timed('npy_truncation', part_npy_truncation, ctx, tmp)
        timed('s3', part_s3, ctx, files)
        timed('s3_response', part_s3_response, ctx)
        timed('s3_put', part_s3_put, ctx)
        timed('mismatch', part_mismatch, ctx, tmp)
        timed('npy_store_faults', part_npy_store_faults, ctx, tmp)
        timed('vfw', part_vfw, ctx, tmp)
        timed('vfw_damage', part_vfw_damage, ctx, tmp)
        timed('put', part_put, ctx, tmp)
        timed('put_limit', part_put_limit, ctx, tmp)
        ctx.exhaustive = False
        ctx.extra['exhaustive_parts'] = ['exception enum: names, bases, isinstance matrix',
                                         'standard_errors + getters: 4 maps x every class of the enum']
    finally:
        subprocess.run(['umount', tmp + '/tmpfs'], capture_output=True)
        shutil.rmtree(tmp, ignore_errors=True)


def search_without_model(ctx, tmp):
    """No model binary (broken build): still run the property-only checks on the implementation."""
    from katdal.chunkstore_npy import NpyFileChunkStore
    d = tmp + '/nomodel'
    os.makedirs(d + '/a', exist_ok=True)
    store = NpyFileChunkStore(d)
    part_s3_response(ctx)
    part_s3_put(ctx)
    part_mismatch(ctx, tmp)
    part_vfw(ctx, tmp)
    part_vfw_damage(ctx, tmp)
    part_put(ctx, tmp)
    part_put_limit(ctx, tmp)
    for dt, shape in GEOMS_QUICK:
        x = make_chunk(dt, shape, 3)
        if x.size == 0:
            continue
        sl = tuple(slice(0, n) for n in shape)
        store.put_chunk('a', sl, x)
        fn = os.path.join(d, store.chunk_metadata('a', sl)[0]) + '.npy'
        full = open(fn, 'rb').read()
        for k in range(len(full)):
            with open(fn, 'wb') as f:
                f.write(full[:k])
            obs = three(store, 'a', sl, x.dtype, x)
            case = dict(part='npy_truncation', dtype=dt, shape=list(shape), offset=k, size=len(full))
            for msg in spec_three(obs):
                ctx.disagree('part=npy_truncation;spec=%s' % msg.split(' ')[0], case, [show(o) for o in obs], None, msg)
            if obs[0][0] == 1 and not is_chunkstore_error(obs[0][1]):
                ctx.disagree('store=npy;fault=truncation_offset_%s;symptom=raw_exception' % ('zero' if k == 0 else 'other'), case,
                             show(obs[0]), 'ChunkNotFound', 'a truncated chunk file surfaces as a raw exception')
            ctx.note_case(('npyT', dt, shape, k))


def replay(ctx, doc):
    case = doc.get('case') or {}
    tmp = v4.scratch_dir('c08r')
    os.chmod(tmp, 0o755)
    try:
        part = case.get('part')
        if part == 'npy_truncation':
            run_witness(ctx, dict(kind='npy_truncation', dtype=case['dtype'], shape=case['shape'], offset=case['offset']), tmp)
        elif part == 'short_write':
            part_short_write(ctx, tmp)
        elif part == 'maps':
            part_maps(ctx, tmp)
        elif part in ('s3_truncation', 's3_corruption', 's3_store_fault'):
            part_s3(ctx, {})
        elif part == 's3_response':
            part_s3_response(ctx, only=case)
        elif part == 's3_put':
            part_s3_put(ctx, only=case if case.get('answers') is not None else None)
        elif part == 'mismatch':
            part_mismatch(ctx, tmp)
        elif part in ('npy_store_fault',):
            part_npy_store_faults(ctx, tmp)
        elif part == 'vfw':
            part_vfw(ctx, tmp)
        elif part == 'vfw_damage':
            part_vfw_damage(ctx, tmp, only=(case['geo'], case['damages']))
        elif part in ('put_trace', 'put_fault'):
            part_put(ctx, tmp)
        elif part == 'put_limit':
            part_put_limit(ctx, tmp, only=(case['direct_write'], case['dtype'], case['shape'], case['limit'], case['previous_chunk']))
        elif part == 'npy_corruption':
            part_npy_truncation(ctx, tmp)
        else:
            part_enum(ctx)
    finally:
        subprocess.run(['umount', tmp + '/tmpfs'], capture_output=True)
        shutil.rmtree(tmp, ignore_errors=True)
