"""C01 — Selected data are the stored samples at the selected coordinates, all formats (correspondence + search).

Synthetic data sets of the four formats are written from generated observation models (numbers of dumps / channels /
antennas, scan structure, v1 scan groups, duplicate final dump, keepdims, sideband, centroid timestamps, time_offset,
chunking, baseline ordering) with INJECTIVE LABELS as stored values (fixtures/c01files.py) and opened through
katdal.open (v1, v2, v3: real HDF5 files) or TelstateDataSource + VisibilityDataV4 (v4: telstate + NpyFileChunkStore).
On every data set random histories of
    select(**criteria)          all criterion kinds / argument forms / resets of C02's generator
    x = d.vis | d.flags | d.weights | d.raw_flags | d.timestamps           (acquisition: the indexer is KEPT)
    x[ix2]                      any indexer acquired so far, ints / slices / masks / lists per axis
    observe                     d.shape, dumps, channels, corr_products, timestamps[:], freqs, sensor.timestamps[:],
                                numeric / categorical sensors with a stored history, d.az, d.el, d.mjd
are run through the real classes; the same history is run through the extracted Coq model (wire_1), which returns, for
every read, the model answer (labels = C-order positions in the stored array, shape, conversion) and the spec answer
computed element-wise from dumps / channels / corr_products of the selection in force AT ACQUISITION.  The harness
converts labels to the expected values with the stored arrays and compares exactly.

Time: the dumps of the v1 / v2 / v3 files sit on an IRREGULAR grid (late dumps with the first and last one on the uniform
grid, dropped dumps, a late last dump; quarter dump periods, so everything is dyadic) and every antenna has time-varying
sensor histories (piecewise linear with non-zero integer slopes; a categorical one).  The model returns the sensor
cache's time array and the times at which a per-dump sensor is evaluated under the selection; the spec side is the
documented conversion of the STORED timestamps of the dumps in `dumps`.  The harness evaluates the stored histories
at those times over the rationals (np.interp is exact on these histories) and compares exactly; select(timerange=)
of the model is decided on the stored timestamps as well (C01Observation).
"""
import logging
import os
import random
import shutil
import warnings
from fractions import Fraction

import numpy as np

from props import c02

RULE = ('per format (v1, v2, v3 HDF5 files through katdal.open; v4 telstate + npy chunk store through VisibilityDataV4 or '
        'katdal.open of an .rdb, 70 % opened WITH preselect=dict(dumps=slice, channels=slice): 4-12 stored dumps x 3-9 '
        'stored channels (odd and even), keys channels / dumps / both / none, bounds normalised / None / negative, the '
        'four parity strata (stored channel count) x (first + last of the channel range) with dropped first dumps and a '
        'non-zero time_offset in every run; v2 files of version 2.0 / 2.1; v3 frequency-axis strata L / fake UHF / real '
        'UHF / faulty CBF bandwidth / no band / unknown band, then both centre overrides; keepdims False / True) '
        'generated observation models (3-12 dumps, 2-8 channels, 2-3 antennas = 10-21 products, scan / compscan / '
        'target structure, v1 scan groups, duplicate final dump, keepdims, lower / upper sideband, centroid / start '
        'timestamps, time_offset, v4 chunking and shuffled baseline ordering; v1 / v2 / v3: dump times on a regular or '
        'IRREGULAR grid = late interior dumps that pass the readers\' quick uniformity test, dropped dumps, late last '
        'dump, mixed; per antenna time-varying azimuth / elevation histories with non-zero integer slopes and a '
        'categorical history) with injective labels as stored samples '
        'x histories of 8-16 operations drawn from {select(**kw) with all criterion kinds / argument forms / resets of '
        'the C02 generator incl. flags= and weights=, acquisition of vis / flags / weights / raw_flags / timestamps '
        'indexers (kept for later), x[ix2] on ANY previously acquired indexer with ints (incl. negative), slices, '
        'boolean masks and integer lists per axis (forms the indexer class supports; 7 % scalar on every axis), elements '
        'against the labelled STORED arrays, true dimensionality of the answer (v2 / v3 / v4), observation of shape / dumps / '
        'channels / corr_products / timestamps / freqs / sensor.timestamps / every numeric sensor, d.az, d.el, a '
        'categorical sensor and d.mjd against the stored histories evaluated at the timestamps of the selected dumps; '
        'freqs / channel_freqs / sideband against the documented axis of the stored attributes (file attributes v1-v3, '
        'telstate v4), timestamps of v4 against the documented times of the stored dumps / '
        'scan_index and target against the unselected arrays}; a case is one '
        'operation in its history; non-trivial when it is a read or observation under a selection that is neither '
        'everything nor empty, or a read through an indexer acquired before a later select(); distinct by (data set, '
        'history prefix); ROUND 4 (props/c01win.py, c01cat.py; wire_1005): MVF v2 files whose RFE centre frequency is retuned '
        'during the observation (2-3 spectral windows, 1-4 retunes returning to an earlier window, version 2.0 / 2.1, 6-12 '
        'dumps on regular / dropped-dump / late-last / late-interior grids, duplicate final dump, time_offset) and 2-3 v2 or '
        'v3 files opened together (1-3 centre frequencies x 1-2 product orderings = subarrays, labels injective across the '
        'files) x histories of 6-14 operations: select() calls of the extended C02 generator (spw= / subarray= incl. illegal '
        'values, every criterion kind and surface form, every reset string, the bare select()) with 22 % "another window / '
        'subarray", 18 % "time criterion on the current window", acquisitions, reads through any earlier indexer, '
        'observations compared with the centre frequency / product ordering every dump was WRITTEN with, the documented '
        'frequency axis of that centre frequency, the labelled stored arrays; + 7 scripted corpus histories')
ASSUMPTIONS = ['stored samples are labels (small integers exactly representable in float32 / complex64); timestamps, '
               'dump periods and offsets are dyadic rationals, so every comparison is exact equality',
               'sensor histories: numeric nodes every half dump period with values = integer multiples of it (integer '
               'slopes, np.interp exact in float64), categorical events at odd multiples of 1/32 dump period (never on '
               'a dump boundary), plain string values without per-sensor properties; d.az / d.el / d.mjd are compared '
               'with the same numpy / katpoint functions applied to the exact expected values; the activity arrays of '
               'antennas with the same stored history are compared with each other from dump 1 on (the readers fold a '
               'first dump before a slew into the slew on the reference antenna only)',
               'v4 timestamps and frequencies are the documented ones of the telstate attributes (sync_time, first_timestamp, '
               'int_time, center_freq, bandwidth, n_chans; lite RDB, recent capture: no CBF-dump fix; always regular)',
               'elements are compared in the canonical 3-axis form; the dimensionality of the answer itself (scalar-indexed '
               'axes dropped; all three kept under keepdims=True of v2 / v3) is compared for v2 / v3 / v4, not for H5DataV1 '
               '(its concatenation keeps the time axis and treats a scalar first index differently from the others)',
               'second-stage indices are in range and of a form the indexer class supports (LazyIndexer: no negative '
               'steps, strictly increasing lists; C04 / C05 own the indexer classes); a read that selects at least one '
               'element must be answered; a read that selects nothing may raise (v1: ConcatenatedLazyIndexer on empty '
               'heads / tails = open C05 findings F10 / F10b, zero products cannot be stacked) and is recorded as '
               'unanswered: the model answers with an empty array there',
               'select() calls are those of the C02 generator (single-window data sets) or of its extended generator with '
               'spw= / subarray= (multi-window data sets); a call that raises other than the documented TypeError / IndexError '
               'ends the history',
               'multi-window fixtures: centre frequencies a whole number of quarter channels apart (one integer frequency '
               'grid for all windows); a retune happens dt / 32 after the start of a dump that starts at least a full dump period '
               'after its predecessor (overlapping dumps share that instant and the readers attribute an event to the '
               'earliest dump it falls in), interior dumps are late, never early (the v2 reader decides the window of a dump '
               'on its estimated grid: open finding C01r-F1; both grids then agree on every retune); files opened '
               'together: same channel / product counts, no duplicate final dump, regular grids, their stored arrays laid '
               'end to end are the stored array (ConcatenatedLazyIndexer / ConcatenatedSensorCache: C19), only Observation/* '
               'sensors compared',
               'v4: no applycal, no lost chunks (C13 / C06 own those), weights without power scaling']

FMTS = ['v1', 'v2', 'v3', 'v4']
KINDS = ['vis', 'flags', 'weights', 'raw_flags', 'timestamps']
KIND_ID = dict((k, i) for i, k in enumerate(KINDS))
FMT_ID = dict(v1=1, v2=2, v3=3, v4=4)

TA = 'A | Aalias, radec bpcal, 19:39:25.03, -63:42:45.6'
TB = 'B, radec gaincal, 10:00:00.0, -30:00:00.0'
TC = 'C | Cee, radec target fluxcal, 05:00:00.0, -20:00:00.0'
TARGETS = [TA, TB, TC]
NUMERIC_SENSOR = dict(v1='Antennas/%s/pos_actual_scan_', v2='Antennas/%s/pos.actual-scan-',
                      v3='Antennas/%s/pos_actual_scan_', v4='%s_pos_actual_scan_')        # + azim | elev
# every antenna of a fixture gets the SAME stored activity history
STATE_SENSORS = dict(v2=('Antennas/%s/activity',), v3=('Antennas/%s/activity',), v4=('%s_activity',))
CATEGORICAL_SENSOR = dict(v1='Antennas/%s/drive_mode', v2='Antennas/%s/drive.mode', v3='Antennas/%s/drive_mode',
                          v4='%s_drive_mode')
T0 = dict(v1=1200000000.0, v2=1300000000.0, v3=1500000000.0, v4=1600000000.0 + 123.0)


def codes(s):
    return [ord(c) for c in s]


def q(x):
    f = Fraction(float(x))
    return [f.numerator, f.denominator]


def unq(p):
    return Fraction(p[0], p[1])


# ---------------------------------------------------------------------------------------------------------------
# observation models and fixtures

def gen_events(rng, T, vocab):
    ev = [(0, rng.choice(vocab))]
    for d in range(1, T):
        if rng.random() < 0.3:
            ev.append((d, rng.choice(vocab)))
    return ev


def gen_grid(rng, T):
    """Start of every dump in quarter dump periods after the first: regular, jittered (first and last dump on the
    uniform grid, so the readers' "quick test for uniform spacing" passes), a dropped dump, a late last dump, mixed."""
    kind = rng.choice(['regular', 'jitter', 'jitter', 'gap', 'late_last', 'mixed'])
    g = [4 * i for i in range(T)]
    if kind in ('jitter', 'mixed'):
        hit = False
        for i in range(1, T - 1):
            if rng.random() < 0.5:
                g[i] += rng.choice([-1, 1, 1, 2])
                hit = True
        if not hit:
            g[rng.randrange(1, T - 1)] += rng.choice([1, 2])
    if kind in ('gap', 'mixed'):
        k, lost = rng.randrange(1, T), 4 * rng.choice([1, 1, 2])
        g = [x + (lost if i >= k else 0) for i, x in enumerate(g)]
    if kind == 'late_last' or (kind == 'mixed' and rng.random() < 0.5):
        g[-1] += rng.choice([1, 2])
    return kind, g


def gen_spec(rng, fmt, want=None):
    T = rng.randint(3, 12)
    F = rng.choice([2, 3, 4, 5, 6, 8])
    spec = dict(fmt=fmt, T=T, F=F, dt=rng.choice([1.0, 2.0, 4.0, 8.0]), off=rng.choice([0.0, 0.0, 0.5, 2.0]),
                nants=rng.choice([2, 2, 3]))
    if fmt == 'v1':
        scans = []
        left, cs = T, 0
        while left > 0:
            nsc = rng.randint(1, 3)
            tgt, lab = rng.choice(TARGETS), rng.choice(c02.LABELS[1:])
            for _ in range(nsc):
                if left <= 0:
                    break
                nd = rng.randint(1, min(4, left))
                scans.append([cs, lab, tgt, rng.choice(['slew', 'scan', 'track', '', 'cal']), nd])
                left -= nd
            cs += 1
        spec['scans'] = scans
        spec['nants'] = 2
    else:
        spec['acts'] = gen_events(rng, T, c02.STATES)
        spec['targets'] = gen_events(rng, T, TARGETS)
        spec['labels'] = gen_events(rng, T, c02.LABELS[1:])
    if fmt in ('v2', 'v3'):
        spec['dup'] = rng.random() < 0.5
        spec['keepdims'] = rng.random() < 0.5
    if fmt == 'v2':
        spec['old'] = rng.random() < 0.4          # version 2.0: centre = RFE7 LO1 frequency - 4200 MHz
        spec['centre'] = rng.choice([1822e6, 1328e6])
    if fmt == 'v3':
        # the frequency axis: receiver band, bandwidth attribute (incl. the faulty CBF value), L0 center_freq
        # attribute, centre_freq= argument.  'fake' = UHF receiver behind the 856 MHz digitiser: flipped spectrum
        axis = rng.choice(V3_AXES + ['l', 'fake'])
        if want is not None:
            axis = V3_AXES[want[0] % len(V3_AXES)]
        spec['axis'] = axis
        spec['band'] = dict(l='l', l_bug='l', fake='u', fake_bug='u', uhf='u', none='', s='s')[axis]
        if axis in ('fake', 'fake_bug', 'l_bug'):
            spec['F'] = rng.choice([2, 4, 8])
            spec['bandwidth'] = 857152196.0 if axis.endswith('_bug') else 856e6
        elif axis == 'uhf':
            spec['bandwidth'] = 544e6 / 4096 * spec['F']
        else:
            spec['bandwidth'] = 856e6 / 4096 * spec['F']
        spec['lower'] = axis in ('fake', 'fake_bug')
        spec['l0_centre'] = rng.choice([None, None, None, 1100e6])
        spec['centre_param'] = rng.choice([None, None, 1284e6, 950e6]) if axis not in ('none', 's') else \
            rng.choice([None, 1284e6, 1284e6])
        if want is not None:
            # strata: every axis kind once with nothing overriding the receiver table, then both overrides at once
            spec['l0_centre'] = 1100e6 if want[1] else None
            spec['centre_param'] = 950e6 if want[1] else None
        spec['centroid'] = rng.random() < 0.4
        spec['cbf_div'] = rng.choice([1, 2, 4])
    if fmt == 'v4':
        spec['chunks'] = rng.choice([None, (1, 2, 5), (2, 1, 12), (3, 3, 4)])
        spec['bls_seed'] = rng.choice([None, rng.randrange(1000)])
        spec['nants'] = 2
        spec['rdb'] = rng.random() < 0.5          # through katdal.open of an .rdb file next to the chunk store
        if want is not None or rng.random() < PRE_FRACTION:
            gen_pre(rng, spec, want)
    # v4 synthesises its timestamps from first_timestamp and int_time: always a regular grid
    spec['grid_kind'], spec['grid'] = gen_grid(rng, T) if fmt != 'v4' else ('regular', [4 * i for i in range(T)])
    spec['sseed'] = rng.randrange(1 << 20)
    return spec


PRE_FRACTION = 0.7
V3_AXES = ['l', 'fake', 'uhf', 'fake_bug', 'l_bug', 'none', 's']


def gen_range(rng, n, lo, min_start=0):
    """A non-empty range a:b inside an axis of length n with at least `lo` elements (or all n, if fewer), and one of the
    ways of writing it as slice(start, stop): normalised, None for an end that coincides with the axis end, negative."""
    lo = min(lo, n - min_start)
    a = rng.randint(min_start, n - lo)
    b = rng.randint(a + lo, n)
    if rng.random() < 0.25 and not min_start:
        a = 0
    if rng.random() < 0.25:
        b = n
    def write(v, end):
        forms = [v]
        if v == end:
            forms.append(None)
        if 0 < v < n:
            forms.append(v - n)
        return rng.choice(forms)
    return (a, b), [write(a, 0), write(b, n)]


def gen_pre(rng, spec, want=None):
    """spec['T'], spec['F'] become the STORED numbers of dumps / channels (odd and even channel counts); spec['pre'] the
    preselect dict as {'dumps': [start, stop] | absent, 'channels': [start, stop] | absent}; spec['sub'] the normalised
    (a, b, c, d).  Ranges of all parities of first / last / first + last against odd and even stored channel counts."""
    T = spec['T'] = rng.randint(4, 12)
    F = spec['F'] = rng.choice([3, 4, 5, 6, 7, 8, 9])
    keys = rng.choice(['both', 'both', 'both', 'channels', 'channels', 'dumps', 'none'])
    if want is not None:
        # stratum (parity of the stored channel count, parity of first + last of the preselected channel range)
        F = spec['F'] = rng.choice([3, 5, 7, 9] if want[0] else [4, 6, 8])
        keys = 'both'
        # the first dumps of the capture are dropped and the data set is opened with a time_offset
        spec['off'] = rng.choice([0.5, 2.0])
    pre = {}
    a, b, c, d = 0, T, 0, F
    if keys in ('both', 'dumps'):
        (a, b), pre['dumps'] = gen_range(rng, T, 3 if rng.random() < 0.8 else 1, min_start=1 if want is not None else 0)
    if keys in ('both', 'channels'):
        for _ in range(50):
            (c, d), pre['channels'] = gen_range(rng, F, 2 if rng.random() < 0.85 else 1)
            if want is None or (c + d) % 2 == want[1]:
                break
    spec['pre'] = pre
    spec['sub'] = [a, b, c, d]
    # sensor events are placed per STORED dump
    spec['acts'] = gen_events(rng, T, c02.STATES)
    spec['targets'] = gen_events(rng, T, TARGETS)
    spec['labels'] = gen_events(rng, T, c02.LABELS[1:])
    spec['grid'] = [4 * i for i in range(T)]


def pre_kwargs(pre):
    return dict((k, slice(v[0], v[1])) for k, v in pre.items())


V4_SYNC, V4_FIRST, V4_CENTRE, V4_CW = 1600000000.0, 123.0, 1284e6, 208984.375


class C01Observation(c02.DataSetObservation):
    """C02's adapter with two differences: dump times may sit on the QUARTER dump grid (late / dropped dumps), and they
    are NOT read from the data set (d.sensor.timestamps) but given: the documented conversion of what the fixture
    wrote into the file.  select(timerange=...) of the model is thereby decided by the stored timestamps of the
    dumps, while katdal decides it with whatever its sensor cache holds."""

    def __init__(self, d, ts, freqs=None):
        self.d = d
        d.select()
        ts = np.asarray(ts, dtype=float)
        self.timestamps = ts
        self.T = len(ts)
        dp = float(d.dump_period)
        g4 = (ts - ts[0]) / (dp / 4)
        assert np.all(g4 == np.round(g4)), 'timestamps are not on the quarter-dump grid'
        self.g4 = [int(x) for x in g4]
        sub = d.subarrays[0]
        spw = d.spectral_windows[0]
        self.kants = list(sub.ants)
        self.cps = [(str(a), str(b)) for a, b in sub.corr_products]
        self.B = len(self.cps)
        # v4: the frequencies are GIVEN as well (documented frequencies of the stored channels the data set was opened
        # on, from the telstate attributes), so select(freqrange=) of the model is decided by them
        w = (float(spw.channel_width) if freqs is None else V4_CW) / 4
        freqs = np.asarray(spw.channel_freqs if freqs is None else freqs, dtype=float)
        self.F = len(freqs)
        self.fbase = float(freqs.min()) - 8 * w
        fz = (freqs - self.fbase) / w
        assert np.all(fz == np.round(fz)), 'channel frequencies are not on the quarter-channel grid'
        self.fz = [int(x) for x in fz]

        def per_dump(name):
            return list(np.asarray(d.sensor[name]))
        self.scan = [int(x) for x in per_dump('Observation/scan_index')]
        self.state = [str(x) for x in per_dump('Observation/scan_state')]
        self.cscan = [int(x) for x in per_dump('Observation/compscan_index')]
        self.label = [str(x) for x in per_dump('Observation/label')]
        self.tgt = [int(x) for x in per_dump('Observation/target_index')]
        assert len(self.scan) == self.T, 'per-dump sensors and timestamps differ in length'
        assert set(self.state) <= set(c02.STATES) and set(self.label) <= set(c02.LABELS)
        targets = []
        for t in d.catalogue.targets:
            assert set(t.tags) <= set(c02.TAGS), 'catalogue tag outside the harness vocabulary'
            targets.append(dict(names=[t.name] + list(t.aliases), tags=list(t.tags)))
        # 'gaps' is only used by C02's timerange generator for the upper end of the range of values (whole dumps)
        self.spec = dict(T=self.T, dp=dp, t0=float(ts[0]), gaps=[-(-x // 4) for x in self.g4],
                         sc_events=list(range(max(self.scan) + 2)), cs_events=list(range(max(self.cscan) + 2)),
                         targets=targets, ants=[a.name for a in self.kants], w=w, real_format=type(d).__name__)
        self.name_ids = {}
        for t in targets:
            for n in t['names']:
                self.name_ids.setdefault(c02.norm_name(n), len(self.name_ids))
        self.weight_ids = {}

    def wire(self):
        s = self.spec
        dumps = [[self.g4[i], self.scan[i], c02.STATES.index(self.state[i]), self.cscan[i],
                  c02.LABELS.index(self.label[i]), self.tgt[i]] for i in range(self.T)]
        targets = [[[self.name_ids[c02.norm_name(n)] for n in t['names']], [self.tag_id(x) for x in t['tags']]]
                   for t in s['targets']]
        cps = [self.input_id(a) + self.input_id(b) for a, b in self.cps]
        return [dumps, 2, targets, self.fz, 2, cps]


def interp_exact(nodes, x):
    """numpy.interp(x, xp, fp) over the rationals: held constant outside the nodes, segment j for xp[j] <= x < xp[j+1]."""
    if x < nodes[0][0]:
        return nodes[0][1]
    if x >= nodes[-1][0]:
        return nodes[-1][1]
    lo, hi = 0, len(nodes) - 1
    while hi - lo > 1:
        mid = (lo + hi) // 2
        if nodes[mid][0] <= x:
            lo = mid
        else:
            hi = mid
    (x0, y0), (x1, y1) = nodes[lo], nodes[lo + 1]
    return (y1 - y0) / (x1 - x0) * (x - x0) + y0


def categorical_exact(events, mids, dump_period):
    """The value of a plain categorical sensor (no transform / greedy values / initial value) in force at every dump:
    an event belongs to the dump during which it occurred (dump i lasts until mids[i] + dump_period / 2, inclusive;
    what falls between two dumps goes to the later one), the last event of a dump wins, events before the first dump
    apply to it, and without such events the first value is extended backwards."""
    out, k, cur = [], 0, events[0][1]
    for m in mids:
        end = m + Fraction(dump_period) / 2
        while k < len(events) and events[k][0] <= end:
            cur = events[k][1]
            k += 1
        out.append(cur)
    return out


class Fixture:
    """One opened synthetic data set + everything the comparison needs to know about what is stored."""

    def __init__(self, spec, tag='c01'):
        import katdal
        from fixtures import c01files as cf
        from fixtures import v4
        self.spec = spec
        fmt = self.fmt = spec['fmt']
        T, F, dt, off = spec['T'], spec['F'], spec['dt'], spec['off']
        self.tmp = v4.scratch_dir(tag)
        self.file = None
        self.dup = bool(spec.get('dup'))
        self.pre, self.sub = None, None
        self.upper, self.centroid, self.segs = True, False, []
        self.cbf_dump = dt
        grid4 = spec.get('grid') or [4 * i for i in range(T)]
        names = dict(v1=('ant1', 'ant2'), v2=('ant1', 'ant2', 'ant3')[:spec['nants']],
                     v3=('m000', 'm001', 'm062')[:spec['nants']], v4=('m000', 'm001'))[fmt]
        self.ant_names = names
        self.hist = cf.gen_hist(random.Random(spec.get('sseed', 0)), names, T0[fmt], dt, dt / 4.0 * grid4[-1] + dt)
        hist = self.hist
        try:
            if fmt == 'v1':
                fn = os.path.join(self.tmp, '1200000000.h5')
                self.st, wprods, ts = cf.write_v1(fn, [tuple(s) for s in spec['scans']], F=F, dt=dt, grid4=grid4, hist=hist)
                self.d = katdal.open(fn, time_offset=off)
                self.segs = [s[4] for s in spec['scans']]
                self.stored_ts = list(ts)
                # DBE input strings '<k><x|y>' of antenna k + 1, polarisation H | V (the attributes written per antenna)
                dbe = lambda t: 'ant%d%s' % (int(t[0]) + 1, 'h' if t[1] == 'x' else 'v')      # noqa: E731
                wprods = [(dbe(p[:2]), dbe(p[2:])) for p in wprods]
                ant0 = 'ant1'
            elif fmt == 'v2':
                ants = ('ant1', 'ant2', 'ant3')[:spec['nants']]
                fn = os.path.join(self.tmp, '1300000000.h5')
                self.st, wprods, ts = cf.write_v2(fn, T=T, F=F, ants=ants, dt=dt, acts=spec['acts'], targets=spec['targets'],
                                             labels=spec['labels'], dup_last=self.dup, grid4=grid4, hist=hist,
                                             old=bool(spec.get('old')), centre=spec.get('centre', 1822e6))
                self.d = katdal.open(fn, time_offset=off, keepdims=spec['keepdims'])
                self.stored_ts = list(ts)
                ant0 = 'ant1'
            elif fmt == 'v3':
                ants = ('m000', 'm001', 'm062')[:spec['nants']]
                fn = os.path.join(self.tmp, '1500000000.h5')
                self.cbf_dump = dt / spec['cbf_div']
                self.upper, self.centroid = not spec['lower'], spec['centroid']
                if 'axis' not in spec:        # witnesses recorded before the frequency axis was modelled
                    spec = dict(spec, band='u' if spec['lower'] else '', l0_centre=None,
                                bandwidth=856e6 if spec['lower'] else 856e6 / 4096 * F,
                                centre_param=428e6 if spec['lower'] else 1284e6)
                    self.spec = spec
                self.st, wprods, ts = cf.write_v3(fn, T=T, F=F, ants=ants, dt=dt, acts=spec['acts'], targets=spec['targets'],
                                             labels=spec['labels'], dup_last=self.dup, centroid=self.centroid,
                                             lower=spec['lower'], cbf_dt=self.cbf_dump, grid4=grid4, hist=hist,
                                             bandwidth=spec['bandwidth'], l0_centre=spec['l0_centre'])
                kw = {}
                if spec['band']:
                    kw['band'] = spec['band']
                if spec['centre_param'] is not None:
                    kw['centre_freq'] = spec['centre_param']
                self.d = katdal.open(fn, time_offset=off, keepdims=spec['keepdims'], **kw)
                self.stored_ts = list(ts)
                ant0 = 'm000'
            else:
                ants = ('m000', 'm001')
                bls = v4.bls_ordering_for(ants)
                if spec['bls_seed'] is not None:
                    random.Random(spec['bls_seed']).shuffle(bls)
                self.st = cf.labelled(T, F, len(bls))
                chunks = None if spec['chunks'] is None else dict(
                    correlator_data=spec['chunks'], flags=spec['chunks'], weights=spec['chunks'])
                extra = []
                for a in ants:
                    extra.append((a + '_pos_actual_scan_azim', hist['num'][a]['azim']))
                    extra.append((a + '_pos_actual_scan_elev', hist['num'][a]['elev']))
                    extra.append((a + '_drive_mode', hist['cat'][a]))

                def hook(ts, cbid, stream):
                    ts['capture_block_id'] = cbid
                    ts['stream_name'] = stream
                self.x = v4.build_v4(T=T, F=F, ants=ants, int_time=dt, tmp=os.path.join(self.tmp, 'v4'), bls_ordering=bls,
                                     bandwidth=V4_CW * F, center_freq=V4_CENTRE, sync_time=V4_SYNC,
                                     first_timestamp=V4_FIRST,
                                     arrays=dict(correlator_data=self.st['vis'], flags=self.st['flags'],
                                                 weights=self.st['w_lo'], weights_channel=self.st['w_hi']),
                                     chunks=chunks, acts=tuple(spec['acts']), targets=tuple(spec['targets']),
                                     labels=tuple(spec['labels']), extra_sensors=extra, telstate_hook=hook,
                                     construct=False)
                # opened WITH the preselection (TelstateDataSource + VisibilityDataV4, or katdal.open of an .rdb)
                self.pre = spec.get('pre')
                pkw = dict(preselect=pre_kwargs(self.pre)) if self.pre is not None else {}
                if spec.get('rdb'):
                    from katsdptelstate.rdb_writer import RDBWriter
                    rdir = os.path.join(self.tmp, 'v4', self.x.cbid)
                    os.makedirs(rdir, exist_ok=True)
                    path = os.path.join(rdir, '%s_%s.rdb' % (self.x.cbid, self.x.stream))
                    with RDBWriter(path) as w:
                        w.save(self.x.telstate)
                    self.d = katdal.open(path, time_offset=off, **pkw)
                else:
                    self.d = v4.reopen(self.x, dict(pkw), dict(pkw, time_offset=off))
                # what is STORED, independently of the opened data set: telstate attributes of the two axes
                a, b, c, dd = self.sub = spec.get('sub') or [0, T, 0, F]
                self.stored_T, self.stored_F = T, F
                T, F = b - a, dd - c
                self.stored_ts = [V4_SYNC + V4_FIRST + k * dt + off for k in range(a, b)]
                wprods = bls
                v4_freqs = [V4_CENTRE + (k - self.stored_F // 2) * V4_CW for k in range(c, dd)]
                ant0 = 'm000'
            self.file = getattr(self.d, 'file', None)
            d = self.d
            # the documented conversion of what was written (v4: what the data source serves, C17), exact in float64
            st_ts = np.array(self.stored_ts[:T], dtype=np.float64)
            self.exp_ts = dict(v1=lambda: st_ts / 1000.0 + 0.5 * dt + off, v2=lambda: st_ts + 0.5 * dt + off,
                               v3=lambda: st_ts + (0.0 if self.centroid else 0.5 * self.cbf_dump) + off,
                               v4=lambda: st_ts)[fmt]()
            # the frequency axis from what the FILE says (v1 / v2 / v3: wire_1003; v4: telstate attributes, wire_1002)
            self.axis = None
            if fmt != 'v4':
                self.fattrs = self.freq_attrs()
                self.axis_case = [1003, [FMT_ID[fmt], self.fattrs]]
                doc_freqs, cw = None, None      # filled in by check_axis (needs the model)
            else:
                doc_freqs, cw = v4_freqs, V4_CW
            self.doc_freqs = doc_freqs
            # AssertionError: outside the vocabulary / grid of C02
            self.ob = C01Observation(d, self.exp_ts, freqs=None if fmt != 'v4' else v4_freqs)
            self.T, self.F = T, F
            self.cps_full = [(str(a), str(b)) for a, b in d.subarrays[0].corr_products]
            self.B = len(self.cps_full)
            # the product axis as WRITTEN (position b of the stored arrays belongs to stored_cps[b])
            self.stored_cps = [(str(a), str(b)) for a, b in wprods]
            # v1 / v2 / v3: the channel frequencies of the (single, whole) spectral window; v4: the documented
            # frequencies of the stored channels the data set was opened on
            self.chan_freqs = np.array(v4_freqs if fmt == 'v4' else d.spectral_windows[0].channel_freqs)
            d.select()
            self.sensors = ['Observation/scan_index', 'Observation/target']
            self.full = dict((nm, np.array(d.sensor[nm])) for nm in self.sensors)
            # sensors with a stored history: (katdal name, antenna, nodes / events as rationals)
            fr = lambda l: [(Fraction(float(t)), Fraction(float(v)) if not isinstance(v, str) else v) for t, v in l]   # noqa: E731
            self.numeric = [(NUMERIC_SENSOR[fmt] % a + w, a, w, fr(hist['num'][a][w])) for a in names for w in ('azim', 'elev')]
            self.categorical = [(CATEGORICAL_SENSOR[fmt] % a, a, fr(hist['cat'][a])) for a in names[:1]]
            self.obs_wire = self.ob.wire()
        except BaseException:
            self.close()
            raise

    def cfg_wire(self, atoms):
        s = self.spec
        return [FMT_ID[self.fmt], self.obs_wire, int(self.dup), int(self.upper), int(self.centroid), list(self.segs),
                [q(s['dt']), q(self.cbf_dump), q(s['off'])], [q(t) for t in self.stored_ts],
                [[i, wire_selarg(v)] for i, v in sorted(atoms.items())]]

    def freq_attrs(self):
        """What was WRITTEN about the frequency axis (wire form of DataSetFreq.fattrs)."""
        s, F = self.spec, self.spec['F']
        opt = lambda v: [] if v is None else [q(v)]       # noqa: E731
        if self.fmt == 'v1':
            return [q(1822e6), q(1e6), F, 0, codes(''), [], [], []]
        if self.fmt == 'v2':
            c = s.get('centre', 1822e6)
            return [q(c + 4200e6 if s.get('old') else c), q(390625.0 * F), F, int(bool(s.get('old'))), codes(''), [], [], []]
        return [q(0), q(s['bandwidth']), F, 0, codes(s['band']), opt(s['l0_centre']), opt(s['centre_param']), []]

    def check_axis(self, ctx):
        """v1 / v2 / v3: the model's spectral window (translated constructor calls) and the documented axis of the stored
        attributes; from now on `chan_freqs` (the oracle of every freqs comparison) and the sideband given to the model
        of the history come from there, not from the data set."""
        if self.axis is not None:
            return
        if self.fmt == 'v4':
            self.axis = True
            return self.check_products(ctx, dict(hid=dict(kind='axis'), spec=self.spec, fail_at=0, ops=['open']))
        case = dict(hid=dict(kind='axis'), spec=self.spec, fail_at=0, ops=['open'])
        self.check_products(ctx, case)
        out = ctx.model([self.axis_case])[0]
        if not out:
            ctx.disagree('fmt=%s;attr=freqs;what=model_builds_no_window' % self.fmt, case, None, None,
                         'the model of the reader builds no spectral window for these attributes', kind='tie')
            self.axis = False
            return
        win, model_fq, spec_fq, m_lower, s_lower = out
        self.axis = dict(model=[unq(p) for p in model_fq], spec=[unq(p) for p in spec_fq], lower=bool(s_lower))
        if model_fq != spec_fq or m_lower != s_lower:
            ctx.disagree('fmt=%s;attr=freqs;what=model_vs_spec' % self.fmt, case, model_fq[:4], spec_fq[:4],
                         'the frequency axis built by the reader (as translated) is not the documented axis of the stored '
                         'attributes', kind='tie')
        self.chan_freqs = np.array([float(x) for x in self.axis['spec']])
        self.upper = not self.axis['lower']
        got = [Fraction(float(x)) for x in np.asarray(self.d.spectral_windows[0].channel_freqs, dtype=float)]
        side = int(self.d.spectral_windows[0].sideband)
        ctx.count('axis=%s:%s' % (self.fmt, self.spec.get('axis', 'old' if self.spec.get('old') else 'plain')))
        if got != self.axis['spec'] or (side == -1) != self.axis['lower']:
            what = 'flipped' if got == self.axis['spec'][::-1] else 'differs'
            if len(got) == len(self.axis['spec']) and got:
                sh = set(g - e for g, e in zip(got, self.axis['spec']))
                if len(sh) == 1 and got != self.axis['spec']:
                    what = 'offset'
            ctx.disagree('fmt=%s;attr=channel_freqs;axis=%s;what=%s' % (
                self.fmt, self.spec.get('axis', 'old' if self.spec.get('old') else 'plain'), what), case,
                [float(x) for x in got[:6]] + [side], [float(x) for x in self.axis['spec'][:6]] + [-1 if self.axis['lower'] else 1],
                'channel frequencies / sideband of the spectral window are not the documented ones of the stored '
                'attributes (centre, bandwidth, band, version, L0 attribute, centre_freq argument)',
                spec=[float(x) for x in self.axis['spec'][:6]])

    def check_products(self, ctx, case):
        """corr_products of the subarray must be the stored ordering: position b of the stored arrays is the product the
        file / telstate lists at position b (C01_labels then says corr_products[l] = that list at cp_idx[l])."""
        ctx.count('products_checked=' + self.fmt)
        if self.cps_full != self.stored_cps:
            what = 'permuted' if sorted(self.cps_full) == sorted(self.stored_cps) else 'differs'
            ctx.disagree('fmt=%s;attr=subarray.corr_products;what=%s' % (self.fmt, what), case, self.cps_full[:6],
                         self.stored_cps[:6], 'the correlation products of the data set are not the stored product '
                         'ordering (the labels of the third axis of the stored arrays)', spec=self.stored_cps[:6])

    def model_case(self, atoms, ops):
        """The wire case of one history: wire_1 (v1 / v2 / v3: cfg + operations); wire_1002 (v4: what is STORED -- shape
        and telstate attributes of the time and frequency axes --, the preselect slices as given, cfg, operations)."""
        if self.fmt != 'v4':
            return [1, [self.cfg_wire(atoms), ops]]
        s = self.spec
        timing = [q(V4_SYNC), q(V4_FIRST), q(s['dt']), q(s['off']), [], 0, 1]      # lite RDB (no CBF attributes)
        store = [self.stored_T, self.stored_F, self.B, timing, q(V4_CENTRE), q(V4_CW * self.stored_F)]
        pre = self.pre or {}
        sl = [[c02._opt(v) for v in pre[k]] if k in pre else [] for k in ('dumps', 'channels')]
        return [1002, [store, sl[0], sl[1], self.cfg_wire(atoms), ops]]

    def reset(self):
        d = self.ob.fresh()
        self.ob.weight_ids.clear()
        return d

    def close(self):
        f = self.file
        if f is not None:
            try:
                f.close()
            except Exception:      # noqa: BLE001
                pass
        shutil.rmtree(self.tmp, ignore_errors=True)


def wire_selarg(v):
    if isinstance(v, str):
        return [0, codes(v)]
    return [1, [codes(a) for a in v]]


SKIPPED = []


class OpenFailed(Exception):
    """Writing succeeded but opening the data set (a valid file / a valid preselection) raised."""

    def __init__(self, spec, exc):
        Exception.__init__(self, repr(exc))
        self.spec, self.exc = spec, exc


def build_fixture(rng, fmt, tries=12, want=None):
    """A fixture of the given format from rng; specs outside C02's vocabulary / frequency grid are skipped."""
    last = None
    for _ in range(tries):
        spec = gen_spec(rng, fmt, want)
        try:
            return Fixture(spec)
        except AssertionError as e:
            last = e
            SKIPPED.append((fmt, repr(e)[:80]))
        except (IndexError, ValueError, KeyError, TypeError, AttributeError, ZeroDivisionError) as e:
            raise OpenFailed(spec, e)
    raise RuntimeError('no usable %s observation model in %d tries: %r' % (fmt, tries, last))


# ---------------------------------------------------------------------------------------------------------------
# second-stage indices

def gen_axis_index(rng, n, rich):
    """(python value, wire value, form, basic) for an axis of length n; rich = numpy/dask-level forms allowed."""
    kinds = ['full', 'full', 'int', 'slice', 'slice', 'mask', 'list']
    if n == 0:
        kinds = ['full', 'slice', 'mask', 'list']
    k = rng.choice(kinds)
    if k == 'full':
        return slice(None), [1, [], [], []], 'full', True
    if k == 'int':
        z = rng.randint(-n, n - 1)
        return z, [0, z], 'int' if z >= 0 else 'negint', z >= 0
    if k == 'slice':
        def bound():
            return rng.choice([None, None, rng.randint(-n - 1, n + 1)])
        a, b = bound(), bound()
        c = rng.choice([None, None, 1, 2, 3])
        if rich and rng.random() < 0.25:
            c = rng.choice([-1, -2])
            # dask's normalize_slice mishandles a start below -n with a negative step (F20, C04): not generated
            a = rng.choice([None, rng.randint(0, n)]) if n else None
            b = rng.choice([None, rng.randint(0, n)]) if n else None
        nonempty = len(range(*slice(a, b, c).indices(n))) > 0
        return slice(a, b, c), [1, c02._opt(a), c02._opt(b), c02._opt(c)], \
            ('slice' if (c or 1) > 0 else 'negslice'), (c or 1) > 0 and nonempty
    if k == 'mask':
        m = [rng.random() < 0.6 for _ in range(n)]
        return np.array(m, dtype=bool), [2, [int(x) for x in m]], 'mask', False
    # list
    if rich and rng.random() < 0.5 and n > 0:
        l = [rng.randint(-n, n - 1) for _ in range(rng.randint(1, 4))]
        return l, [3, l], 'list(any)', False
    l = sorted(rng.sample(range(n), rng.randint(1, min(n, 4)))) if n > 0 else []
    return l, [3, l], 'list(sorted)', False


def gen_ix2(rng, shape, rich):
    naxes = rng.choice([0, 1, 2, 3, 3, 3]) if len(shape) == 3 else rng.choice([0, 1, 1])
    items = [gen_axis_index(rng, shape[a], rich) for a in range(naxes)]
    if len(shape) == 3 and all(n > 0 for n in shape) and rng.random() < 0.07:
        # one element: a scalar on every axis (the answer is 0-dimensional, or (1, 1, 1) under keepdims)
        zs = [rng.randint(-n, n - 1) for n in shape]
        items = [(z, [0, z], 'int' if z >= 0 else 'negint', z >= 0) for z in zs]
    py = tuple(i[0] for i in items)
    wire = [i[1] for i in items]
    forms = [i[2] for i in items]
    basic = all(i[3] for i in items) and all(n > 0 for n in shape)
    return py, wire, forms, basic


# ---------------------------------------------------------------------------------------------------------------
# running a history on the implementation (operations are generated on the fly: in-range indices need the shapes)

def canon_shape(x, kind):
    return [int(v) for v in x.shape]


def impl_observe(fx):
    d = fx.d
    with warnings.catch_warnings():
        warnings.simplefilter('ignore')
        ts = np.asarray(d.timestamps[:], dtype=float)
        out = dict(shape=[int(v) for v in d.shape], dumps=[int(v) for v in d.dumps], channels=[int(v) for v in d.channels],
                   cps=[fx.cps_full.index((str(a), str(b))) for a, b in d.corr_products],
                   timestamps=[Fraction(float(t)) for t in ts], freqs=np.array(d.freqs),
                   lens=[len(ts), len(d.freqs), len(d.corr_products)],
                   sensors=dict((nm, np.array(d.sensor[nm])) for nm in fx.sensors), mjd=np.array(d.mjd),
                   # the sensor cache's own time array (select(timerange=) and every sensor are evaluated on it)
                   cache_ts=[Fraction(float(t)) for t in np.asarray(d.sensor.timestamps[:], dtype=float)],
                   numeric=dict((nm, np.array(d.sensor[nm], dtype=float)) for nm, _, _, _ in fx.numeric),
                   categorical=dict((nm, [as_str(x) for x in d.sensor[nm]]) for nm, _, _ in fx.categorical),
                   ants=[a.name for a in d.ants], az=np.array(d.az, dtype=float), el=np.array(d.el, dtype=float),
                   state=dict((pat % a, [getattr(x, 'description', None) or as_str(x) for x in d.sensor[pat % a]])
                              for pat in STATE_SENSORS.get(fx.fmt, ()) for a in fx.ant_names))
    return out


def as_str(x):
    return x.decode() if isinstance(x, bytes) else str(x)


def describe_ix(py):
    def one(v):
        if isinstance(v, slice):
            return 'slice(%s,%s,%s)' % (v.start, v.stop, v.step)
        if isinstance(v, np.ndarray):
            return 'mask' + repr([int(x) for x in v])
        return repr(v)
    return [one(v) for v in py]


def run_impl(fx, rng, nops, script=None):
    """Returns (ops, log): ops = wire operations, log = per-operation implementation observations."""
    d = fx.reset()
    rich_fmt = fx.fmt == 'v4'
    kinds = [k for k in KINDS if k != 'raw_flags' or fx.fmt == 'v4']
    ops = [[3]]
    try:
        log = [dict(op='observe', obs=impl_observe(fx), desc='observe (everything selected)')]
    except Exception as e:      # noqa: BLE001
        return ops, [dict(op='observe', obs=None, exc=repr(e), desc='observe (everything selected)')], {0: 'all'}
    acquired = []          # (kind, indexer, shape, n_selects_so_far)
    nsel = 0
    pending = []
    atoms = {0: 'all'}
    step = 0
    while step < nops:
        step += 1
        if script is not None:
            if step > len(script):
                break
            what = script[step - 1]
        elif pending:
            what = pending.pop(0)
        else:
            r = rng.random()
            if r > 0.93:
                # snapshot probe: change the flag / weight selection, take the indexer, change it again, read
                k = rng.choice(['flags', 'flags', 'weights'])

                def fw_call():
                    v, w, f = c02.gen_criterion(rng, fx.ob, k)
                    return [(k, v, w, f)]
                pending.extend([['select', fw_call()], ['acquire', k, rng.random() < 0.6], ['select', fw_call()],
                                ['index_last']])
                continue
            what = ('acquire' if (not acquired and r < 0.5) else
                    'select' if r < 0.34 else 'acquire' if r < 0.52 else 'index' if r < 0.86 else 'observe')
            if what == 'index' and not acquired:
                what = 'select'
            what = [what]
        if what[0] == 'select':
            if len(what) > 1:
                call = what[1]
            elif rng.random() < 0.22:
                # a call that changes only the flag / weight selection (C16: leaves the three masks alone)
                k = rng.choice(['flags', 'flags', 'weights'])
                v, w, f = c02.gen_criterion(rng, fx.ob, k)
                call = [(k, v, w, f)]
            else:
                call = c02.gen_call(rng, fx.ob)
            for (k, v, w, f) in call:
                if k in ('weights', 'flags'):
                    atoms[w[1]] = v
            exc = None
            try:
                with warnings.catch_warnings():
                    warnings.simplefilter('ignore')
                    d.select(**c02.py_call(call))
            except Exception as e:      # noqa: BLE001 - classified by the comparison
                exc = e
            code = 0 if exc is None else (1 if isinstance(exc, TypeError) and 'unexpected keyword' in str(exc) else 2)
            ops.append([0, c02.wire_call(call)])
            log.append(dict(op='select', code=code, exc=repr(exc) if exc else None, desc=['select', c02.describe_call(call)],
                            keys=[k for (k, v, w, f) in call]))
            if code == 0:
                nsel += 1
            if code == 2:
                break
        elif what[0] == 'acquire':
            kind = what[1] if len(what) > 1 else rng.choice(kinds)
            exc = None
            # half of the acquisitions do not touch the indexer at all before later select() calls (a lazily built
            # indexer must not pick up later selections); the index generator then takes the data set's shape
            lazy = (what[2] if len(what) > 2 else rng.random() < 0.5)
            try:
                with warnings.catch_warnings():
                    warnings.simplefilter('ignore')
                    x = getattr(d, kind)
                    dshape = [int(v) for v in d.shape]
                    shape = (dshape[:1] if kind == 'timestamps' else dshape) if lazy else canon_shape(x, kind)
            except Exception as e:      # noqa: BLE001
                exc, x, shape = e, None, None
            ops.append([1, KIND_ID[kind]])
            log.append(dict(op='acquire', kind=kind, shape=shape, exc=repr(exc) if exc else None, lazy=lazy,
                            desc=['acquire', kind] + (['untouched'] if lazy else [])))
            acquired.append((kind, x, shape, nsel))
            if exc is not None:
                break
        elif what[0] in ('index', 'index_last'):
            if len(what) > 1:
                idn, (py, wire, forms, basic) = what[1], what[2]
            elif what[0] == 'index_last':
                idn = len(acquired) - 1
                kind, x, shape, _ = acquired[idn]
                py, wire, forms, basic = gen_ix2(rng, shape, rich_fmt)
            else:
                # prefer indexers that have seen a select() since their acquisition
                stale = [i for i, a in enumerate(acquired) if a[3] < nsel]
                idn = rng.choice(stale) if stale and rng.random() < 0.6 else rng.randrange(len(acquired))
                kind, x, shape, _ = acquired[idn]
                rich = rich_fmt or (kind == 'timestamps' and fx.fmt in ('v3', 'v4'))
                py, wire, forms, basic = gen_ix2(rng, shape, rich)
            kind, x, shape, at = acquired[idn]
            exc, arr = None, None
            try:
                with warnings.catch_warnings():
                    warnings.simplefilter('ignore')
                    key = py if len(py) != 1 or kind != 'timestamps' else py[0]
                    arr = np.asarray(x[key] if len(py) else x[:])
            except Exception as e:      # noqa: BLE001
                exc = e
            ops.append([2, idn, wire])
            log.append(dict(op='index', id=idn, kind=kind, arr=arr, exc=repr(exc) if exc else None, forms=forms, wire=wire,
                            true_shape=None if arr is None else [int(v) for v in arr.shape],
                            basic=basic, stale=at < nsel, acq_shape=shape,
                            desc=['index', idn, kind, describe_ix(py)]))
        else:
            ops.append([3])
            try:
                ob = impl_observe(fx)
                log.append(dict(op='observe', obs=ob, desc='observe'))
            except Exception as e:      # noqa: BLE001
                log.append(dict(op='observe', obs=None, exc=repr(e), desc='observe'))
    if script is None and log[-1]['op'] != 'observe' and not (log[-1]['op'] == 'select' and log[-1]['code'] == 2):
        ops.append([3])
        try:
            log.append(dict(op='observe', obs=impl_observe(fx), desc='observe'))
        except Exception as e:      # noqa: BLE001
            log.append(dict(op='observe', obs=None, exc=repr(e), desc='observe'))
    return ops, log, atoms


# ---------------------------------------------------------------------------------------------------------------
# comparison

def conv_name(cv):
    return {0: 'vis', 1: 'flags', 2: 'weights', 3: 'raw', 4: 'time'}[cv[0]]


def compare_history(ctx, fx, ops, log, mouts, hid, note=True):
    """mouts: model outputs, one per operation (the model stops after a failing select)."""
    from fixtures import c01files as cf
    fmt = fx.fmt
    hkey = repr(sorted(hid.items()))
    descs = [e['desc'] for e in log]
    tsmap = None
    ts_of_label = {}
    acq_conv = []
    sel_state = 'all'

    def case(n):
        return dict(hid=hid, fail_at=n, spec=fx.spec, ops=descs[:n + 1])

    # the dimensionality of every answered read (v2 / v3 incl. keepdims, v4): wire_1004 on the canonical spec shape
    dims = {}
    if fmt != 'v1':
        want = [(n, e) for n, e in enumerate(log) if e['op'] == 'index' and n < len(mouts) and e.get('arr') is not None
                and mouts[n][1][0] == 1]
        outs = ctx.model([[1004, [FMT_ID[fmt], int(bool(fx.spec.get('keepdims'))), KIND_ID[e['kind']], e['wire'],
                                  mouts[n][1][1]]] for n, e in want]) if want else []
        dims = dict((n, o) for (n, e), o in zip(want, outs))

    for n, e in enumerate(log):
        if n >= len(mouts):
            ctx.disagree('fmt=%s;what=model_history_short' % fmt, case(n), len(log), len(mouts),
                         'the model ended the history earlier than the implementation', kind='tie')
            return
        mo = mouts[n]
        ctx.traces_validated += 1
        ctx.count('op=' + e['op'])
        if e['op'] == 'select':
            for k in e['keys']:
                ctx.count('key=' + k)
            if e['code'] != mo[0]:
                ctx.disagree('fmt=%s;op=select;what=status;impl=%d;model=%d' % (fmt, e['code'], mo[0]), case(n),
                             e['exc'] or 'ok', mo[0], 'implementation and model of select() disagree on acceptance', kind='tie')
                return
            if e['code'] == 2:
                ctx.count('select_raised')
                return
            if note:
                ctx.note_case((hkey, n), nontrivial=False)
            continue
        if e['op'] == 'observe':
            ob = e['obs']
            if ob is None:
                ctx.disagree('fmt=%s;op=observe;what=raises' % fmt, case(n), e.get('exc'), 'ok',
                             'reading the public attributes / timestamps / sensors raised')
                return
            mshape, mdumps, mchans, mcps, (model_ts, mts), mlens, mfreq, msens, (mcache, meval, msynth) = mo[:9]
            if fmt == 'v4':
                # opened on a subset of what is stored (wire_1002): the spec side is the DOCUMENTED frequency / time of
                # the stored channels c + channels[.] / stored dumps a + dumps[.], from the telstate attributes
                (model_fq, spec_fq), (model_ts4, mts), (sdumps, schans) = mo[9:12]
                if model_fq != spec_fq:
                    ctx.disagree('fmt=v4;attr=freqs;what=model_vs_spec', case(n), model_fq[:4], spec_fq[:4],
                                 'frequencies of the spectral window as built by the source (SpectralWindow.subrange of '
                                 'the preselected channels) differ from the documented ones of the stored channels',
                                 kind='tie')
                if model_ts4 != model_ts:
                    ctx.disagree('fmt=v4;attr=timestamps;what=model_inconsistent', case(n), model_ts4[:4], model_ts[:4],
                                 'the two timestamp outputs of the model differ', kind='tie')
                compare_stored_axes(ctx, fx, case(n), ob, [unq(p) for p in spec_fq], sdumps, schans, mchans, mdumps)
            if model_ts != mts:
                ctx.disagree('fmt=%s;attr=timestamps;what=model_vs_spec' % fmt, case(n), model_ts[:4], mts[:4],
                             'timestamp conversion found in the source differs from the documented one', kind='tie')
            mts = [unq(p) for p in mts]
            if tsmap is None:
                tsmap = mts            # conv_t of every stored timestamp (first observation: everything selected)
                # label of a timestamps read -> time (v4: labels are STORED dump numbers)
                ts_of_label = dict(zip(mo[11][0], mts)) if fmt == 'v4' else dict(enumerate(mts))
            checks = [('shape', ob['shape'], mshape), ('dumps', ob['dumps'], mdumps), ('channels', ob['channels'], mchans),
                      ('corr_products', ob['cps'], mcps), ('timestamps', ob['timestamps'], mts),
                      ('lens', ob['lens'], mlens), ('shape_vs_lens', ob['shape'], ob['lens'])]
            for nm, got, exp in checks:
                if list(got) != list(exp):
                    ctx.disagree('fmt=%s;attr=%s;what=differs' % (fmt, nm), case(n), got, exp,
                                 '%s differs from the model / spec (labels of the selected dumps, channels, products)' % nm,
                                 spec=exp)
            if not np.array_equal(ob['freqs'], fx.chan_freqs[np.array(mfreq, dtype=int)]):
                ctx.disagree('fmt=%s;attr=freqs;what=differs' % fmt, case(n), ob['freqs'].tolist(), mfreq,
                             'freqs are not the channel frequencies of the selected channels')
            sel_idx = np.array(msens, dtype=int)
            for nm in fx.sensors:
                got = ob['sensors'][nm]
                exp = fx.full[nm][sel_idx]
                same = (got.shape == exp.shape) and all(a == b for a, b in zip(got.tolist(), exp.tolist()))
                if not same:
                    ctx.disagree('fmt=%s;attr=sensor:%s;what=differs' % (fmt, nm), case(n),
                                 got.tolist(), exp.tolist(), 'per-dump array %s is not that of the selected dumps' % nm)
            compare_sensors(ctx, fx, case(n), ob, mts, tsmap, mdumps,
                            [unq(p) for p in mcache], [unq(p) for p in meval], [unq(p) for p in msynth])
            full = (mshape == [fx.T, fx.F, fx.B])
            empty = 0 in mshape
            sel_state = 'all' if full else 'empty' if empty else 'part'
            if note:
                ctx.note_case((hkey, n), nontrivial=not full and not empty,
                              sample=dict(fmt=fmt, ops=descs[max(0, n - 3):n + 1], shape=ob['shape']))
            continue
        if e['op'] == 'acquire':
            adv, cv, spec_shape, spec_cv = mo
            acq_conv.append(spec_cv)
            if e['exc'] is not None:
                ctx.disagree('fmt=%s;kind=%s;what=acquire_raises' % (fmt, e['kind']), case(n), e['exc'], adv,
                             'obtaining the indexer raised')
                return
            if adv != spec_shape or cv != spec_cv:
                ctx.disagree('fmt=%s;kind=%s;what=model_vs_spec_acquire' % (fmt, e['kind']), case(n), [adv, cv],
                             [spec_shape, spec_cv], 'model indexer differs from the spec', kind='tie')
            if e['shape'] != spec_shape:
                ctx.disagree('fmt=%s;kind=%s;what=%s' % (fmt, e['kind'], 'dataset_shape' if e['lazy'] else 'advertised_shape'),
                             case(n), e['shape'], spec_shape,
                             'shape advertised by the %s differs from (len dumps, len channels, len corr_products)'
                             % ('data set' if e['lazy'] else 'indexer'), spec=spec_shape)
            ctx.count('acquire_untouched' if e['lazy'] else 'acquire_shape_read')
            ctx.count('acquire=' + e['kind'])
            if note:
                ctx.note_case((hkey, n), nontrivial=False)
            continue
        # index
        m_ans, s_ans, (live_ans, live_cv) = mo
        kind = e['kind']
        for f in e['forms']:
            ctx.count('ix=' + f)
        ctx.count('read=%s/%s' % (fmt, kind))
        sig0 = 'fmt=%s;kind=%s;after_select=%d' % (fmt, kind, int(e['stale']))
        if m_ans != s_ans:
            ctx.disagree(sig0 + ';what=model_vs_spec', case(n), m_ans, s_ans, 'model answer differs from spec answer', kind='tie')
        if s_ans[0] == 0:
            # outside the domain (does not happen with the generator): only data is a problem
            ctx.count('spec_rejects')
            if e['arr'] is not None and e['arr'].size:
                ctx.disagree(sig0 + ';what=answered_out_of_domain', case(n), e['arr'].shape, 'rejected',
                             'data returned for an index the spec rejects')
            continue
        shape, labels = s_ans[1], s_ans[2]
        if e['arr'] is None:
            if len(labels) > 0:
                # dask.array.slicing.take divides by an average chunk size of 0 when the first stage left fewer
                # elements than (partly empty) chunks on the axis of a repeating / unsorted list (C04's open F37;
                # cause in dask, an exception, not wrong data): narrow signature of its own (C01r-F2)
                dask_take = 'range() arg 3 must not be zero' in (e['exc'] or '')
                ctx.disagree(('fmt=%s;read;what=raises(range() arg 3 must not be zero)' % fmt) if dask_take
                             else sig0 + ';what=raises', case(n), e['exc'], shape,
                             'a read that selects at least one element raised', spec=shape)
            else:
                # empty answers: ConcatenatedLazyIndexer raises for empty heads / tails (open C05 findings F10, F10b)
                # and H5DataV1 cannot stack zero products; no element is obtained, the property is silent
                ctx.count('unanswered')
                ctx.count('unanswered_empty=%s/%s' % (fmt, type_of_exc(e['exc'])))
            if note:
                ctx.note_case((hkey, n), nontrivial=False)
            continue
        arr = e['arr']
        size = int(np.prod(shape)) if shape else 1
        cv = acq_conv[e['id']]
        if arr.dtype == bool:
            arr = arr.view(np.uint8) != 0

        def follows_current():
            # does the answer equal what the code before the repair of F8 returned (live masks / selections)?
            if kind == 'timestamps' or live_ans[0] != 1 or (live_ans[1:] == [shape, labels] and live_cv == cv):
                return False
            lshape = live_ans[1]
            if arr.size != (int(np.prod(lshape)) if lshape else 1):
                return False
            live = cf.expected(kind, fmt, fx.st, np.array(live_ans[2], dtype=np.int64).reshape(lshape), live_cv)
            return np.array_equal(arr.reshape(lshape), live)
        if arr.size != size:
            symptom = 'follows_current_selection' if follows_current() else 'shape'
            ctx.disagree(sig0 + ';what=' + symptom, case(n), list(arr.shape), shape,
                         'answer has %d elements, the selection x index has %d' % (arr.size, size), spec=shape)
            continue
        if n in dims:
            # C01_answer_dimensions: scalar-indexed axes are dropped, unless the v2 / v3 data set was opened with
            # keepdims=True, which keeps all three axes of vis / flags / weights
            a_shape, np_shape, old_flags = dims[n]
            nsc = sum(1 for f in e['forms'] if f in ('int', 'negint'))
            ctx.count('dims=%s:keepdims=%d:scalars=%d' % (fmt, int(bool(fx.spec.get('keepdims'))), nsc))
            if e['true_shape'] != a_shape:
                before = kind == 'flags' and e['true_shape'] == old_flags and old_flags != a_shape
                ctx.disagree('fmt=%s;kind=%s;keepdims=%d;scalars=%d;what=%s' % (
                    fmt, kind, int(bool(fx.spec.get('keepdims'))), nsc,
                    'answer_dims_flags_mask_axis' if before else 'answer_dims'), case(n), e['true_shape'], a_shape,
                    'the answer has the right elements but not the documented dimensionality (a scalar index drops its '
                    'axis; keepdims=True keeps all three axes of vis / flags / weights)', spec=a_shape)
        arr = arr.reshape(shape)
        if kind == 'timestamps':
            exp = [ts_of_label[l] for l in labels]
            got = [Fraction(float(t)) for t in arr.ravel()]
            ok = got == exp
            exp_show = [float(t) for t in exp[:6]]
        else:
            exp = cf.expected(kind, fmt, fx.st, np.array(labels, dtype=np.int64).reshape(shape), cv)
            ok = np.array_equal(arr, exp)
            exp_show = exp.ravel()[:6].tolist()
        if not ok:
            symptom = 'elements'
            if kind == 'vis' and np.array_equal(arr, np.conj(exp)):
                symptom = 'conjugation'
            elif follows_current():
                symptom = 'follows_current_selection'
            ctx.disagree(sig0 + ';what=' + symptom, case(n), np.asarray(arr).ravel()[:6].tolist(), exp_show,
                         'element(s) of x[ix2] are not the converted stored samples at the coordinates named by the '
                         'selection in force when x was obtained', spec=dict(shape=shape, labels=labels[:12], conv=cv))
        if note:
            ctx.note_case((hkey, n), nontrivial=(e['stale'] or sel_state == 'part') and size > 0,
                          sample=dict(fmt=fmt, ops=descs[max(0, n - 3):n + 1], shape=shape, labels=labels[:8], conv=cv))


def compare_stored_axes(ctx, fx, case, ob, spec_fq, sdumps, schans, mchans, mdumps):
    """v4: the clause "freqs are the labels of those same channels" against what is STORED: d.freqs[j] must be the
    documented frequency center_freq + (k - n_chans // 2) * bandwidth / n_chans of the stored channel
    k = c + channels[j] whose samples the reads deliver (exact: all values are dyadic)."""
    a, b, c, d = fx.sub
    keys = '+'.join(sorted(fx.pre)) if fx.pre else ('empty' if fx.pre is not None else 'no')
    if schans != [c + j for j in mchans] or sdumps != [a + i for i in mdumps]:
        ctx.disagree('fmt=v4;attr=stored_coordinates;what=model_vs_harness', case, [sdumps, schans],
                     [[a + i for i in mdumps], [c + j for j in mchans]],
                     'stored coordinates named by the model differ from offset + data set coordinates', kind='tie')
    got = [Fraction(float(x)) for x in np.asarray(ob['freqs'], dtype=float).ravel()]
    if got != spec_fq:
        cw = Fraction(V4_CW)
        shift = set((g - e) / cw for g, e in zip(got, spec_fq)) if len(got) == len(spec_fq) and got else set()
        if len(shift) == 1 and list(shift)[0].denominator == 1:
            what = 'shifted_by_%+d_channels' % int(list(shift)[0])
        else:
            what = 'differs'
        ctx.count('freqs_violation:F_%s;first+last_%s' % ('odd' if fx.stored_F % 2 else 'even', 'odd' if (c + d) % 2 else 'even'))
        ctx.disagree('fmt=v4;attr=freqs;preselect=%s;what=%s' % (keys, what), case,
                     [float(x) for x in got[:6]], [float(x) for x in spec_fq[:6]],
                     'd.freqs are not the documented frequencies of the STORED channels %r that vis / flags / weights '
                     'deliver (stored n_chans = %d, preselected channels %d:%d)' % (schans[:6], fx.stored_F, c, d),
                     spec=[float(x) for x in spec_fq[:6]])
    ctx.count('v4_axes:preselect=%s' % keys)
    ctx.count('v4_axes:F_%s;first+last_%s' % ('odd' if fx.stored_F % 2 else 'even', 'odd' if (c + d) % 2 else 'even'))


def compare_sensors(ctx, fx, case, ob, mts, tsmap, mdumps, mcache, meval, msynth):
    """The clause "per-dump sensor arrays are the values of those same dumps": every sensor with a stored history is
    compared with that history evaluated AT the timestamps of the selected dumps (mts = spec side of the wire: the
    documented conversion of the stored timestamps of the dumps in `dumps`), exactly (all numbers are dyadic)."""
    fmt = fx.fmt
    if meval != mts:
        ctx.disagree('fmt=%s;attr=sensor_times;what=model_vs_spec' % fmt, case, [float(t) for t in meval[:4]],
                     [float(t) for t in mts[:4]], 'the model evaluates per-dump sensors at other times than the data '
                     "set's timestamps of the selected dumps", kind='tie')
    synth_sel = [msynth[i] for i in mdumps] if len(msynth) == len(tsmap) else None

    def symptom(got, at_synth):
        # does the answer equal the sensor evaluated on the estimated uniform grid first + dump_period * arange(T)?
        try:
            return 'estimated_grid' if synth_sel is not None and synth_sel != mts and got == at_synth() else 'differs'
        except Exception:      # noqa: BLE001 - classification only
            return 'differs'
    got = ob['cache_ts']
    if got != tsmap or got != mcache:
        ctx.disagree('fmt=%s;attr=sensor.timestamps;what=%s' % (fmt, 'estimated_grid' if got == msynth else 'differs'), case,
                     [float(t) for t in got[:8]], [float(t) for t in tsmap[:8]],
                     "the sensor cache's time array (on which every sensor and select(timerange=) is evaluated) is not "
                     "the data set's timestamps", spec=[float(t) for t in tsmap[:8]])
    import katpoint
    from katdal.dataset import rad2deg
    for nm, ant, which, nodes in fx.numeric:
        exp = [interp_exact(nodes, t) for t in mts]
        got = [Fraction(v) for v in ob['numeric'][nm].tolist()]
        if got != exp:
            ctx.disagree('fmt=%s;attr=sensor:numeric;what=%s' % (
                fmt, symptom(got, lambda: [interp_exact(nodes, t) for t in synth_sel])), case,
                [float(v) for v in got[:8]], [float(v) for v in exp[:8]],
                'd.sensor[%r] is not the stored sensor history interpolated at d.timestamps of the selected dumps' % nm,
                spec=[float(v) for v in exp[:8]])
        # d.az / d.el: the same history through deg2rad / rad2deg, one column per selected antenna
        if ant in ob['ants']:
            col = ob['az' if which == 'azim' else 'el']
            expf = rad2deg(katpoint.deg2rad(np.array([float(v) for v in exp], dtype=float)))
            gotc = col[:, ob['ants'].index(ant)] if col.ndim == 2 and col.shape[1] == len(ob['ants']) else col
            if gotc.shape != expf.shape or not np.array_equal(gotc, expf):
                ctx.disagree('fmt=%s;attr=%s;what=differs' % (fmt, 'az' if which == 'azim' else 'el'), case,
                             np.asarray(gotc).ravel()[:8].tolist(), expf[:8].tolist(),
                             'd.%s of %s is not the pointing history at d.timestamps of the selected dumps'
                             % ('az' if which == 'azim' else 'el', ant), spec=expf[:8].tolist())
    for nm, ant, events in fx.categorical:
        full = categorical_exact(events, tsmap, fx.spec['dt'])
        exp = [full[i] for i in mdumps]
        got = ob['categorical'][nm]
        if got != exp:
            def at_synth():
                f = categorical_exact(events, msynth, fx.spec['dt'])
                return [f[i] for i in mdumps]
            ctx.disagree('fmt=%s;attr=sensor:categorical;what=%s' % (fmt, symptom(got, at_synth)), case, got[:12], exp[:12],
                         'd.sensor[%r] is not the value in force at each selected dump' % nm, spec=exp[:12])
    # activity: all antennas of the fixture have the same stored history, so (the alignment of events with dumps being
    # a function of history and time grid: C01_sensors_of_selected_dumps) the same per-dump array.  The reference
    # antenna's is extracted while the scans are built, the others afterwards.  Dump 0 is left out: the readers fold a
    # first dump that precedes a slew into that slew, in place, on the reference antenna's cached sensor (C03's
    # business); the target sensors are not compared at all: the reference antenna's is moved onto the scan starts.
    for pat in STATE_SENSORS.get(fmt, ()):
        keep = [i for i, dmp in enumerate(mdumps) if dmp > 0]
        arrs = [[ob['state'][pat % a][i] for i in keep] if len(ob['state'][pat % a]) == len(mdumps) else ob['state'][pat % a]
                for a in fx.ant_names]
        if any(a != arrs[-1] for a in arrs):
            ctx.disagree('fmt=%s;attr=sensor:refant_state;what=differs_between_antennas' % fmt, case,
                         dict((pat % a, x[:12]) for a, x in zip(fx.ant_names, arrs)), arrs[-1][:12],
                         'antennas with the same stored activity history have different per-dump arrays: the reference '
                         "antenna's was aligned with another time grid than the data set's timestamps", spec=arrs[-1][:12])
    exp = np.array([katpoint.Timestamp(float(t)).to_mjd() for t in mts], dtype=float)
    got = np.asarray(ob['mjd'], dtype=float)
    if got.shape != exp.shape or not np.array_equal(got, exp):
        ctx.disagree('fmt=%s;attr=sensor:mjd;what=differs' % fmt, case, got[:8].tolist(), exp[:8].tolist(),
                     'd.mjd is not the MJD of d.timestamps of the selected dumps', spec=exp[:8].tolist())


def type_of_exc(s):
    return (s or '').split('(')[0]


def run_one(ctx, fx, hseed, nops, hid, note=True, script=None):
    rng = random.Random(hseed)
    fx.check_axis(ctx)
    ops, log, atoms = run_impl(fx, rng, nops, script=script)
    mcase = fx.model_case(atoms, ops)
    mouts = ctx.model([mcase])[0]
    compare_history(ctx, fx, ops, log, mouts, hid, note=note)
    return mcase, mouts


# ---------------------------------------------------------------------------------------------------------------
# scripted histories (known-finding witnesses)

def script_call(fx, kw):
    """A select() call given as a JSON dict over the few keywords the witnesses use."""
    call = []
    ob = fx.ob
    for k, v in kw.items():
        if k == 'ants':
            names = v if isinstance(v, list) else [v]
            call.append((k, v, [8, [[int(n.startswith('~')), ob.ant_id(n.lstrip('~'))] for n in names]], 'names'))
        elif k in ('dumps', 'channels'):
            if isinstance(v, dict):
                a, b, c = v['slice']
                call.append((k, slice(a, b, c), [0, [2, c02._opt(a), c02._opt(b), c02._opt(c)]], 'slice'))
            elif isinstance(v, int):
                call.append((k, v, [0, [1, v]], 'int'))
            else:
                call.append((k, list(v), [0, [3, [int(x) for x in v]]], 'intlist'))
        elif k in ('flags', 'weights'):
            call.append((k, v, [11, ob.weight_ids.setdefault(repr(v), len(ob.weight_ids) + 1)], 'opaque'))
        elif k == 'reset':
            call.append((k, v, [10, codes(v)], 'reset'))
        else:
            raise ValueError('witness keyword %s not supported' % k)
    return call


def run_witness(ctx, w):
    """{'spec': fixture spec, 'script': [["select", {kw}] | ["acquire", kind] | ["index", id, [ix...]] | ["observe"]]}
    with ix items: "full", an int, {"slice": [a, b, c]}."""
    if 'script' not in w:
        return open_witness(ctx, w)
    try:
        fx = Fixture(w['spec'], tag='c01w')
    except (IndexError, ValueError, KeyError, TypeError, AttributeError, ZeroDivisionError) as e:
        return report_open_failed(ctx, OpenFailed(w['spec'], e), dict(kind='witness', witness=w))
    try:
        fx.reset()
        script = []
        for it in w['script']:
            if it[0] == 'select':
                script.append(['select', script_call(fx, it[1])])
            elif it[0] == 'acquire':
                script.append(['acquire', it[1]])
            elif it[0] == 'index':
                py, wire, forms = [], [], []
                for ix in it[2]:
                    if ix == 'full':
                        py.append(slice(None)); wire.append([1, [], [], []]); forms.append('full')
                    elif isinstance(ix, int):
                        py.append(ix); wire.append([0, ix]); forms.append('int')
                    elif 'list' in ix:
                        py.append(list(ix['list'])); wire.append([3, list(ix['list'])]); forms.append('list(sorted)')
                    else:
                        a, b, c = ix['slice']
                        py.append(slice(a, b, c)); wire.append([1, c02._opt(a), c02._opt(b), c02._opt(c)]); forms.append('slice')
                script.append(['index', it[1], (tuple(py), wire, forms, True)])
            else:
                script.append(['observe'])
        run_one(ctx, fx, 0, len(script), dict(kind='witness', witness=w), note=False, script=script)
    finally:
        fx.close()


def open_witness(ctx, w):
    """F15: a v3 file must open at all."""
    try:
        fx = Fixture(dict(fmt=w['fmt'], T=4, F=2, dt=2.0, off=0.0, nants=2, acts=[(0, 'track')], targets=[(0, TA)],
                          labels=[(0, 'track')], dup=False, keepdims=False, lower=False, centroid=False, cbf_div=1),
                     tag='c01w')
        fx.close()
    except Exception as e:      # noqa: BLE001
        ctx.disagree('fmt=%s;what=open_raises' % w['fmt'], dict(witness=w), repr(e), 'opens', 'opening the data set raised')


# ---------------------------------------------------------------------------------------------------------------
# entry points

def report_open_failed(ctx, e, hid):
    """A written data set of the generated (in-domain) observation model, opened with a valid non-empty preselection
    or none, must open: nothing can be read from a data set that refuses to."""
    spec = e.spec
    pre = spec.get('pre')
    keys = '+'.join(sorted(pre)) if pre else ('empty' if pre is not None else 'no')
    ctx.count('open_raises')
    ctx.disagree('fmt=%s;what=open_raises;preselect=%s;exc=%s' % (spec['fmt'], keys, type(e.exc).__name__),
                 dict(hid=hid, fail_at=0, spec=spec, ops=['open' + (' preselect=%r' % pre if pre is not None else '')]),
                 repr(e.exc), 'opens', 'opening the data set (valid file / valid non-empty preselection) raised',
                 spec='opens')


def fixture_plan(ctx):
    """(format, number of data sets, histories per data set)."""
    nf = ctx.scale(5, 30)
    nh = ctx.scale(24, 80)
    # v4: more data sets (opened with / without a preselection), fewer histories on each
    # v2 / v3: the frequency-axis variants (old v2 files; v3 receiver bands, fake UHF, faulty bandwidth, overrides)
    plan = dict(v1=(nf, nh), v2=(ctx.scale(7, 30), ctx.scale(18, 80)), v3=(ctx.scale(10, 40), ctx.scale(12, 60)),
                v4=(ctx.scale(12, 48), ctx.scale(12, 50)))
    return [(fmt,) + plan[fmt] for fmt in FMTS]


def run(ctx):
    logging.getLogger('katdal').setLevel(logging.ERROR)
    logging.getLogger('katpoint').setLevel(logging.ERROR)
    logging.disable(logging.CRITICAL)
    if not ctx.model_ok:
        ctx.extra['note'] = ('no model binary: only the v3 time axis is searched (props/c01resyn.py against the documented '
                             'times computed in Python)')
        from props import c01resyn
        c01resyn.run(ctx)
        return
    for f in ctx.findings:
        run_witness(ctx, f['witness'])
    rng = ctx.rng
    sample_cases = []
    for fmt, nf, nh in fixture_plan(ctx):
        for k in range(nf):
            fseed = rng.randrange(1 << 30)
            # v4: the first data sets of a run cover the four parity strata of (stored channel count, first + last of
            # the preselected channel range); the others are drawn freely (with / without preselection, any keys)
            want = [k & 1, (k >> 1) & 1] if fmt == 'v4' and k < 4 else None
            if fmt == 'v3' and k < len(V3_AXES) + 2:
                # every frequency-axis kind once without overrides, then two data sets with BOTH overrides (L0
                # center_freq attribute and centre_freq= argument)
                want = [k, 0] if k < len(V3_AXES) else [rng.randrange(3), 1]
            try:
                fx = build_fixture(random.Random(fseed), fmt, want=want)
            except OpenFailed as e:
                report_open_failed(ctx, e, dict(fmt=fmt, fseed=fseed, hseed=0, nops=0, **(dict(want=want) if want else {})))
                continue
            ctx.count('datasets=' + fmt)
            if fmt == 'v4':
                ctx.count('datasets=v4:preselect=%s' % ('+'.join(sorted(fx.pre)) or 'empty' if fx.pre is not None else 'no'))
                ctx.count('datasets=v4:stored_F_%s;first+last_%s' % ('odd' if fx.stored_F % 2 else 'even',
                                                                     'odd' if (fx.sub[2] + fx.sub[3]) % 2 else 'even'))
            for key in ('dup', 'keepdims', 'lower', 'centroid'):
                if fx.spec.get(key):
                    ctx.count('quirk=%s:%s' % (fmt, key))
            ctx.count('grid=%s:%s' % (fmt, fx.spec.get('grid_kind', 'regular')))
            try:
                for j in range(nh):
                    hseed = rng.randrange(1 << 30)
                    nops = random.Random(hseed).randint(8, 16)
                    hid = dict(fmt=fmt, fseed=fseed, hseed=hseed, nops=nops)
                    if want is not None:
                        hid['want'] = want
                    mcase, mouts = run_one(ctx, fx, hseed, nops, hid)
                    if len(sample_cases) < 40 and j < 3:
                        sample_cases.append((mcase, mouts))
                    ctx.count('histories')
            finally:
                fx.close()
    # data sets with several spectral windows (v2 files whose centre frequency is retuned): props/c01win.py, wire_1005
    from props import c01cat, c01win
    c01win.run(ctx)
    # ... and several subarrays: v2 / v3 files opened together (props/c01cat.py, same model)
    c01cat.run(ctx)
    # the time axis H5DataV3 builds from the file: resynthesis from the ADC counter, wraps, refusals (props/c01resyn.py, wire_1006)
    from props import c01resyn
    c01resyn.run(ctx)
    ctx.extra['unanswered_reads'] = ctx.dist.get('unanswered', 0)
    ctx.extra['observation_models_skipped'] = len(SKIPPED)
    if ctx.tier == 'thorough':
        from vh import core
        with core.BuildLock():
            tg = ' '.join(x[:-2] + '.vo' for x in core.coq_sources() if x.startswith(('Base/', 'Gen/', 'Model/')))
            core.sh('timeout 1500 make -j4 %s' % tg, cwd=core.COQ, timeout=1600)
            core.sh('timeout 600 coqc -Q . KV Extract/Dispatch.v', cwd=core.COQ, timeout=700)
        sample = sample_cases[:24]
        outs = core.run_model_in_coq([c for c, _ in sample], 'c01')
        for (c, mo), o in zip(sample, outs):
            if o != mo:
                ctx.disagree('extraction_mismatch', dict(case='wire_1 sample'), str(mo)[:300], str(o)[:300],
                             'extracted model differs from vm_compute', kind='tie')
        ctx.extra['in_coq_crosscheck'] = len(sample)


def replay(ctx, doc):
    logging.disable(logging.CRITICAL)
    case = doc.get('case', {})
    hid = case.get('hid', {})
    if hid.get('kind') == 'witness':
        return run_witness(ctx, hid['witness'])
    if hid.get('kind') == 'resyn':
        from props import c01resyn
        return c01resyn.replay(ctx, hid)
    if hid.get('kind') in ('win', 'win_corpus', 'cat'):
        from props import c01win
        return c01win.replay(ctx, hid)
    if 'witness' in case:
        return run_witness(ctx, case['witness'])
    try:
        fx = build_fixture(random.Random(hid['fseed']), hid['fmt'], want=hid.get('want'))
    except OpenFailed as e:
        return report_open_failed(ctx, e, hid)
    try:
        run_one(ctx, fx, hid['hseed'], hid['nops'], hid)
    finally:
        fx.close()
