"""C10, part 2: the sensor property tables of the formats and real (synthetic) data sets.

(a) table cases: for every entry of dataset.DEFAULT_SENSOR_PROPS and of the SENSOR_PROPS of h5datav1/2/3 and
    visdatav4 a sensor whose name matches the entry is put into a SensorCache built with the REAL table object and read
    through SensorCache.get / cache[name]; the expected result is the documented rule evaluated by the extracted model
    with the properties PARSED from the source by the translator (harness/vh/items/c10.py parse_sensor_tables) and the
    wildcard merge of _get_props.
(b) data-set cases: synthetic v2 / v3 (HDF5) and v4 (telstate + chunk store) data sets with categorical sensors of the
    second antenna (activity, target, noise diode, indexer position, serial number, ...) written into the files; the
    per-dump values of d.sensor.get(name) and d.sensor[name] are checked against the rule with the table properties.

Python values are abstracted to ids by Python equality (==), the relation katdal itself uses for greedy membership and
repeat removal: a value the rule does not know (e.g. the string 'True' numpy makes of a bool when an untransformed
initial value promotes the array) gets a fresh id and shows up as a difference.
"""
import os
import re
import shutil

import numpy as np

A = 'A, radec bpcal, 19:39:25.03, -63:42:45.6'
B = 'B, radec gaincal, 10:00:00.0, -30:00:00.0'


def _modules():
    import katdal.dataset
    import katdal.h5datav1
    import katdal.h5datav2
    import katdal.h5datav3
    import katdal.visdatav4
    return {'default': (katdal.dataset, 'DEFAULT_SENSOR_PROPS'), 'v1': (katdal.h5datav1, 'SENSOR_PROPS'),
            'v2': (katdal.h5datav2, 'SENSOR_PROPS'), 'v3': (katdal.h5datav3, 'SENSOR_PROPS'),
            'v4': (katdal.visdatav4, 'SENSOR_PROPS')}


_PARSED = {}


def parsed_tables():
    from vh import core
    from vh.items.c10 import parse_sensor_tables
    if 'x' not in _PARSED:
        _PARSED['x'] = parse_sensor_tables(core.REPO)
    return _PARSED['x']


def merged_props(rows, name):
    """SensorCache._get_props on the parsed table: the exact entry first, then every matching wildcard entry in dict
    order (each overriding what is there)."""
    props = {}
    for key, val in rows:
        if key == name:
            props.update(val)
    for key, val in rows:
        if '*' in key and re.match('^' + '.*'.join(re.escape(part) for part in key.split('*')) + '$', name):
            props.update(val)
    return props


def tok_value(tok, module):
    k, v = tok
    if k == 'float':
        return float(v)
    if k == 'other':
        return getattr(module, v)
    return v


def parsed_transform(tr, module):
    if tr is None:
        return None
    if tr[0] == 'str':
        return str
    if tr[0] == 'func':
        return getattr(module, tr[1])
    if tr[0] == 'notin':
        consts = tuple(tok_value(t, module) for t in tr[1])
        return lambda x: x not in consts
    if tr[0] == 'gt':
        c = float(tr[1])
        return lambda x: x > c
    if tr[0] == 'mapget':
        m, d = dict(tr[2]), tr[3]
        return lambda x: m.get(x, d)
    raise ValueError(tr)


class Ids:
    """Python values -> small ints by ==."""

    def __init__(self):
        self.known = []

    @staticmethod
    def same(a, b):
        if isinstance(a, (str, bytes)) != isinstance(b, (str, bytes)):
            return False
        try:
            r = a == b
            return bool(r) if np.ndim(r) == 0 else bool(np.all(r))
        except Exception:   # noqa: BLE001
            return False

    def id_of(self, v, add=True):
        if isinstance(v, np.generic):
            v = v.item()
        if isinstance(v, bytes):
            v = v.decode()
        for k, w in enumerate(self.known):
            if self.same(w, v):
                return k + 1
        if not add:
            return -1000 - (hash(repr(v)) % 1000)
        self.known.append(v)
        return len(self.known)


def raw_domain(props, fmt, rng):
    """Raw (untransformed) values a sensor with these properties may carry."""
    tr = props.get('transform')
    if tr is not None and tr[0] == 'notin':
        return rng.choice([['0', '1', '0', '1', 'False'], [0.0, 1.0], [0, 1]])
    if tr is not None and tr[0] == 'gt':
        return [0.0, 1.0, 0.0, 1.0, 0.5, -1.0]
    if tr is not None and tr[0] == 'mapget':
        return [k for k, _ in tr[2]] + ['stop', 'error', 'unknown']
    if tr is not None and tr[0] == 'func':
        return [A, B, '', 'garbage, ,']
    if tr is not None and tr[0] == 'str':
        return ['track', '', 'scan', 'cal']
    init = props.get('initial_value')
    if init is not None and init[0] == 'int':
        return [0, 4, 17]
    if init is not None and init[0] == 'str':
        return ['l', 'u', 'x', '']
    if props.get('categorical'):
        return [1.0, 2.0, 5.5]
    return ['p', 'q', 'r']


def abstract(tag, sensor, rawvals):
    """Everything the model needs, in ids, from the PARSED table: -> dict(ids, vals, tr, init, greedy, ar, categ,
    is_float, dflt, skip)."""
    module = _modules()[tag][0]
    props = merged_props(parsed_tables()[tag], sensor)
    ids = Ids()
    f = parsed_transform(props.get('transform'), module)
    init = props.get('initial_value')
    skip = None
    if init is not None and init[0] == 'other':
        skip = 'initial_value_is_%s' % init[1]
    arr = np.array(rawvals) if rawvals else np.array([], dtype='<U1')
    vals = [ids.id_of(v) for v in arr.tolist()]
    out = dict(ids=ids, vals=vals, skip=skip, module=module, props=props)
    out['init'] = None if init is None or skip else ids.id_of(tok_value(init, module))
    out['greedy'] = None if props.get('greedy_values') is None else [ids.id_of(tok_value(t, module)) for t in props['greedy_values']]
    tr = None
    if f is not None:
        tr = []
        seen = set()
        cands = list(arr.tolist()) + ([] if out['init'] is None else [tok_value(init, module)])
        for v in cands:
            i = ids.id_of(v)
            if i in seen:
                continue
            seen.add(i)
            try:
                tr.append((i, ids.id_of(f(v))))
            except Exception:   # noqa: BLE001
                out['skip'] = out['skip'] or 'transform_raises'
    out['tr'] = tr
    out['ar'] = props.get('allow_repeats')
    out['categ'] = props.get('categorical')
    out['is_float'] = bool(np.issubdtype(arr.dtype, np.floating))
    # dummy_sensor_getter's default for the type (used when there is no usable sample and no initial value)
    if np.issubdtype(arr.dtype, np.floating):
        out['dflt'] = 0
        if not rawvals and init is None:
            out['skip'] = out['skip'] or 'float_dummy_nan'
    elif np.issubdtype(arr.dtype, np.integer):
        out['dflt'] = ids.id_of(-1)
    elif np.issubdtype(arr.dtype, np.bool_):
        out['dflt'] = ids.id_of(False)
    else:
        out['dflt'] = ids.id_of('')
    return out


def sensor_name_for(key):
    return key.replace('*', 'x9')


# ------------------------------------------------------------------------------------------------ observation

def _decode(c, sel, ids):
    ev = [int(e) for e in c.events]
    ind = [int(i) for i in c.indices]
    uniq = [ids.id_of(v, add=False) for v in c.unique_values]
    per = [ids.id_of(v, add=False) for v in list(c[:])]
    if sel is not None and not isinstance(sel, str):
        sel = [ids.id_of(v, add=False) for v in list(sel)]
    return ('ok', ev, ind, uniq, per, sel)


def observe_table(case, ab):
    from katdal.categorical import CategoricalData
    from katdal.sensordata import SensorCache, SimpleSensorGetter
    module, attr = _modules()[case['table']]
    table = dict(getattr(module, attr))          # _get_props writes into the map it is given
    P = case.get('P', 2)
    ts = np.array([t / 2.0 for t in case['ts']], dtype=float)
    vals = np.array(case['rawvals']) if case['rawvals'] else np.array([], dtype='<U1')
    mid = np.array([e / 2.0 - P / 4.0 for e in case['ends']], dtype=float)
    keep = slice(None) if case.get('keep') is None else np.array(case['keep'], dtype=bool)
    try:
        cache = SensorCache({case['sensor']: SimpleSensorGetter(case['sensor'], ts, vals)}, mid, P / 2.0, keep=keep, props=table)
        c = cache.get(case['sensor'])
        if not isinstance(c, CategoricalData):
            return ('num',)
        try:
            sel = cache[case['sensor']]
        except Exception as e:   # noqa: BLE001
            sel = 'err:' + type(e).__name__
        return _decode(c, sel, ab['ids'])
    except Exception as e:   # noqa: BLE001
        return ('err', type(e).__name__ + ': ' + str(e)[:80])


# ------------------------------------------------------------------------------------------------ data sets
# time unit of the wire = 0.5 s, dump period 2 s = 4 units, wire time 0 = start of dump 0

DT = 2.0


def _rows(case, start0):
    return [(start0 + 0.5 * t, v) for t, v in zip(case['ts'], case['rawvals'])]


def _h5_sensor(group, name, rows):
    import h5py   # noqa: F401
    vals = [v for _, v in rows]
    if vals and isinstance(vals[0], str):
        vd = 'S128'
        vals = [v.encode() for v in vals]
    elif vals and isinstance(vals[0], float):
        vd = np.float64
    else:
        vd = np.int64
    dt = np.dtype([('timestamp', np.float64), ('value', vd), ('status', 'S7')])
    if name in group:
        del group[name]
    group.create_dataset(name, data=np.array([(t, v, b'nominal') for (t, _), v in zip(rows, vals)], dtype=dt))


# sensors written for the SECOND antenna of each format: (name in the file, name in d.sensor, table key it falls under)
DS_SENSORS = {
    'v4': [('m001_activity', 'Antennas/m001/activity'), ('m001_target', 'Antennas/m001/target'),
           ('m001_dig_l_band_noise_diode', 'm001_dig_l_band_noise_diode'),
           ('m001_dig_l_band_noise_diode', 'Antennas/m001/nd_coupler'),
           ('m001_ap_indexer_position', 'm001_ap_indexer_position'),
           ('m001_rsc_rxl_serial_number', 'm001_rsc_rxl_serial_number')],
    'v3': [('activity', 'Antennas/m001/activity'), ('target', 'Antennas/m001/target'),
           ('dig_noise_diode', 'Antennas/m001/dig_noise_diode'), ('dig_noise_diode', 'Antennas/m001/nd_coupler'),
           ('ap_indexer_position', 'Antennas/m001/ap_indexer_position')],
    'v2': [('activity', 'Antennas/ant2/activity'), ('target', 'Antennas/ant2/target'),
           ('rfe3.rfe15.noise.coupler.on', 'Antennas/ant2/nd_coupler'),
           ('rfe3.rfe15.noise.pin.on', 'Antennas/ant2/nd_pin')],
}


def build_dataset(fmt, sensors, T, tag):
    """sensors: {file name: case}; -> (data set, cleanup function, start of dump 0)."""
    from fixtures import v4 as fx4
    tmp = fx4.scratch_dir('c10ds_' + tag)
    os.makedirs(tmp, exist_ok=True)
    if fmt == 'v4':
        start0 = 1600000000.0 + 123.0 - DT / 2
        extra = [(fn, _rows(c, start0)) for fn, c in sensors.items()
                 if fn not in ('m001_activity', 'm001_target')]
        hook_rows = {fn: _rows(c, start0) for fn, c in sensors.items() if fn in ('m001_activity', 'm001_target')}

        def hook(ts, cbid, stream):
            for fn, rows in hook_rows.items():
                ts.delete(fn)
                for t, v in rows:
                    ts.add(fn, v, ts=t)
        v = fx4.build_v4(T=T, F=2, int_time=DT, extra_sensors=extra, telstate_hook=hook, tmp=tmp)
        return v.d, (lambda: fx4.cleanup(v)), start0
    import h5py
    import katdal
    from fixtures.mkv2 import mkv2
    from fixtures.mkv3 import mkv3
    kw = dict(T=T, F=2, dt=DT, acts=[(0, 'slew'), (2, 'track')], targets=[(0, A)], labels=[(0, 'track')])
    if fmt == 'v3':
        fn = os.path.join(tmp, '1500000000.h5')
        mkv3(fn, **kw)
        start0 = 1500000000.0
        with h5py.File(fn, 'r+') as f:
            g = f['TelescopeModel/m001']
            for name, c in sensors.items():
                _h5_sensor(g, name, _rows(c, start0))
        d = katdal.open(fn, centre_freq=1284e6)
    else:
        fn = os.path.join(tmp, '1300000000.h5')
        mkv2(fn, **kw)
        start0 = 1300000000.0
        with h5py.File(fn, 'r+') as f:
            g = f['MetaData/Sensors/Antennas/ant2']
            for name, c in sensors.items():
                _h5_sensor(g, name, _rows(c, start0))
        d = katdal.open(fn)
    return d, (lambda: shutil.rmtree(tmp, ignore_errors=True)), start0


def observe_dataset(d, case, ab, start0):
    from katdal.categorical import CategoricalData
    try:
        s0 = float(d.sensor.timestamps[0]) - d.dump_period / 2
        if abs(s0 - start0) > 1e-6 or abs(d.dump_period - DT) > 1e-9 or len(d.sensor.timestamps) != len(case['ends']):
            return ('fixture', 'dump grid of the data set is not the expected one (%r, %r)' % (s0 - start0, d.dump_period))
        c = d.sensor.get(case['sensor'])
        if not isinstance(c, CategoricalData):
            return ('num',)
        try:
            sel = d.sensor[case['sensor']]
        except Exception as e:   # noqa: BLE001
            sel = 'err:' + type(e).__name__
        return _decode(c, sel, ab['ids'])
    except Exception as e:   # noqa: BLE001
        return ('err', type(e).__name__ + ': ' + str(e)[:80])


# ------------------------------------------------------------------------------------------------ cases

def make_case(tag, key, sensor, rawvals, ts, ends, P=2, keep=None, fmt=None, file_sensor=None):
    ab = abstract(tag, sensor, rawvals)
    case = dict(path='cache', table=tag, key=key, sensor=sensor, rawvals=list(rawvals), ts=list(ts), vals=ab['vals'],
                ends=list(ends), tr=ab['tr'], init=ab['init'], greedy=ab['greedy'], ar=ab['ar'], categ=ab['categ'],
                is_float=ab['is_float'], dflt=ab['dflt'], rep='table', keep=keep)
    if P != 2:
        case['P'] = P
    if fmt:
        case['fmt'] = fmt
        case['file_sensor'] = file_sensor
    return case, ab


def gen_times(rng, ends, P, m):
    lo, hi = ends[0] - 3 * P, ends[-1] + 2 * P
    mode = rng.random()
    if mode < 0.2:
        pool = list(range(ends[0] - P + 1, hi + 1))       # nothing at or before the start of dump 0
    elif mode < 0.3:
        pool = list(range(ends[-1] + 1, hi + 1))          # everything late
    else:
        pool = list(range(lo, hi + 1))
    return sorted(set(rng.choice(pool) for _ in range(m)))


def gen_table_case(rng, tag, key, props):
    n = rng.randint(1, 6)
    P = rng.choice([2, 2, 4])
    ends = [P * k for k in range(n)]
    dom = raw_domain(props, tag, rng)
    m = rng.randint(0, 7)
    ts = gen_times(rng, ends, P, m)
    rawvals = [rng.choice(dom) for _ in ts]
    keep = [rng.random() < 0.6 for _ in ends] if rng.random() < 0.2 else None
    return make_case(tag, key, sensor_name_for(key), rawvals, ts, ends, P, keep)


def canon(case):
    return ('table', case['table'], case['sensor'], tuple(map(repr, case['rawvals'])), tuple(case['ts']), tuple(case['ends']),
            case.get('P', 2), tuple(case.get('keep') or ()), case.get('fmt'))


def check(ctx, case, ab, ob):
    from props import c10
    prefix = 'table=%s;key=%s;' % (case['table'], case['key'])
    if case.get('fmt'):
        prefix = 'dataset=%s;' % case['fmt'] + prefix
    if ab['skip']:
        ctx.count('table:skipped:' + ab['skip'])
        return
    if ob[0] == 'fixture':
        ctx.count('dataset:fixture_grid_mismatch')
        return
    mo = ctx.model([c10.wire(case)])[0] if ctx.model_ok else None
    c10.compare(ctx, case, mo, ob=ob, prefix=prefix)
    ctx.note_case(canon(case), nontrivial=c10.nontrivial(case),
                  sample=dict({k: v for k, v in case.items()}, observed=list(ob[1:]) if ob[0] == 'ok' else list(ob)) if ctx.rng.random() < 0.01 else None)
    ctx.count('%s:%s' % ('dataset' if case.get('fmt') else 'table', case['table']))
    ctx.count('table_entry:' + case['key'])
    ctx.count('table_result=' + ob[0])


def run_dataset(ctx, fmt, rng, T):
    """One synthetic data set with random categorical sensors on the second antenna."""
    rows = parsed_tables()[fmt]
    ends = [4 * (k + 1) for k in range(T)]
    per_file = {}
    cases = []
    for file_sensor, name in DS_SENSORS[fmt]:
        props = merged_props(rows, name)
        if file_sensor in per_file:
            base = per_file[file_sensor]
            ts, rawvals = base['ts'], base['rawvals']
        else:
            dom = raw_domain(props, fmt, rng)
            if file_sensor.endswith('noise_diode'):
                dom = [0.0, 1.0]
            m = rng.randint(1, 7)
            ts = gen_times(rng, ends, 4, m)
            if not ts:
                ts = [ends[0] - 6]
            rawvals = [rng.choice(dom) for _ in ts]
            if len({type(v) for v in rawvals}) > 1:
                rawvals = [v for v in rawvals if isinstance(v, type(rawvals[0]))]
                ts = ts[:len(rawvals)]
        keys = [k for k, _ in rows if k == name] + [k for k, _ in rows if '*' in k and re.match('^' + '.*'.join(
            re.escape(p) for p in k.split('*')) + '$', name)]
        case, ab = make_case(fmt, '+'.join(keys) or '-', name, rawvals, ts, ends, 4, None, fmt, file_sensor)
        per_file.setdefault(file_sensor, case)
        cases.append((case, ab))
    d, cleanup, start0 = build_dataset(fmt, per_file, T, '%s_%d' % (fmt, os.getpid()))
    try:
        for case, ab in cases:
            check(ctx, case, ab, observe_dataset(d, case, ab, start0))
    finally:
        cleanup()


def run(ctx):
    rng = ctx.rng
    # witnesses of known findings that live at table / data-set level
    for f in ctx.findings:
        w = f['witness']
        if 'table' in w:
            replay(ctx, dict(w))
            ctx.count('known_finding_witness')
    tables = parsed_tables()
    per_entry = ctx.scale(30, 300)
    for tag in ('default', 'v1', 'v2', 'v3', 'v4'):
        for key, props in tables[tag]:
            for _ in range(per_entry):
                case, ab = gen_table_case(rng, tag, key, merged_props(tables[tag], sensor_name_for(key)))
                check(ctx, case, ab, observe_table(case, ab))
    if ctx.searching and not ctx.model_ok:
        return
    for fmt, n in (('v4', ctx.scale(5, 40)), ('v3', ctx.scale(4, 30)), ('v2', ctx.scale(4, 30))):
        for _ in range(n):
            try:
                run_dataset(ctx, fmt, rng, rng.randint(3, 6))
            except Exception as e:   # noqa: BLE001
                ctx.count('dataset:%s:build_failed:%s' % (fmt, type(e).__name__))
                ctx.extra.setdefault('dataset_build_failures', []).append('%s: %s' % (fmt, str(e)[:200]))


def replay(ctx, case):
    if case.get('tr') is not None:
        case['tr'] = [tuple(p) for p in case['tr']]
    ab = abstract(case['table'], case['sensor'], case['rawvals'])
    # the abstraction is recomputed from the CURRENT source: a repaired table gives different ids / properties
    fresh, ab = make_case(case['table'], case['key'], case['sensor'], case['rawvals'], case['ts'], case['ends'],
                          case.get('P', 2), case.get('keep'), case.get('fmt'), case.get('file_sensor'))
    if fresh.get('fmt'):
        d, cleanup, start0 = build_dataset(fresh['fmt'], {fresh['file_sensor']: fresh}, len(fresh['ends']), 'replay')
        try:
            check(ctx, fresh, ab, observe_dataset(d, fresh, ab, start0))
        finally:
            cleanup()
    else:
        check(ctx, fresh, ab, observe_table(fresh, ab))
