"""C02 — select() criteria combine as documented, whatever the call history (correspondence + search).

The real DataSet.select (katdal/dataset.py) is driven through a harness subclass of DataSet built on a generated
observation (scan / compscan / target structure, katpoint catalogue with aliases and tags, several antennas,
real SensorCache, real SpectralWindow / Subarray).  Every history of select() calls is replayed on the extracted
Coq model (`select`) and on the extracted spec (`spec_select`), which compute all masks themselves from the
observation structure sent over the wire.
"""
import logging
import warnings

import numpy as np

RULE = ('PART 1 (wire_2, single window): random observations (3-16 dumps with scan/compscan/target structure and optional '
        'gaps, 2-4 antennas, 3-12 correlation products incl. cross-pol, 2-12 channels of either sideband, catalogue of 2-5 '
        'targets with aliases and tags) x histories of 1-8 select() calls with 0-3 criteria each over all criterion kinds x '
        'argument forms (int, numpy int, slice, int list, int array, bool list/array, name, ~name, comma string, list, tuple, '
        'object, description) x reset in {absent, auto, \'\', T, F, B, TF, TB, FB, TFB, permuted letters}.  '
        'PART 2 (wire_21, extended model): observations with 1-3 spectral windows (different channel counts, widths, '
        'sidebands) and 1-2 subarrays (different antennas / products), per-dump spw_index / subarray_index sensors; '
        'histories of 1-9 calls that are NOT cut at an exception; criteria in their SURFACE form (the raw comma string '
        'with arbitrary ASCII white space, list / tuple items that are unstripped, wrong-case, empty, "~", integers, numpy '
        'integers, Antenna objects); spw= / subarray= valid, unchanged, == n, negative; index forms incl. tuples, empty '
        'tuple, 0-d bool / numpy bool / 0-d arrays, range, duplicates, all-false / all-true; one history in four is a '
        'MALFORMED STREAM (30% of its criteria raise in their loop branch: out-of-range index, wrong mask length, slice '
        'step 0, empty name item, non-string pol / antenna item); a case is one call in its history; non-trivial when it '
        'carries a criterion or reset and the selection is neither everything nor empty in all three dimensions (or, for '
        'a failed call, when it changed the data set); distinct by (observation, history prefix).  PART 3 (wire_22): '
        '_selection_to_list and _is_deselection called directly on generated strings / sequences.  Thorough tier adds all '
        'two-call histories over a fixed alphabet and 300 histories on two synthetic MVF v4 data sets opened through '
        'VisibilityDataV4 (part 1 model)')
ASSUMPTIONS = ['names are compared through vocabulary tables sent to the model (scan states, compscan labels, tags, antenna '
               'names, input labels as STRINGS -> ids); a string outside the tables is "unknown".  Target names / '
               'descriptions / objects are resolved by katpoint on the implementation side and by the harness on the '
               'model side (katpoint name normalisation and Target equality are outside katdal)',
               'timestamps / frequencies / range end points are multiples of a quarter dump / quarter channel of the '
               'narrowest window that are exactly representable in float64, so all comparisons are exact',
               'strings are ASCII (Python str.strip / str.lower are modelled for code points < 128)',
               'part 1 only: single spectral window and single subarray, and after an exception other than the strict '
               'TypeError the history is abandoned (part 2 has neither restriction)',
               'timerange given as strings and non-integer spw / subarray / non-string reset values are not generated '
               '(the model returns "other exception" for them)']

STATES = ['slew', 'track', 'scan', 'stop']
LABELS = ['', 'track', 'raster', 'cal', 'point', 'drift scan', 'noise diode']   # free text: inner blanks are legal
TAGS = ['radec', 'azel', 'bpcal', 'gaincal', 'target', 'fluxcal', 'nope', 'special']
TNAMES = ['A', 'Aalias', 'B', 'C', 'Cee', 'PKS 1934-63', 'J1939-6342', 'D', 'Dd', 'E', 'Moon', 'nope']
ANTS = ['m000', 'm001', 'm062', 'm063', 'm999']
UNKNOWN = 99


def norm_name(name):
    return name.strip().lower().replace(' ', '').replace('_', '')


def codes(s):
    return [ord(c) for c in s]


# ---------------------------------------------------------------------------------------------------------------
# observation

def gen_obs(rng, small=False):
    T = rng.randint(3, 6 if small else 16)
    dp = rng.choice([0.5, 1.0, 2.0, 4.0, 8.0])
    t0 = 1500000000.0 + rng.randint(0, 4000) * dp / 4
    gaps = [0]
    for _ in range(T - 1):
        gaps.append(gaps[-1] + (1 if rng.random() < 0.85 else rng.randint(2, 3)))
    # compscans
    ncs = rng.randint(1, min(T, 5))
    cs_starts = sorted(rng.sample(range(1, T), ncs - 1)) if ncs > 1 else []
    cs_events = [0] + cs_starts + [T]
    ntargets = rng.randint(2, 5)
    cs_target = [rng.randrange(ntargets) for _ in range(ncs)]
    cs_label = [rng.choice(LABELS) for _ in range(ncs)]
    # scans refine compscans
    extra = [i for i in range(1, T) if i not in cs_starts and rng.random() < 0.35]
    sc_events = sorted(set(cs_events + extra))
    nsc = len(sc_events) - 1
    sc_state = [rng.choice(STATES) for _ in range(nsc)]
    # catalogue
    names = rng.sample(TNAMES[:10], 10)
    targets = []
    used = 0
    for i in range(ntargets):
        nn = rng.choice([1, 1, 2, 3])
        tn = names[used:used + nn]
        if not tn:
            tn = ['T%d' % i]
        used += nn
        if i > 0 and rng.random() < 0.15:
            tn = tn + [targets[rng.randrange(i)]['names'][0]]    # shared alias / name: two targets answer to it
        body = rng.choice(['radec', 'radec', 'azel'])
        tags = [t for t in TAGS[2:6] if rng.random() < 0.4]
        targets.append(dict(names=tn, body=body, tags=tags, ra='%d:%02d' % (i + 1, rng.randint(0, 59)),
                            dec='-%d:%02d' % (10 + i, rng.randint(0, 59))))
    # antennas, correlation products
    nants = rng.randint(2, 4)
    ants = rng.sample(ANTS[:4], nants)
    inputs = [a + p for a in ants for p in 'hv']
    allcp = [(a, b) for a in inputs for b in inputs]
    B = rng.randint(3, 6 if small else 12)
    cps = rng.sample(allcp, B)
    if rng.random() < 0.5:
        # the usual layout: autos then crosses, hh vv hv vh
        cps = [(a + p, b + q) for (p, q) in ('hh', 'vv', 'hv', 'vh') for i, a in enumerate(ants) for b in ants[i:]][:B]
    F = rng.randint(2, 4 if small else 12)
    w = rng.choice([1, 1000, 52224, 250000])            # quarter of a channel, Hz
    centre = rng.randint(1000, 6000) * 4 * w
    sideband = rng.choice([1, -1])
    return dict(T=T, dp=dp, t0=t0, gaps=gaps, cs_events=cs_events, cs_target=cs_target, cs_label=cs_label,
                sc_events=sc_events, sc_state=sc_state, targets=targets, ants=ants, cps=cps, F=F, w=w, centre=centre,
                sideband=sideband)


def target_description(t):
    return '%s, %s %s, %s, %s' % (' | '.join(t['names']), t['body'], ' '.join(t['tags']), t['ra'], t['dec'])


class Observation:
    """The generated observation, its real katdal DataSet and its wire encoding."""

    compare_wf = True

    def __init__(self, spec):
        import katpoint
        from katdal.categorical import CategoricalData
        from katdal.dataset import DEFAULT_VIRTUAL_SENSORS, DataSet, Subarray
        from katdal.sensordata import SensorCache
        from katdal.spectral_window import SpectralWindow
        self.spec = spec
        T = spec['T']
        dp = spec['dp']
        timestamps = spec['t0'] + dp * np.array(spec['gaps'], dtype=float)
        self.timestamps = timestamps
        ktargets = [katpoint.Target(target_description(t)) for t in spec['targets']]
        kants = [katpoint.Antenna('%s, -30:42:39.8, 21:26:38.0, 1086.6, 13.5, %d 0 0' % (a, 10 * i))
                 for i, a in enumerate(spec['ants'])]
        self.kants = kants
        subarray = Subarray(kants, spec['cps'])
        spw = SpectralWindow(centre_freq=float(spec['centre']), channel_width=float(4 * spec['w']),
                             num_chans=spec['F'], sideband=spec['sideband'])
        obs = self

        class HarnessDataSet(DataSet):
            def __init__(self):
                super().__init__(name='c02', ref_ant='array')

                def const(v):
                    return CategoricalData([v], [0, T])
                self.subarrays = [subarray]
                self.spectral_windows = [spw]
                sensors = {'Observation/spw_index': const(0), 'Observation/subarray_index': const(0)}
                cs_ev, sc_ev = spec['cs_events'], spec['sc_events']
                sensors['Observation/target'] = CategoricalData([ktargets[i] for i in spec['cs_target']], cs_ev)
                sensors['Observation/target_index'] = CategoricalData(list(spec['cs_target']), cs_ev)
                sensors['Observation/compscan_index'] = CategoricalData(list(range(len(cs_ev) - 1)), cs_ev)
                sensors['Observation/label'] = CategoricalData(list(spec['cs_label']), cs_ev)
                sensors['Observation/scan_index'] = CategoricalData(list(range(len(sc_ev) - 1)), sc_ev)
                sensors['Observation/scan_state'] = CategoricalData(list(spec['sc_state']), sc_ev)
                self._timestamps = timestamps
                self._time_keep = np.full(T, True, dtype=bool)
                self._freq_keep = np.full(spw.num_chans, True, dtype=bool)
                self._corrprod_keep = np.full(len(subarray.corr_products), True, dtype=bool)
                self.dump_period = dp
                self.start_time = katpoint.Timestamp(timestamps[0] - 0.5 * dp)
                self.end_time = katpoint.Timestamp(timestamps[-1] + 0.5 * dp)
                self.sensor = SensorCache(sensors, timestamps, dp, keep=self._time_keep,
                                          virtual=DEFAULT_VIRTUAL_SENSORS)
                self.catalogue.add(ktargets)
                self.select(spw=0, subarray=0)

            @property
            def timestamps(self):
                return self._timestamps[self._time_keep]

        self.cls = HarnessDataSet
        self.d = HarnessDataSet()
        d = self.d
        assert len(d.catalogue.targets) == len(ktargets), 'catalogue merged targets'
        self.ktargets = ktargets
        # ids
        self.cps = [(str(a), str(b)) for a, b in subarray.corr_products]
        self.B = len(self.cps)
        self.F = spec['F']
        self.T = T
        freqs = spw.channel_freqs
        self.fbase = float(freqs.min()) - 8 * spec['w']
        fz = (freqs - self.fbase) / spec['w']
        assert np.all(fz == np.round(fz))
        self.fz = [int(x) for x in fz]
        self.name_ids = {}
        for t in spec['targets']:
            for n in t['names']:
                self.name_ids.setdefault(norm_name(n), len(self.name_ids))
        self.weight_ids = {}

    def fresh(self):
        return self.cls()

    def ant_id(self, name):
        return self.spec['ants'].index(name) if name in self.spec['ants'] else UNKNOWN

    def input_id(self, name):
        if len(name) >= 2 and name[:-1] in self.spec['ants'] and name[-1] in 'hv':
            return [self.ant_id(name[:-1]), 'hv'.index(name[-1])]
        return [UNKNOWN, 9]

    def tag_id(self, tag):
        return TAGS.index(tag) if tag in TAGS else UNKNOWN

    def wire(self):
        s = self.spec
        dumps = []
        for i in range(self.T):
            cs = max(j for j, e in enumerate(s['cs_events'][:-1]) if e <= i)
            sc = max(j for j, e in enumerate(s['sc_events'][:-1]) if e <= i)
            dumps.append([4 * s['gaps'][i], sc, STATES.index(s['sc_state'][sc]), cs, LABELS.index(s['cs_label'][cs]),
                          s['cs_target'][cs]])
        targets = [[[self.name_ids[norm_name(n)] for n in t['names']],
                    [self.tag_id(t['body'])] + [self.tag_id(x) for x in t['tags']]] for t in s['targets']]
        cps = [self.input_id(a) + self.input_id(b) for a, b in self.cps]
        return [dumps, 2, targets, self.fz, 2, cps]


class DataSetObservation(Observation):
    """The same interface over an already opened katdal data set of a real format class (thorough tier):
    the observation structure is read back from the data set's own sensors, catalogue, spectral window and
    subarray."""

    compare_wf = False     # _flags_keep / _weights_keep are format-specific properties (C16)

    def __init__(self, d):
        self.d = d
        d.select()
        ts = np.asarray(d.sensor.timestamps[:], dtype=float)
        self.timestamps = ts
        self.T = len(ts)
        dp = float(d.dump_period)
        gaps = (ts - ts[0]) / dp
        assert np.all(gaps == np.round(gaps)), 'timestamps are not on the dump grid'
        sub = d.subarrays[0]
        spw = d.spectral_windows[0]
        self.kants = list(sub.ants)
        self.cps = [(str(a), str(b)) for a, b in sub.corr_products]
        self.B = len(self.cps)
        self.F = int(spw.num_chans)
        w = float(spw.channel_width) / 4
        freqs = np.asarray(spw.channel_freqs, dtype=float)
        self.fbase = float(freqs.min()) - 8 * w
        fz = (freqs - self.fbase) / w
        assert np.all(fz == np.round(fz)), 'channel frequencies are not on the quarter-channel grid'
        self.fz = [int(x) for x in fz]

        def per_dump(name):
            return list(np.asarray(d.sensor[name]))
        self.scan = [int(x) for x in per_dump('Observation/scan_index')]
        self.state = [str(x) for x in per_dump('Observation/scan_state')]
        self.cscan = [int(x) for x in per_dump('Observation/compscan_index')]
        self.label = [str(x) for x in per_dump('Observation/label')]
        self.tgt = [int(x) for x in per_dump('Observation/target_index')]
        assert set(self.state) <= set(STATES) and set(self.label) <= set(LABELS)
        targets = []
        for t in d.catalogue.targets:
            assert set(t.tags) <= set(TAGS), 'catalogue tag outside the harness vocabulary'
            targets.append(dict(names=[t.name] + list(t.aliases), tags=list(t.tags)))
        self.spec = dict(T=self.T, dp=dp, t0=float(ts[0]), gaps=[int(x) for x in gaps],
                         sc_events=list(range(max(self.scan) + 2)), cs_events=list(range(max(self.cscan) + 2)),
                         targets=targets, ants=[a.name for a in self.kants], w=w, real_format=type(d).__name__)
        self.name_ids = {}
        for t in targets:
            for n in t['names']:
                self.name_ids.setdefault(norm_name(n), len(self.name_ids))
        self.weight_ids = {}

    def fresh(self):
        d = self.d
        d.select()
        d.select(weights='all', flags='all')
        d._selection = {'spw': 0, 'subarray': 0}      # as after the constructor of the harness class
        return d

    def wire(self):
        s = self.spec
        dumps = [[4 * s['gaps'][i], self.scan[i], STATES.index(self.state[i]), self.cscan[i],
                  LABELS.index(self.label[i]), self.tgt[i]] for i in range(self.T)]
        targets = [[[self.name_ids[norm_name(n)] for n in t['names']], [self.tag_id(x) for x in t['tags']]]
                   for t in s['targets']]
        cps = [self.input_id(a) + self.input_id(b) for a, b in self.cps]
        return [dumps, 2, targets, self.fz, 2, cps]


# ---------------------------------------------------------------------------------------------------------------
# criteria: each generator returns (python value, wire value, form tag)

def gen_index(rng, n, allow_oob=True):
    kind = rng.choice(['int', 'npint', 'slice', 'slice', 'list', 'array', 'boollist', 'boolarray', 'empty'])
    if kind in ('int', 'npint'):
        z = rng.randint(-n - (1 if allow_oob and rng.random() < 0.05 else 0), n - (0 if allow_oob and rng.random() < 0.05 else 1))
        return (z if kind == 'int' else np.int64(z)), [1, int(z)], kind
    if kind == 'slice':
        def bound():
            return rng.choice([None, rng.randint(-n - 2, n + 2)])
        a, b = bound(), bound()
        c = rng.choice([None, None, 1, 2, 3, -1, -2])
        return slice(a, b, c), [2, _opt(a), _opt(b), _opt(c)], 'slice' if (c or 1) > 0 else 'negslice'
    if kind in ('list', 'array'):
        k = rng.randint(1, 4)
        hi = n - 1 if not (allow_oob and rng.random() < 0.04) else n
        l = [rng.randint(-n, hi) for _ in range(k)]
        return (l if kind == 'list' else np.array(l)), [3, l], 'int' + kind
    if kind == 'empty':
        return [], [3, []], 'emptylist'
    m = [rng.random() < 0.6 for _ in range(n)]
    if allow_oob and rng.random() < 0.03 and n > 1:
        m = m[:-1]
    elif rng.random() < 0.03:
        m = m[:1]       # one-element masks are broadcast by numpy
    return (m if kind == 'boollist' else np.array(m, dtype=bool)), [0, [int(x) for x in m]], kind


def _opt(x):
    return [] if x is None else [int(x)]


def render_names(rng, names, allow_string=True):
    """One of the documented spellings of a list of names: list, tuple, comma string, bare string."""
    forms = ['list', 'tuple']
    if allow_string and all(isinstance(x, str) for x in names) and all(',' not in x for x in names):
        if not (len(names) == 1 and names[0] == ''):
            forms += ['comma', 'comma']
    if len(names) == 1:
        forms += ['bare', 'bare']
    f = rng.choice(forms)
    if f == 'list':
        return list(names), f
    if f == 'tuple':
        return tuple(names), f
    if f == 'bare':
        return names[0], f
    sep = rng.choice([',', ', ', ' ,'])
    return sep.join(names), f


def gen_criterion(rng, ob, key):
    s = ob.spec
    if key == 'dumps':
        v, w, f = gen_index(rng, ob.T)
        return v, [0, w], f
    if key == 'channels':
        v, w, f = gen_index(rng, ob.F)
        return v, [0, w], f
    if key == 'timerange':
        import katpoint
        top = 4 * s['gaps'][-1]
        a = rng.randint(-6, top + 2)
        b = rng.randint(a - 2, top + 6)
        u = s['dp'] / 4
        fa, fb = s['t0'] + a * u, s['t0'] + b * u
        form = rng.choice(['float', 'float', 'timestamp', 'list'])
        if form == 'timestamp':
            v = (katpoint.Timestamp(fa), katpoint.Timestamp(fb))
        elif form == 'list':
            v = [fa, fb]
        else:
            v = (fa, fb)
        return v, [1, a, b], form
    if key == 'freqrange':
        lo, hi = min(ob.fz), max(ob.fz)
        a = rng.randint(lo - 4, hi + 2)
        b = rng.randint(a - 2, hi + 4)
        w = s['w']
        return (ob.fbase + a * w, ob.fbase + b * w), [1, a, b], 'float'
    if key in ('scans', 'compscans'):
        vocab = STATES if key == 'scans' else LABELS[1:]
        nidx = len(s['sc_events']) - 1 if key == 'scans' else len(s['cs_events']) - 1
        k = rng.choice([0, 1, 1, 1, 2, 2, 3])
        items, wire = [], []
        for _ in range(k):
            c = rng.random()
            if c < 0.3:
                z = rng.randint(-1, nidx)
                items.append(z if rng.random() < 0.7 else np.int64(z))
                wire.append([0, z])
            else:
                name = rng.choice(vocab + ['bogus'])
                nid = (STATES if key == 'scans' else LABELS).index(name) if name != 'bogus' else UNKNOWN
                if c < 0.55:
                    items.append('~' + name)
                    wire.append([2, nid])
                else:
                    items.append(name)
                    wire.append([1, nid])
        if not items:
            return rng.choice(['', [], ()]), [2, []], 'empty'
        v, f = render_names(rng, items)
        return v, [2, wire], f
    if key == 'targets':
        import katpoint
        k = rng.choice([1, 1, 1, 2, 2, 3, 0])
        items, wire = [], []
        nt = len(s['targets'])
        for _ in range(k):
            c = rng.random()
            if c < 0.25:
                z = rng.randint(-1, nt)
                items.append(z)
                wire.append([0, z])
            elif c < 0.4:
                i = rng.randrange(nt)
                items.append(ob.d.catalogue.targets[i] if rng.random() < 0.5 else ob.d.catalogue.targets[i].description)
                # .index() finds the first catalogue entry with an equal description (descriptions are distinct)
                wire.append([0, i])
            elif c < 0.47:
                items.append(katpoint.Target('Zz, radec, 0:00, -89:00'))
                wire.append([1, UNKNOWN])
            else:
                name = rng.choice([n for t in s['targets'] for n in t['names']] + ['nope', 'Moon'])
                spell = rng.choice([name, name, name.lower(), ' ' + name + ' ', name.replace(' ', '_')])
                if ',' in spell:
                    spell = name
                items.append(spell)
                wire.append([1, ob.name_ids.get(norm_name(spell), UNKNOWN)])
        if len(items) == 1 and rng.random() < 0.6:
            return items[0], [3, wire], 'bare'
        return (list(items) if rng.random() < 0.7 else tuple(items)), [3, wire], 'list'
    if key == 'target_tags':
        k = rng.choice([0, 1, 1, 1, 2, 2, 3])
        tags = [rng.choice(TAGS) for _ in range(k)]
        if not tags:
            return rng.choice(['', []]), [4, []], 'empty'
        v, f = render_names(rng, tags)
        return v, [4, [ob.tag_id(t) for t in tags]], f
    if key == 'corrprods':
        c = rng.random()
        if c < 0.15:
            return 'auto', [5], 'auto'
        if c < 0.3:
            return 'cross', [6], 'cross'
        if c < 0.5:
            k = rng.randint(1, 3)
            pairs = [rng.choice(ob.cps) if rng.random() < 0.8 else (rng.choice(ob.cps)[0], 'm999h') for _ in range(k)]
            w = [7, [ob.input_id(a) + ob.input_id(b) for a, b in pairs]]
            form = rng.choice(['tuples', 'lists', 'array'])
            if form == 'lists':
                return [list(p) for p in pairs], w, 'pairs-lists'
            if form == 'array':
                return np.array(pairs), w, 'pairs-array'
            return list(pairs), w, 'pairs-tuples'
        v, w, f = gen_index(rng, ob.B)
        return v, [0, w], f
    if key == 'ants':
        k = rng.choice([0, 1, 1, 1, 2, 2, 3])
        allt = rng.random() < 0.4
        items, wire = [], []
        for _ in range(k):
            a = rng.choice(s['ants'] + ['m999'])
            neg = allt or rng.random() < 0.1
            if not neg and a in s['ants'] and rng.random() < 0.25:
                items.append(ob.kants[s['ants'].index(a)])
            else:
                items.append(('~' if neg else '') + a)
            wire.append([int(neg), ob.ant_id(a)])
        if not items:
            return rng.choice(['', []]), [8, []], 'empty'
        v, f = render_names(rng, items)
        return v, [8, wire], f
    if key == 'inputs':
        k = rng.choice([0, 1, 2, 2, 3, 4])
        pool = sorted({x for cp in ob.cps for x in cp}) + ['m999h', 'nope']
        items = [rng.choice(pool) for _ in range(k)]
        if not items:
            return rng.choice(['', []]), [12, []], 'empty'
        v, f = render_names(rng, items)
        return v, [12, [ob.input_id(x) for x in items]], f
    if key == 'pol':
        k = rng.choice([0, 1, 1, 1, 2, 2, 3])
        pool = ['h', 'v', 'hh', 'vv', 'hv', 'vh', 'H', 'V', 'HH', 'VV', 'HV', 'Vh', '', 'x', 'hx']
        wts = [4, 4, 4, 4, 4, 4, 2, 2, 2, 2, 2, 1, 1, 0.3, 0.3]
        items = rng.choices(pool, wts, k=k)
        if not items:
            return rng.choice(['', []]), [9, []], 'empty'
        v, f = render_names(rng, items)
        if f == 'comma':
            # the comma string is split and stripped by the real code: same items
            pass
        return v, [9, [['hv'.index(c) if c in 'hv' else 2 for c in it.lower()[:2]] for it in items]], f
    if key in ('weights', 'flags'):
        v = rng.choice(['all', '', 'cam', 'static,cal_rfi', ['data_lost'], 'precision'])
        pool = ob.weight_ids
        return v, [11, pool.setdefault(repr(v), len(pool) + 1)], 'opaque'
    if key in ('spw', 'subarray'):
        z = 0 if rng.random() < 0.9 else 1
        return z, [11, z], 'index'
    if key == 'strict':
        b = rng.random() < 0.5
        return b, [11, int(b)], 'bool'
    # unknown keyword
    return 7, [11, 7], 'opaque'


TIME = ['dumps', 'timerange', 'scans', 'compscans', 'targets', 'target_tags']
FREQ = ['channels', 'freqrange']
CORR = ['corrprods', 'ants', 'inputs', 'pol']
RESETS = [None] * 16 + ['auto', '', '', 'T', 'F', 'B', 'TF', 'TB', 'FB', 'TFB', 'FT', 'BFT', 'BT']


def gen_call(rng, ob):
    n = rng.choice([0, 1, 1, 1, 2, 2, 2, 3, 3])
    keys = []
    for _ in range(n):
        c = rng.random()
        if c < 0.80:
            k = rng.choice(TIME + FREQ + CORR)
        elif c < 0.90:
            k = rng.choice(['flags', 'weights'])
        elif c < 0.94:
            k = rng.choice(['spw', 'subarray'])
        elif c < 0.97:
            k = 'strict'
        else:
            k = rng.choice(['bogus', 'dump', 'antennas'])
        if k not in keys:
            keys.append(k)
    call = []     # (key, python value, wire value, form)
    for k in keys:
        v, w, f = gen_criterion(rng, ob, k)
        call.append((k, v, w, f))
    reset = rng.choice(RESETS)
    if reset is not None:
        call.insert(rng.randint(0, len(call)), ('reset', reset, [10, codes(reset)], 'reset'))
    return call


def wire_call(call):
    return [[codes(k), w] for (k, v, w, f) in call]


def py_call(call):
    return {k: v for (k, v, w, f) in call}


def describe_call(call):
    return {k: (v if isinstance(v, (int, str, float, bool, list)) else repr(v)) for (k, v, w, f) in call}


# ---------------------------------------------------------------------------------------------------------------
# running a history on the implementation

def observe(ob, d):
    return dict(dumps=[int(x) for x in d.dumps], channels=[int(x) for x in d.channels],
                cps=[(str(a), str(b)) for a, b in d.corr_products], shape=tuple(int(x) for x in d.shape),
                ants=[a.name for a in d.ants], inputs=[str(x) for x in d.inputs],
                tk=[int(x) for x in d._time_keep], fk=[int(x) for x in d._freq_keep], bk=[int(x) for x in d._corrprod_keep],
                keys=list(d._selection.keys()),
                nts=len(d.timestamps), scans=[int(x) for x in d.scan_indices], compscans=[int(x) for x in d.compscan_indices],
                targets=[int(x) for x in d.target_indices],
                wk=d._weights_keep if ob.compare_wf else None, flk=d._flags_keep if ob.compare_wf else None)


def expected_from_masks(ob, tk, fk, bk):
    """Public observables implied by three masks (derived data members at dataset.py:897-919)."""
    cps = [cp for cp, b in zip(ob.cps, bk) if b]
    inputs = sorted({x for cp in cps for x in cp})
    input_ants = {x[:-1] for x in inputs}
    s = ob.spec
    dumps = [i for i, b in enumerate(tk) if b]
    w = ob.wire()[0]
    return dict(dumps=dumps, channels=[i for i, b in enumerate(fk) if b], cps=cps,
                shape=(sum(tk), sum(fk), sum(bk)), ants=[a for a in s['ants'] if a in input_ants], inputs=inputs,
                nts=sum(tk), scans=sorted({w[i][1] for i in dumps}), compscans=sorted({w[i][3] for i in dumps}),
                targets=sorted({w[i][5] for i in dumps}))


PUBLIC = ['dumps', 'channels', 'cps', 'shape', 'ants', 'inputs', 'nts', 'scans', 'compscans', 'targets']


def call_signature(call, symptom, err=None):
    """Shape of the failing call: which dimensions its criteria touch, special keywords, reset class, symptom."""
    dims = ''.join(sorted({('T' if k in TIME else 'F' if k in FREQ else 'B') for (k, v, w, f) in call
                           if k in TIME + FREQ + CORR}))
    cls = {'weights': 'wf', 'flags': 'wf', 'strict': 'strict', 'spw': 'spw', 'subarray': 'spw'}
    other = sorted({cls.get(k, 'unknown') for (k, v, w, f) in call if k not in TIME + FREQ + CORR and k != 'reset'})
    reset = [v for (k, v, w, f) in call if k == 'reset']
    rcls = 'absent' if not reset else ('auto' if reset[0] == 'auto' else 'stack' if reset[0] == '' else 'explicit')
    return 'dims=%s;other=%s;reset=%s;symptom=%s' % (dims or '-', ','.join(other) or '-', rcls, symptom)


def f18_form(call):
    """Signature class of F18: corrprods given as slice, empty list or ndarray (documented forms)."""
    for (k, v, w, f) in call:
        if k == 'corrprods':
            if isinstance(v, slice):
                return 'slice'
            if isinstance(v, list) and not v:
                return 'empty'
            if isinstance(v, np.ndarray):
                return 'ndarray'
    return None


def run_history(ctx, ob, history, mouts, hid, note=True):
    hkey = repr(sorted(hid.items()))
    """history: list of calls; mouts: model output for this history."""
    d = ob.fresh()
    prev = observe(ob, d)
    for n, call in enumerate(history):
        if n >= len(mouts):
            break      # model / spec chain ended on an earlier failure
        mo, so = mouts[n]
        case = dict(obs=ob.spec, history=[describe_call(c) for c in history[:n + 1]], hid=hid, step=n)
        exc = None
        try:
            with warnings.catch_warnings():
                warnings.simplefilter('ignore')
                d.select(**py_call(call))
        except Exception as e:      # noqa: BLE001 - classified below
            exc = e
        ctx.traces_validated += 1
        for (k, v, w, f) in call:
            ctx.count('key=' + k)
            ctx.count('form=%s:%s' % (k, f))
        ctx.count('calls')
        if not call:
            ctx.count('key=(none)')
        icode = 0 if exc is None else (1 if isinstance(exc, TypeError) and 'unexpected keyword' in str(exc) else 2)
        # ---- tie: implementation vs model
        if icode != mo[0]:
            form = f18_form(call)
            if form and icode == 2 and mo[0] == 0:
                ctx.disagree('criterion=corrprods;form=%s;symptom=raises' % form, case, repr(exc), mo[0],
                             'select(corrprods=<%s>) raises although the form is documented' % form, spec=so[0])
            else:
                ctx.disagree(call_signature(call, 'status impl=%d model=%d' % (icode, mo[0])), case, repr(exc) if exc else 'ok',
                             mo[0], 'implementation and model disagree on whether the call is accepted', spec=so[0], kind='tie')
            return
        if icode != so[0]:
            ctx.disagree(call_signature(call, 'status impl=%d spec=%d' % (icode, so[0])), case, repr(exc) if exc else 'ok',
                         mo[0], 'implementation and spec disagree on whether the call is accepted', spec=so[0])
            return
        if icode == 2:
            ctx.count('raised')
            if note:
                ctx.note_case((hkey, n), nontrivial=False)
            return
        cur = observe(ob, d)
        if icode == 1:
            ctx.count('strict_typeerror')
            if cur != prev:
                ctx.disagree(call_signature(call, 'state_changed_by_rejected_call'), case, cur, prev,
                             'a call rejected with TypeError changed the selection')
            if note:
                ctx.note_case((hkey, n), nontrivial=True, sample=None)
            continue
        # model state
        diverged = False
        if (cur['tk'], cur['fk'], cur['bk']) != (mo[1], mo[2], mo[3]):
            dimbad = ''.join(x for x, a, b in (('T', cur['tk'], mo[1]), ('F', cur['fk'], mo[2]), ('B', cur['bk'], mo[3])) if a != b)
            ctx.disagree(call_signature(call, 'masks_differ_from_model:' + dimbad), case,
                         [cur['tk'], cur['fk'], cur['bk']], [mo[1], mo[2], mo[3]],
                         'selection masks differ from the model', spec=so[1:], kind='tie')
            diverged = True
        mkeys = [''.join(chr(c) for c in k) for k in mo[4]]
        if cur['keys'] != mkeys:
            ctx.disagree(call_signature(call, 'selection_keys'), case, cur['keys'], mkeys,
                         '_selection keys (order) differ from the model', kind='tie')
        for nm, val, mid in ((('weights', cur['wk'], mo[5]), ('flags', cur['flk'], mo[6])) if ob.compare_wf else ()):
            exp_id = 0 if (isinstance(val, str) and val == 'all' and mid == 0) else ob.weight_ids.get(repr(val), -5)
            if exp_id != mid:
                ctx.disagree(call_signature(call, nm + '_keep'), case, repr(val), mid,
                             '_%s_keep differs from the model' % nm, kind='tie')
        if diverged and (so[1], so[2], so[3]) == (mo[1], mo[2], mo[3]):
            return
        # ---- property: implementation vs spec, on the public observables
        exp = expected_from_masks(ob, so[1], so[2], so[3])
        bad = [k for k in PUBLIC if cur[k] != exp[k]]
        if bad:
            dimbad = ''.join(x for x, ks in (('T', ('dumps', 'nts', 'scans', 'compscans', 'targets')), ('F', ('channels',)),
                                            ('B', ('cps', 'ants', 'inputs'))) if any(k in bad for k in ks)) or 'shape'
            ctx.disagree(call_signature(call, 'selection_differs_from_spec:' + dimbad), case,
                         {k: cur[k] for k in bad}, {k: exp[k] for k in bad},
                         'selection after the call differs from the documented combination rule', spec=so[1:])
            return      # the chains have diverged: later calls of this history would only repeat the finding
        full = all(so[1]) and all(so[2]) and all(so[3])
        empty = not (any(so[1]) and any(so[2]) and any(so[3]))
        if note:
            ctx.note_case((hkey, n), nontrivial=bool(call) and not full and not empty,
                          sample=dict(history=[describe_call(c) for c in history[:n + 1]], shape=list(cur['shape'])))
        prev = cur


# ---------------------------------------------------------------------------------------------------------------

def model_histories(ctx, ob, histories):
    w = ob.wire()
    cases = [[2, [w, [wire_call(c) for c in h]]] for h in histories]
    return ctx.model(cases), cases


def witness_history(ob_seed, calls):
    return dict(obs_seed=ob_seed, calls=calls)


def run_witness(ctx, w):
    """Known-finding witnesses: {'obs_seed': int, 'calls': [ {key: python-literal}, ... ]} with corrprods forms
    spelled as {'slice': [a, b, c]}, {'ndarray': [...]} or a plain list."""
    import random
    ob = Observation(gen_obs(random.Random(w['obs_seed']), small=True))
    history = []
    for c in w['calls']:
        call = []
        for k, v in c.items():
            if k == 'corrprods':
                if isinstance(v, dict) and 'slice' in v:
                    a, b, s = v['slice']
                    call.append((k, slice(a, b, s), [0, [2, _opt(a), _opt(b), _opt(s)]], 'slice'))
                elif isinstance(v, dict) and 'ndarray' in v:
                    arr = np.array(v['ndarray'])
                    wv = [0, [int(x) for x in arr]] if arr.dtype == bool else [3, [int(x) for x in arr]]
                    call.append((k, arr, [0, wv], 'ndarray'))
                else:
                    call.append((k, list(v), [0, [3, [int(x) for x in v]]], 'intlist' if v else 'emptylist'))
            else:
                raise ValueError('witness keyword %s not supported' % k)
        history.append(call)
    mouts, _ = model_histories(ctx, ob, [history])
    run_history(ctx, ob, history, mouts[0], dict(kind='witness', witness=w))


def run(ctx):
    import random
    logging.getLogger('katdal').setLevel(logging.ERROR)
    logging.getLogger('katpoint').setLevel(logging.ERROR)
    rng = ctx.rng
    # 1. known-finding witnesses first
    if (not ctx.model_ok or getattr(ctx, 'searching', False)) and not search_without_model(ctx):
        if not ctx.model_ok:
            return
    from props import c02x
    for f in ctx.findings:
        if f['witness'].get('x'):
            c02x.run_xwitness(ctx, f['witness'])
        else:
            run_witness(ctx, f['witness'])
    # 2. random histories
    nobs = ctx.scale(25, 300)
    per_obs = ctx.scale(60, 100)
    all_cases = []
    for i in range(nobs):
        oseed = rng.randrange(1 << 30)
        ob, histories = random_histories(oseed, per_obs)
        mouts, cases = model_histories(ctx, ob, histories)
        if len(all_cases) < 60:
            all_cases += list(zip(cases[:3], mouts[:3]))
        for j, (h, mo) in enumerate(zip(histories, mouts)):
            run_history(ctx, ob, h, mo, dict(kind='random', oseed=oseed, per_obs=per_obs, j=j))
        ctx.count('observations')
    # 2b. extended model: several windows / subarrays, surface forms, failed calls, public attributes in the model
    xcases = []
    c02x.run_random(ctx, ctx.scale(40, 400), ctx.scale(40, 80), collect=xcases)
    c02x.run_helpers(ctx, ctx.scale(1500, 20000))
    # 3. exhaustive two-call histories over a fixed alphabet on a small observation
    exhaustive_pairs(ctx)
    # 3b. the same histories on a real format class (MVF v4 from telstate + chunk store), thorough tier
    if ctx.tier == 'thorough':
        real_format_histories(ctx)
        c02x.run_real_format(ctx, ctx.scale(100, 100))
    # 4. cross-check of the extraction inside Coq (thorough tier)
    if ctx.tier == 'thorough':
        from vh import core
        # the thorough tier's clean rebuild only restores the cone of Props/C02.v: make sure the dispatcher's
        # dependencies (all Model/*.vo) are compiled before evaluating cases inside Coq
        with core.BuildLock():
            tg = ' '.join(x[:-2] + '.vo' for x in core.coq_sources() if x.startswith(('Base/', 'Gen/', 'Model/')))
            core.sh('timeout 1500 make -j4 %s' % tg, cwd=core.COQ, timeout=1600)
            core.sh('timeout 600 coqc -Q . KV Extract/Dispatch.v', cwd=core.COQ, timeout=700)
        sample = all_cases[:25] + xcases[:15]
        outs = core.run_model_in_coq([c for c, _ in sample], 'c02')
        for (c, mo), o in zip(sample, outs):
            if o != mo:
                ctx.disagree('extraction_mismatch', dict(case=c), mo, o, 'extracted model differs from vm_compute', kind='tie')
        ctx.extra['in_coq_crosscheck'] = len(sample)


def build_real(k):
    """k-th synthetic MVF v4 data set (deterministic)."""
    from fixtures import v4
    ta = 'A | Aalias, radec bpcal, 19:39:25.03, -63:42:45.6'
    tb = 'B, radec gaincal, 10:00:00.0, -30:00:00.0'
    tc = 'C | Cee, radec target fluxcal, 05:00:00.0, -20:00:00.0'
    cfg = [dict(T=10, F=4, ants=('m000', 'm001'), acts=((0, 'slew'), (2, 'track'), (5, 'slew'), (6, 'track'), (8, 'scan')),
                targets=((0, ta), (5, tb)), labels=((0, 'track'), (5, 'raster'))),
           dict(T=12, F=8, ants=('m000', 'm062', 'm063'), acts=((0, 'track'), (3, 'slew'), (4, 'track'), (9, 'stop')),
                targets=((0, tc), (3, ta), (7, tc)), labels=((0, 'cal'), (3, 'track'), (7, 'point')))][k]
    tmp = v4.scratch_dir('c02')
    return v4.build_v4(tmp=tmp, seed=k, **cfg)


def real_histories(k, n):
    import random
    x = build_real(k)
    ob = DataSetObservation(x.d)
    orng = random.Random(7700 + k)
    return x, ob, [[gen_call(orng, ob) for _ in range(orng.randint(1, 8))] for _ in range(n)]


def real_format_histories(ctx):
    import shutil
    n = ctx.scale(150, 150)
    for k in range(2):
        x, ob, histories = real_histories(k, n)
        try:
            mouts, _ = model_histories(ctx, ob, histories)
            for j, (h, mo) in enumerate(zip(histories, mouts)):
                run_history(ctx, ob, h, mo, dict(kind='real', k=k, n=n, j=j))
            ctx.count('real_format_histories', len(histories))
        finally:
            shutil.rmtree(x.tmp, ignore_errors=True)
    ctx.extra['real_format'] = 'VisibilityDataV4 x 2 synthetic data sets'


def random_histories(oseed, per_obs):
    """Observation and its histories as a deterministic function of oseed (so that a replay can regenerate them)."""
    import random
    orng = random.Random(oseed)
    ob = Observation(gen_obs(orng))
    return ob, [[gen_call(orng, ob) for _ in range(orng.randint(1, 8))] for _ in range(per_obs)]


def alphabet(ob):
    """A fixed alphabet of criteria for the exhaustive two-call enumeration."""
    s = ob.spec
    T, F, B = ob.T, ob.F, ob.B
    st = STATES.index
    a = [
        ('dumps', slice(1, None), [0, [2, [1], [], []]], 'slice'),
        ('dumps', [0, -1], [0, [3, [0, -1]]], 'intlist'),
        ('dumps', [i % 2 == 0 for i in range(T)], [0, [0, [int(i % 2 == 0) for i in range(T)]]], 'boollist'),
        ('timerange', (s['t0'] + s['dp'] / 2, s['t0'] + s['dp'] * (s['gaps'][-1] - 0.5)), [1, 2, 4 * s['gaps'][-1] - 2], 'float'),
        ('timerange', (s['t0'] - s['dp'] / 2, s['t0'] + s['dp'] * 1.5), [1, -2, 6], 'float'),
        ('scans', 'track', [2, [[1, st('track')]]], 'bare'),
        ('scans', '~slew', [2, [[2, st('slew')]]], 'bare'),
        ('scans', [0, 'scan'], [2, [[0, 0], [1, st('scan')]]], 'list'),
        ('compscans', 0, [2, [[0, 0]]], 'bare'),
        ('compscans', '~track', [2, [[2, LABELS.index('track')]]], 'bare'),
        ('targets', 0, [3, [[0, 0]]], 'bare'),
        ('targets', [s['targets'][1]['names'][-1], 'nope'],
         [3, [[1, ob.name_ids[norm_name(s['targets'][1]['names'][-1])]], [1, UNKNOWN]]], 'list'),
        ('target_tags', 'bpcal,gaincal', [4, [TAGS.index('bpcal'), TAGS.index('gaincal')]], 'comma'),
        ('target_tags', 'nope', [4, [TAGS.index('nope')]], 'bare'),
        ('channels', slice(0, None, 2), [0, [2, [0], [], [2]]], 'slice'),
        ('channels', [F - 1], [0, [3, [F - 1]]], 'intlist'),
        ('freqrange', (ob.fbase + (min(ob.fz) + 2) * s['w'], ob.fbase + (max(ob.fz) + 2) * s['w']),
         [1, min(ob.fz) + 2, max(ob.fz) + 2], 'float'),
        ('corrprods', 'auto', [5], 'auto'),
        ('corrprods', 'cross', [6], 'cross'),
        ('corrprods', [0, B - 1], [0, [3, [0, B - 1]]], 'intlist'),
        ('ants', s['ants'][0], [8, [[0, 0]]], 'bare'),
        ('ants', '~' + s['ants'][0], [8, [[1, 0]]], 'bare'),
        ('inputs', [x for cp in ob.cps[:2] for x in cp], [12, [ob.input_id(x) for cp in ob.cps[:2] for x in cp]], 'list'),
        ('pol', 'h', [9, [[0]]], 'bare'),
        ('pol', 'hv,vh', [9, [[0, 1], [1, 0]]], 'comma'),
        ('flags', 'cam', [11, ob.weight_ids.setdefault(repr('cam'), len(ob.weight_ids) + 1)], 'opaque'),
    ]
    return a


def pair_histories(seed, complete):
    import random
    ob = Observation(gen_obs(random.Random(20260929), small=True))
    alpha = alphabet(ob)
    resets = [None, '', 'T', 'F', 'B', 'TFB']
    calls = [[]]
    for c in alpha:
        for r in resets:
            calls.append([c] + ([('reset', r, [10, codes(r)], 'reset')] if r is not None else []))
    # first calls: every criterion with default reset + the no-argument call; second calls: everything
    firsts = [[c] for c in alpha] + [[]]
    if not complete:
        firsts = random.Random(seed).sample(firsts, 6)
    return ob, [[a, b] for a in firsts for b in calls], len(firsts), len(calls)


def exhaustive_pairs(ctx):
    complete = ctx.tier == 'thorough'
    ob, histories, nf, nc = pair_histories(ctx.seed, complete)
    mouts, _ = model_histories(ctx, ob, histories)
    for j, (h, mo) in enumerate(zip(histories, mouts)):
        run_history(ctx, ob, h, mo, dict(kind='pairs', seed=ctx.seed, complete=complete, j=j))
    ctx.extra['exhaustive_pairs'] = dict(first_calls=nf, second_calls=nc, histories=len(histories), complete=complete)
    ctx.count('pair_histories', len(histories))


# The failing-input search after a broken tie.  The driver under build/extract is the one of the LAST tree whose
# translator passed and whose model compiled - that tree need not have been a good one (e.g. the decorator removed:
# the translator emits sel_atomic = false, the model builds, only the proofs break).  So a copy of the driver is kept
# ONLY when the proofs of this check are up to date with it (this module is imported before the pipeline regenerates
# anything, so what is found at import time belongs to the previous run), and the search uses that copy.
C02_MODEL_SOURCES = ('Model/Select.v', 'Model/SelectX.v', 'Model/SelectA.v', 'Base/SelSlice.v', 'Base/Sx.v', 'Base/Str.v')


def _sources_hash(core):
    import hashlib
    import os
    h = hashlib.sha256()
    for f in C02_MODEL_SOURCES:
        h.update(open(os.path.join(core.COQ, f), 'rb').read())
    return h.hexdigest()


def _snapshot_driver():
    try:
        import os
        import shutil
        from vh import core
        ex = core.EXTRACT_DIR
        drv, stamp = os.path.join(ex, 'driver'), os.path.join(ex, 'stamp')
        disp = os.path.join(core.COQ, 'Extract', 'Dispatch.v')
        if not (os.path.exists(drv) and os.path.exists(stamp) and os.path.exists(disp)):
            return
        if 'wire_23' not in open(disp).read():
            return
        st = open(stamp).read()
        if st.split('|')[0] != core.model_hash():      # not the driver of the sources (incl. Generated.v) on disk
            return
        rc, _ = core.sh('timeout 20 make -q Props/C02.vo', cwd=core.COQ, timeout=30)
        if rc != 0:                                    # proofs not up to date with that Generated.v: not a good tree
            return
        dst = os.path.join(core.VERIF, 'build', 'c02_last_good')
        tag = st + _sources_hash(core)
        if os.path.exists(os.path.join(dst, 'tag')) and open(os.path.join(dst, 'tag')).read() == tag:
            return
        os.makedirs(dst, exist_ok=True)
        tmp = os.path.join(dst, 'driver.tmp.%d' % os.getpid())
        shutil.copy2(drv, tmp)
        if open(stamp).read() != st:                   # rebuilt meanwhile by another check
            os.remove(tmp)
            return
        os.replace(tmp, os.path.join(dst, 'driver'))
        with open(os.path.join(dst, 'tag'), 'w') as f:
            f.write(tag)
    except Exception:      # noqa: BLE001 - the snapshot is an optimisation of the search, never a reason to fail
        pass


_snapshot_driver()


def search_without_model(ctx):
    """The translator, the model build or the proofs failed (broken tie): search for a failing input against the model
    driver kept from the last GOOD tree (same model sources; translator, model and proofs all passed).  Without one
    there is nothing sound to compare against and the pipeline reports the broken obligation with
    no-failing-input-found."""
    import os
    import subprocess
    from vh import core
    dst = os.path.join(core.VERIF, 'build', 'c02_last_good')
    drv = os.path.join(dst, 'driver')
    if not (os.path.exists(drv) and os.path.exists(os.path.join(dst, 'tag'))
            and open(os.path.join(dst, 'tag')).read().endswith(_sources_hash(core))):
        return False

    def model(cases):
        if not cases:
            return []
        text = '\n'.join(core.to_sx(c) for c in cases) + '\n'
        p = subprocess.run(['bash', '-c', 'ulimit -s unlimited 2>/dev/null; exec %s' % drv], input=text, stdout=subprocess.PIPE,
                           stderr=subprocess.PIPE, text=True, timeout=3000, env=dict(os.environ, OCAMLRUNPARAM='l=8G'))
        if p.returncode:
            raise RuntimeError('model driver (last good tree) failed rc=%s: %s' % (p.returncode, p.stderr[-2000:]))
        lines = p.stdout.split('\n')
        if lines and lines[-1] == '':
            lines.pop()
        if len(lines) != len(cases):
            raise RuntimeError('model driver returned %d lines for %d cases' % (len(lines), len(cases)))
        return [core.parse_sx(l) for l in lines]
    ctx.model = model
    ctx.extra['searched_with_last_good_model'] = True
    return True


def replay(ctx, doc):
    """Re-runs exactly the history named by the replay file (regenerated from the recorded seeds)."""
    logging.getLogger('katdal').setLevel(logging.ERROR)
    logging.getLogger('katpoint').setLevel(logging.ERROR)
    case = doc.get('case') or {}
    hid = case.get('hid') or {}
    if 'witness' in doc and not hid:
        hid = dict(kind='witness', witness=doc['witness'])
    from props import c02x
    if hid.get('kind') == 'witness':
        if hid['witness'].get('x'):
            return c02x.run_xwitness(ctx, hid['witness'])
        return run_witness(ctx, hid['witness'])
    if c02x.replay(ctx, hid):
        return
    if hid.get('kind') == 'random':
        ob, histories = random_histories(hid['oseed'], hid['per_obs'])
    elif hid.get('kind') == 'pairs':
        ob, histories, _, _ = pair_histories(hid['seed'], hid['complete'])
    elif hid.get('kind') == 'real':
        import shutil
        x, ob, histories = real_histories(hid['k'], hid['n'])
        try:
            h = histories[hid['j']]
            mouts, _ = model_histories(ctx, ob, [h])
            run_history(ctx, ob, h, mouts[0], hid)
        finally:
            shutil.rmtree(x.tmp, ignore_errors=True)
        return
    else:
        return
    h = histories[hid['j']]
    mouts, _ = model_histories(ctx, ob, [h])
    run_history(ctx, ob, h, mouts[0], hid)
