"""C12 — numeric sensors are cleaned, interpolated, cached and selected consistently (correspondence + search).

The real SensorCache / ConcatenatedSensorCache (with SimpleSensorGetter, RecordSensorGetter on ndarray and on an
in-memory h5py dataset, TelstateSensorGetter) is driven through generated access histories; every result and the
raw samples of every getter after the history are compared for EQUALITY with the extracted Coq model
(Model/SensorCache.v) and, for the clean-up + interpolation primitive, with the independent Coq spec."""
import json
import os
from fractions import Fraction

import numpy as np

RULE = ('(a) primitive cases: sample sequence (unsorted, duplicate times with differing values/statuses, every KATCP '
        'status + truncation/odd statuses, empty, all before/after the dumps) x dump grid x time_offset on a 1/4 s dyadic '
        'grid with values multiples of lcm(1..24) (float64 np.interp exact); (b) cache histories: 1-3 getters of kind '
        'simple/record-ndarray/record-h5py/telstate, dtypes float/int/str/bool, aliases, wildcard property maps, '
        'virtual sensors (depth <= 2), ops get(select,extract,kwargs)/cache[name]/setitem/_set_keep/del/add_aliases; '
        '(c) concatenated caches of 2-3 parts with sensors missing from some parts; (d) wildcard property merge: sensor '
        'names and property-map keys over an alphabet with regex-special characters and both letter cases, keys derived '
        'from the name, from a proper prefix / suffix / infix of it, with one character case-swapped or replaced by a '
        'regex / fnmatch metacharacter, 0-3 stars, 1-4 entries in every dict order + kwargs: SensorCache._get_props '
        'against model, Coq precedence spec and a split-based statement of the documented whole-name rule; (e) the same '
        'name/key families driven through SensorCache.get on 1-3 sensors whose names extend / are extended by each '
        'other; (f) built-in virtual sensors: the VIRTUAL_SENSORS registry of each format module (v1-v4) on a SensorCache '
        '/ ConcatenatedSensorCache of 1-3 parts whose dump grids are irregular (dropped dumps, late dumps, declared dump '
        'period != spacing, capture restarts, gaps between parts; 1-8 dumps per part on a 1/4 s grid over 20 days), 1-2 '
        'antennas pointing within 2 deg of radec / azel / Sun targets (some dumps over the top, el > 90 deg), target '
        'changes, histories of get / cache[name] / _set_keep over mjd, lst, az, el, ra, dec, parangle, target_x/y (5 '
        'projections x azel/radec), u, v, w: every returned value against the per-dump documented function (one scalar '
        'katpoint call per dump) placed by the Coq model; (g) the public properties d.mjd ... d.w of HDF5 v3 data sets '
        '(single and concatenated) with irregular recorded timestamps under dump selections; (h) public-API histories '
        '(get / cache[name] / _set_keep) on a SensorCache whose keep is a bool mask (also of a wrong or zero length), a '
        'slice (None / negative / out-of-range bounds, steps +-1..3 and 0), an int, an index list (negative, repeated, out of '
        'range, empty) or the constructor default, with 0-4 virtual-sensor templates (the registered shapes: literals, '
        '[abc] classes, {var}) in random dict order served by recorder functions, names that are instances of a template or '
        'instances with a suffix / prefix added, a slash inserted, a character dropped / case-swapped / replaced, truncated, '
        'and a sensor store that is None / empty / set, backed by an in-process fake of `requests` holding records of '
        'sensors whose names extend each other, timed inside / on / one quarter second outside the query window, with '
        'every status, duplicates, a failing connection or HTTP status; (i) the real VIRTUAL_SENSORS registries of the five '
        'modules against names derived from their templates; (j) ConcatenatedSensorCache.get of a sensor absent from 1+ of '
        '2-4 parts whose other parts hold a float / int / bool array assigned directly or a float / int / bool / str '
        'getter, with initial_value float / int / bool / str (also empty) and categorical None / True / False, selected and '
        'not; (k) visdatav4 applied_delay / applied_phase from 1-5 CBF updates (before, between and after the dumps); '
        '(l) num: one float / int / bool sensor through SensorCache.get / cache[name] with categorical absent / False / True '
        'and an initial_value (float, int, bool, str) given as keyword, name entry or wildcard entry, samples before / at / '
        'long after the first dump, all statuses, duplicates, empty - kind, dtype, values, cached result, raw samples, and '
        'the same cache read without the initial_value; (m) azel: the real VIRTUAL_SENSORS of h5datav1/2/3 and visdatav4 '
        'on a cache with raw az / el source getters of 1-2 antennas, histories over az, el, mjd, the sources and unknown '
        'names under changing selections, every cached array compared afterwards; (n) np.interp of linearly converted samples. '
        'A case is non-trivial when at '
        'least one numeric extraction with >= 2 usable samples (or a dummy fill, or a non-empty virtual sensor) is compared; '
        'distinct by canonical JSON')
ASSUMPTIONS = ['az / el (katpoint.deg2rad of the source sensor) are compared with the exact rational x * pi64 / 180 of the model '
               'within 4e-16 relative (the roundings of pi / 180 and of one product); bool / small-integer samples (values '
               '0/1, -3..9, eighths) within 1e-12 absolute because slopes 1/d are not dyadic; everything else for equality',
               'float64 exactness domain: times on a 1/4 s grid (epoch 0 or 1.5e9), node gaps <= 24 grid steps, values '
               'integer multiples of lcm(1..24) below 2^44 so that np.interp is exact and equality is compared',
               'categorical conversion itself is C10: only the decision categorical/numeric and the dummy value are compared',
               'virtual sensor templates lie in the regex subset of the registered ones (literals [A-Za-z0-9_/], classes of such '
               'characters, {ident} variables with distinct names); the katpoint coordinate functions are not verified',
               'in the histories (b), (c), (f) keep is a boolean mask of the length of the timestamps (what DataSet passes); '
               'the other forms are exercised by (h) on numeric sensors only (indexing CategoricalData is C10)',
               'the sensor store is an in-process stand-in for the requests module: it answers with the records of every sensor '
               'whose name starts with the requested one and whose time lies in the closed window; values are floats; its far '
               'records repeat the value of the first / last surviving near record so that float64 np.interp stays exact',
               'ASCII sensor names (str.isidentifier is modelled on ASCII)',
               'applied_delay / applied_phase: float64 results compared with the exact rational model within 1e-9 relative '
               '(update times on a 1/16 s lattice, never within 1e-6 s before a dump); applied_gain goes through the '
               'categorical path (C10) and is only checked for its template / function',
               'parts of a concatenated cache are built with equal property maps (independent dict objects)',
               'built-in virtual sensors: floats are compared with the documented per-dump value within an absolute tolerance '
               '(1e-9 days for mjd, also against the exact t/86400+40587 of the model; 1e-9 rad for lst/az/el/ra/dec/parangle '
               'and projected coordinates; 1e-6 m for u/v/w; 1e-7 deg / 1e-8 h for the DataSet properties) - the smallest '
               'error a wrong dump can make on the generated grids is a quarter second (2.9e-6 days, 1.8e-5 rad of LST); '
               'katpoint/ephem themselves are trusted (the expected values come from scalar katpoint calls)',
               'np.row_stack (removed in NumPy 2, still called by katpoint 0.10.2 Target.uvw_basis) is aliased to np.vstack '
               'while the built-in virtual sensors run, otherwise u/v/w cannot be evaluated at all and are skipped',
               'sensor names are non-empty printable ASCII without "*" and without a newline (a name containing "*" is '
               'its own wildcard key; "$" also matches before a trailing newline)']

L24 = 5354228880          # lcm(1..24)
STATUSES = ['nominal', 'warn', 'error', 'unknown', 'failure', 'unreachable', 'inactive', 'nominal2', 'warning',
            'Nominal', '', 'errors']
DOC_VALID = ('nominal', 'warn', 'error')
DT_CODE = {'float': 0, 'int': 1, 'str': 2, 'bool': 3, 'obj': 4}


# ---------------------------------------------------------------------------------------------- encoding helpers
def codes(s):
    return [ord(c) for c in s]


def wq(fr):
    fr = Fraction(fr)
    return [fr.numerator, fr.denominator]


def unq(x):
    return None if x == [] else Fraction(x[0], x[1])


def w_props(p):
    off = [wq(Fraction(p['off']) / 4)] if p.get('off') is not None else []
    cat = [bool(p['cat'])] if p.get('cat') is not None else []
    if p.get('init') is None:
        init = []
    elif p['init'][0] == 'float':
        init = [[0, wq(p['init'][1])]]
    else:
        init = [[1, DT_CODE[p['init'][0]]]]
    return [off, cat, init]


def py_kwargs(p):
    kw = {}
    if p.get('off') is not None:
        kw['time_offset'] = p['off'] / 4.0
    if p.get('cat') is not None:
        kw['categorical'] = bool(p['cat'])
    if p.get('init') is not None:
        k, v = p['init']
        kw['initial_value'] = {'float': float(v), 'int': int(v), 'str': 'x', 'bool': True}[k] if k != 'float' else float(v)
    return kw


def tval(epoch, k):
    """time of grid position k (quarter seconds) as an exact Fraction"""
    return Fraction(epoch) + Fraction(k, 4)


def w_getter(g, epoch):
    return [DT_CODE[g['dtype']], bool(g['status']),
            [[wq(tval(epoch, k)), wq(v), codes(st)] for (k, v, st) in g['samples']]]


def w_cache(c):
    e = c['epoch']
    return [[w_getter(g, e) for g in c['getters']],
            [[codes(n), 0, gid] for (n, gid) in c['raw']],
            [wq(tval(e, k)) for k in c['ts']],
            [bool(b) for b in c['keep']],
            [[codes(k), w_props(p)] for (k, p) in c['props']],
            [[[codes(n) for n in v['names']], [codes(s) for s in v['srcs']], v['fid']] for v in c['virt']]]


def w_op(o, epoch=0):
    k = o[0]
    if k == 'get':
        return [0, codes(o[1]), bool(o[2]), bool(o[3]), w_props(o[4])]
    if k == 'setvals':
        return [1, codes(o[1]), [wq(v) if v is not None else [] for v in o[2]]]
    if k == 'setgetter':
        return [2, codes(o[1]), o[2]]
    if k == 'setkeep':
        return [3, [] if o[1] is None else [[bool(b) for b in o[1]]]]
    if k == 'del':
        return [4, codes(o[1])]
    if k == 'alias':
        return [5, codes(o[1]), codes(o[2])]
    if k == 'item':
        return [6, codes(o[1])]
    raise ValueError(k)


# ---------------------------------------------------------------------------------------------- implementation side
class Impl:
    """Builds the real katdal objects of one cache description."""

    def __init__(self):
        import h5py
        self.h5 = h5py.File('c12-%d.h5' % id(self), 'w', driver='core', backing_store=False)
        self.n = 0

    def close(self):
        try:
            self.h5.close()
        except Exception:
            pass

    def arrays(self, g, epoch):
        t = np.array([float(tval(epoch, k)) for (k, v, st) in g['samples']], dtype=np.float64)
        dt = g['dtype']
        if dt == 'float':
            v = np.array([float(v) for (k, v, st) in g['samples']], dtype=np.float64)
        elif dt == 'int':
            v = np.array([int(v) for (k, v, st) in g['samples']], dtype=np.int64)
        elif dt == 'bool':
            v = np.array([bool(int(v) % 2) for (k, v, st) in g['samples']], dtype=bool)
        else:
            v = np.array(['s%d' % (int(v) % 3) for (k, v, st) in g['samples']], dtype='U4')
        s = np.array([st.encode() for (k, v, st) in g['samples']], dtype='S%d' % g.get('swidth', 12)) \
            if g['status'] else None
        if s is not None and g.get('ustatus'):
            s = s.astype('U%d' % g.get('swidth', 12))
        return t, v, s

    def getter(self, g, epoch, name):
        from katdal.sensordata import RecordSensorGetter, SimpleSensorGetter, TelstateSensorGetter
        t, v, s = self.arrays(g, epoch)
        kind = g['kind']
        if kind == 'simple':
            return SimpleSensorGetter(name, t, v, s)
        if kind in ('rec', 'h5'):
            vdt = v.dtype if v.dtype.kind != 'U' else np.dtype('S4')
            fields = [('timestamp', 'f8'), ('value', vdt)] + ([('status', 'S%d' % g.get('swidth', 12))] if s is not None else [])
            a = np.zeros(len(t), dtype=fields)
            a['timestamp'] = t
            a['value'] = v.astype(vdt)
            if s is not None:
                a['status'] = s.astype('S%d' % g.get('swidth', 12))
            if kind == 'rec':
                return RecordSensorGetter(a, name)
            self.n += 1
            return RecordSensorGetter(self.h5.create_dataset('d%d' % self.n, data=a), name)
        if kind == 'telstate':
            import katsdptelstate
            ts = katsdptelstate.TelescopeState()
            for ti, vi in zip(t, v):
                ts.add('k', vi.item(), ts=float(ti))
            return TelstateSensorGetter(ts, 'k')
        raise ValueError(kind)

    def cache(self, c):
        from katdal.sensordata import SensorCache
        e = c['epoch']
        names_of = {}
        for (n, gid) in c['raw']:
            names_of.setdefault(gid, n)
        getters = [self.getter(g, e, c.get('gname') or names_of.get(i, 'g%d' % i)) for i, g in enumerate(c['getters'])]
        raw = {n: getters[gid] for (n, gid) in c['raw']}
        ts = np.array([float(tval(e, k)) for k in c['ts']])
        props = {k: py_kwargs(p) for (k, p) in c['props']}
        virtual = {}
        for v in c['virt']:
            f = make_virtual(v)
            for n in v['names']:
                virtual[n] = f
        sc = SensorCache(raw, ts, 1.0, keep=np.array(c['keep'], dtype=bool), props=props, virtual=virtual)
        return sc, getters


def make_virtual(v):
    names, srcs, fid = list(v['names']), list(v['srcs']), v['fid']
    a, b = fid // 1000, fid % 1000

    def create(cache, name, **kw):
        vals = [cache.get(s) for s in srcs]
        ts = cache.timestamps[:]
        total = np.zeros(len(ts))
        for x in vals:
            total = total + x
        for k, n in enumerate(names):
            cache[n] = (a * (k + 1)) * total + (b / 4.0) * ts
        return cache.get(name)
    return create


def snapshot(getter):
    """raw samples of a getter as exact fractions (times, values, statuses)"""
    sd = getter.get()
    t = [Fraction(float(x)) for x in sd.timestamp]
    if sd.value.dtype.kind in 'fiu':
        v = [Fraction(float(x)) for x in sd.value]
    else:
        v = [str(x) for x in sd.value]
    s = None if sd.status is None else [x.decode() if isinstance(x, bytes) else str(x) for x in np.asarray(sd.status)]
    return t, v, s


def observe(fn, getters=None):
    """run one operation of the implementation and canonicalise the observable"""
    from katdal.categorical import CategoricalData
    from katdal.sensordata import SensorGetter
    try:
        r = fn()
    except KeyError:
        return ('err', 'key')
    except ValueError as e:
        return ('err', 'value', repr(e))
    except Exception as e:
        return ('err', 'other', repr(e))
    if r is None:
        return ('ok',)
    if isinstance(r, CategoricalData):
        uv = [getattr(u, 'unwrapped', u) for u in r.unique_values]
        return ('cat', uv)
    if isinstance(r, SensorGetter):
        for i, g in enumerate(getters or []):
            if r is g:
                return ('getter', i)
        return ('getterobj', r)
    if isinstance(r, np.ndarray):
        if r.dtype.kind == 'f':
            return ('vals', [None if np.isnan(x) else Fraction(float(x)) for x in r])
        return ('arr', r.dtype.kind, r.tolist())
    return ('other', repr(r))


def apply_op(sc, getters, o):
    k = o[0]
    if k == 'get':
        return observe(lambda: sc.get(o[1], select=bool(o[2]), extract=bool(o[3]), **py_kwargs(o[4])), getters)
    if k == 'item':
        return observe(lambda: sc[o[1]], getters)
    if k == 'setvals':
        return observe(lambda: sc.__setitem__(o[1], np.array([np.nan if v is None else float(Fraction(v)) for v in o[2]])))
    if k == 'setgetter':
        return observe(lambda: sc.__setitem__(o[1], getters[o[2]]))
    if k == 'setkeep':
        return observe(lambda: sc._set_keep(None if o[1] is None else np.array(o[1], dtype=bool)))
    if k == 'del':
        return observe(lambda: sc.__delitem__(o[1]))
    if k == 'alias':
        return observe(lambda: sc.add_aliases(o[1], o[2]))
    raise ValueError(k)


# ---------------------------------------------------------------------------------------------- comparison
def dval_matches(d, uv):
    """model dummy value (wire form) against the unique values of the CategoricalData"""
    if len(uv) != 1:
        return False
    u = uv[0]
    k = d[0]
    if k == 0:
        q = unq(d[1])
        return (isinstance(u, (float, np.floating)) and ((q is None and np.isnan(u)) or (q is not None and Fraction(float(u)) == q)))
    if k == 1:
        return isinstance(u, (int, np.integer)) and not isinstance(u, (bool, np.bool_)) and int(u) == d[1]
    if k == 2:
        return isinstance(u, str) and u == ''
    if k == 3:
        return isinstance(u, (bool, np.bool_)) and not bool(u)
    if k == 4:
        return u is None
    return True     # explicit initial value of another type: value itself is C10's business


def compare_res(obs, m, op, dummy_safe=False):
    """returns (verdict, symptom): verdict in 'same', 'diff', 'skip' (out of domain -> stop comparing this history)"""
    k = m[0]
    if k == 3 and m[1] == 2:
        return 'skip', 'model-out-of-domain'
    if k == 0:
        want = [unq(x) for x in m[1]]
        if obs[0] == 'vals':
            return ('same', '') if obs[1] == want else ('diff', 'values_differ')
        if obs[0] == 'err':
            return 'diff', 'raises_' + obs[1]
        return 'diff', 'kind_' + obs[0]
    if k == 1:
        if obs[0] == 'err':
            if len(m) > 1 and dummy_safe and m[1][0] != 5:
                return 'diff', 'dummy_raises'            # dummy_sensor_getter itself failed (one sample at t=0 <= dumps)
            return 'skip', 'categorical-path-raised'     # C10 territory (e.g. F7)
        select = (op[0] == 'item') or (op[0] == 'get' and op[2])
        if select:
            return 'same', ''
        if obs[0] != 'cat':
            return 'diff', 'decision_numeric_instead_of_categorical'
        if len(m) > 1 and not dval_matches(m[1], obs[1]):
            return 'diff', 'dummy_value'
        return 'same', ''
    if k == 2:
        return ('same', '') if obs == ('getter', m[1]) else ('diff', 'getter_identity' if obs[0] != 'err' else 'raises_' + obs[1])
    if k == 3:
        want = {0: 'key', 1: 'value'}[m[1]]
        if obs[0] == 'err' and obs[1] == want:
            return 'same', ''
        return 'diff', 'expected_%s_error_got_%s' % (want, obs[0] if obs[0] != 'err' else 'err_' + obs[1])
    if k == 4:
        return ('same', '') if obs[0] == 'ok' else ('diff', 'op_failed')
    return 'skip', 'unknown'


def sig_of(kind, c, op, symptom):
    feats = []
    if any(p.get('off') for (_, p) in c['props']) or (op and op[0] == 'get' and op[4].get('off')):
        feats.append('offset')
    return 'kind=%s;op=%s;%ssymptom=%s' % (kind, op[0] if op else 'final', ''.join(f + ';' for f in feats), symptom)


def model_store_samples(ms):
    return [([unq(s[0]) for s in g], [unq(s[1]) for s in g], [''.join(map(chr, s[2])) for s in g]) for g in ms]


def check_store(ctx, kind, c, getters, gdescs, mstore, case):
    """raw samples of every getter after the history: model (= unchanged) vs implementation"""
    for i, (g, gd) in enumerate(zip(getters, gdescs)):
        t, v, s = snapshot(g)
        mt, mv, msx = model_store_samples([mstore[i]])[0]
        if gd['kind'] == 'telstate':
            ok = sorted(t) == sorted(mt)
        else:
            w = gd.get('swidth', 12)
            ok = t == mt and (gd['dtype'] not in ('float', 'int') or v == mv) and (s is None or s == [x[:w] for x in msx])
        if not ok:
            ctx.disagree(sig_of(kind, c, None, 'raw_samples_altered'), case,
                         dict(getter=i, t=[str(x) for x in t]), dict(t=[str(x) for x in mt]),
                         'raw samples of getter %d differ after the access history (extraction must not alter them)' % i,
                         kind='property')
            return False
    return True


def run_single(ctx, c, ops, case=None, kind='single'):
    case = case or dict(kind=kind, cache=c, ops=ops)
    mo = ctx.model([[12, [1, 0, w_cache(c), [w_op(o) for o in ops]]]])[0]
    mres, mstore = mo[0], mo[1]
    impl = Impl()
    nontrivial = False
    try:
        sc, getters = impl.cache(c)
        for i, o in enumerate(ops):
            obs = apply_op(sc, getters, o)
            verdict, sym = compare_res(obs, mres[i], o, dummy_safe=tval(c['epoch'], min(c['ts'])) >= 0)
            if verdict == 'skip':
                ctx.count('skipped:' + sym)
                return nontrivial
            if verdict == 'diff':
                ctx.disagree(sig_of(kind, c, o, sym), dict(case, failing_op=i), _j(obs), mres[i],
                             'result of op %d %r differs from the model' % (i, o[:2]), kind='property')
                return nontrivial
            if mres[i][0] == 0 and len(mres[i][1]) > 0:
                nontrivial = True
            ctx.count('op=' + o[0])
        check_store(ctx, kind, c, getters, c['getters'], mstore, case)
        ctx.traces_validated += 1
    finally:
        impl.close()
    return nontrivial


def _j(obs):
    return json.loads(json.dumps(obs, default=lambda o: str(o)))


# ---------------------------------------------------------------------------------------------- concatenated caches
def run_concat(ctx, cs, ops, case=None):
    from katdal.concatdata import ConcatenatedSensorCache
    case = case or dict(kind='concat', caches=cs, ops=ops)
    pm = cs[-1]['props']
    mo = ctx.model([[12, [3, 0, [w_cache(c) for c in cs], [[codes(k), w_props(p)] for (k, p) in pm],
                          [w_op(o) for o in ops]]]])[0]
    mres, mstores = mo[0], mo[1]
    impl = Impl()
    nontrivial = False
    try:
        built = [impl.cache(c) for c in cs]
        total = sum(len(c['ts']) for c in cs)
        keep = np.concatenate([np.array(c['keep'], dtype=bool) for c in cs])
        cc = ConcatenatedSensorCache([b[0] for b in built], keep=keep)
        for i, o in enumerate(ops):
            obs = apply_op(cc, [], o)
            m = mres[i]
            if m[0] == 5:        # concatenated getter: compare the raw samples it serves
                if obs[0] != 'getterobj':
                    ctx.disagree(sig_of('concat', cs[0], o, 'expected_concat_getter'), dict(case, failing_op=i), _j(obs), m,
                                 'extract=False on raw parts must give a ConcatenatedSensorGetter')
                    return nontrivial
                t, v, s = snapshot(obs[1])
                wt, wv = [], []
                for (part, gid) in m[1]:
                    st = model_store_samples([mstores[part][gid]])[0]
                    wt += st[0]
                    wv += st[1]
                num = all(cs[part]['getters'][gid]['dtype'] in ('float', 'int') for (part, gid) in m[1])
                if t != wt or (num and v != wv):
                    ctx.disagree(sig_of('concat', cs[0], o, 'concat_getter_samples'), dict(case, failing_op=i),
                                 [str(x) for x in t], [str(x) for x in wt], 'ConcatenatedSensorGetter samples differ')
                    return nontrivial
                continue
            verdict, sym = compare_res(obs, m, o, dummy_safe=all(tval(c['epoch'], min(c['ts'])) >= 0 for c in cs))
            if verdict == 'skip':
                ctx.count('skipped:' + sym)
                return nontrivial
            if verdict == 'diff':
                ctx.disagree(sig_of('concat', cs[0], o, sym), dict(case, failing_op=i), _j(obs), m,
                             'result of op %d %r on the concatenated cache differs from the model' % (i, o[:2]))
                return nontrivial
            if m[0] == 0 and len(m[1]) > 0:
                nontrivial = True
            ctx.count('cop=' + o[0])
        for (sc, getters), c, ms in zip(built, cs, mstores):
            if not check_store(ctx, 'concat', c, getters, c['getters'], ms, case):
                break
        ctx.traces_validated += 1
    finally:
        impl.close()
    return nontrivial


# ---------------------------------------------------------------------------------------------- primitive: clean + interp
def run_primitive(ctx, cases):
    """cases: dict(epoch, status(bool), off, samples[(k, v, st)], ts[k]) -> model, spec and implementation"""
    from katdal.sensordata import SensorCache, SensorData, SimpleSensorGetter, remove_duplicates_and_invalid_values
    wire = []
    for c in cases:
        e = c['epoch']
        wire.append([12, [2, bool(c['status']), wq(Fraction(c['off'], 4)),
                          [[wq(tval(e, k)), wq(v), codes(st)] for (k, v, st) in c['samples']],
                          [wq(tval(e, k)) for k in c['ts']]]])
    outs = ctx.model(wire)
    for c, o in zip(cases, outs):
        e = c['epoch']
        mvals, svals = [unq(x) for x in o[0]], [unq(x) for x in o[1]]
        mclean = [(unq(s[0]), unq(s[1])) for s in o[2]]
        sclean = sorted((unq(s[0]), unq(s[1])) for s in o[3])
        g = dict(kind='simple', dtype='float', status=c['status'], samples=c['samples'], swidth=c.get('swidth', 12))
        im = Impl()
        try:
            t, v, s = im.arrays(g, e)
        finally:
            im.close()
        case = dict(kind='primitive', **c)
        nontrivial = len(mclean) >= 2
        if len(t):
            try:
                sd = remove_duplicates_and_invalid_values(SensorData('x', t + c['off'] / 4.0, v, s))
                iclean = [(Fraction(float(a)), Fraction(float(b))) for a, b in zip(sd.timestamp, sd.value)]
            except Exception as exc:
                ctx.disagree('kind=primitive;what=clean_raises', case, repr(exc), [[str(a), str(b)] for a, b in mclean],
                             'remove_duplicates_and_invalid_values raised')
                continue
            # the documented rule, written out here independently of the source-derived status table
            last = {}
            for (k, val, st) in c['samples']:
                last[k] = (val, st)
            doc = sorted((tval(e, k) + Fraction(c['off'], 4), Fraction(val)) for k, (val, st) in last.items()
                         if not c['status'] or st[:7] in DOC_VALID)
            if iclean != doc:
                ctx.disagree('kind=primitive;what=clean_vs_documented;status=%s' % bool(c['status']), case,
                             [[str(a), str(b)] for a, b in iclean], [[str(a), str(b)] for a, b in doc],
                             'cleaned samples differ from the documented rule (last of equal times; nominal/warn/error)')
            if iclean != mclean or iclean != sclean:
                ctx.disagree('kind=primitive;what=clean;status=%s' % bool(c['status']), case,
                             [[str(a), str(b)] for a, b in iclean], [[str(a), str(b)] for a, b in mclean],
                             'cleaned samples differ (sorted, last of equal times, readable status)',
                             spec=[[str(a), str(b)] for a, b in sclean], kind='property' if iclean != sclean else 'tie')
        if mclean:
            sc = SensorCache({'x': SimpleSensorGetter('x', t, v, s)}, np.array([float(tval(e, k)) for k in c['ts']]), 1.0)
            obs = observe(lambda: sc.get('x', time_offset=c['off'] / 4.0))
            if obs[0] != 'vals' or obs[1] != svals or obs[1] != mvals:
                ctx.disagree('kind=primitive;what=interp;status=%s' % bool(c['status']), case, _j(obs),
                             [str(x) for x in mvals], 'interpolated values differ from the piecewise-linear spec',
                             spec=[str(x) for x in svals], kind='property' if obs[0] != 'vals' or obs[1] != svals else 'tie')
            if Fraction(float(t[0])) != tval(e, c['samples'][0][0]):
                ctx.disagree('kind=primitive;what=raw_samples_altered', case, float(t[0]), str(tval(e, c['samples'][0][0])),
                             'extraction shifted the raw timestamps in place')
            ctx.traces_validated += 1
        elif mvals != svals:
            ctx.disagree('kind=primitive;what=model_vs_spec', case, None, [str(x) for x in mvals], 'model != spec',
                         spec=[str(x) for x in svals], kind='tie')
        ctx.note_case(('prim', json.dumps(c, sort_keys=True, default=str)), nontrivial=nontrivial,
                      sample=dict(kind='primitive', samples=c['samples'][:4], ts=c['ts'][:4], off=c['off']))
        ctx.count('primitive')
        ctx.count('prim_nsamples=%d' % min(len(c['samples']), 6))


# ---------------------------------------------------------------------------------------------- wildcard property merge
def doc_match(key, name):
    """The documented rule, written without regular expressions: a key with '*' wildcards applies to a sensor iff the
    WHOLE name is the literal parts of the key, in order, separated by arbitrary (possibly empty) gaps."""
    parts = key.split('*')
    if len(parts) == 1:
        return False                    # no wildcard: the entry is looked up by exact name, never matched
    first, last, mid = parts[0], parts[-1], parts[1:-1]
    if len(name) < len(first) + len(last) or not name.startswith(first) or not name.endswith(last):
        return False
    pos, end = len(first), len(name) - len(last)
    for m in mid:                       # leftmost placement of every inner part is complete for this language
        i = name.find(m, pos, end)
        if i < 0:
            return False
        pos = i + len(m)
    return True


def canon_p(p):
    """harness property dict -> comparable tuple (off in quarter seconds, cat, init kind/value)"""
    init = p.get('init')
    if init is not None:
        init = ('float', Fraction(init[1])) if init[0] == 'float' else (init[0],)
    return (None if p.get('off') is None else Fraction(p['off']), p.get('cat'), init)


def canon_impl_props(d):
    """real property dict (time_offset / categorical / initial_value) -> the same tuple; None if anything else is in it"""
    if not isinstance(d, dict) or set(d) - {'time_offset', 'categorical', 'initial_value'}:
        return None
    off = Fraction(float(d['time_offset'])) * 4 if 'time_offset' in d else None
    cat = bool(d['categorical']) if 'categorical' in d else None
    init = None
    if 'initial_value' in d:
        v = d['initial_value']
        if isinstance(v, (bool, np.bool_)):
            init = ('bool',)
        elif isinstance(v, (int, np.integer)):
            init = ('int',)
        elif isinstance(v, (float, np.floating)):
            init = ('float', Fraction(float(v)))
        else:
            init = ('str',)
    return (off, cat, init)


def canon_model_props(m):
    off = None if m[0] == [] else unq(m[0][0]) * 4
    cat = None if m[1] == [] else bool(m[1][0])
    init = None
    if m[2] != []:
        k, v = m[2][0]
        init = ('float', unq(v)) if k == 0 else ({c: n for n, c in DT_CODE.items()}[v],)
    return (off, cat, init)


def doc_props(name, pm, kw):
    """expected merged properties and expected map afterwards, by the documented rule"""
    def upd(a, b):
        return tuple(y if y is not None else x for x, y in zip(a, b))
    cur = (None, None, None)
    for (k, p) in pm:
        if k == name:
            cur = canon_p(p)
    for (k, p) in pm:
        if '*' in k and doc_match(k, name):
            cur = upd(cur, canon_p(p))
    cur = upd(cur, canon_p(kw))
    after = [(k, cur if k == name else canon_p(p)) for (k, p) in pm]
    if name not in [k for (k, _) in pm]:
        after.append((name, cur))
    return cur, after


def impl_key_applies(key, name):
    """does the implementation apply the single entry `key` to `name`? (None if it cannot be asked)"""
    from katdal.sensordata import SensorCache
    try:
        return 'time_offset' in SensorCache._get_props(name, {key: {'time_offset': 1.0}})
    except Exception:
        return None


def match_relation(pm, name):
    """classifies HOW the implementation's notion of 'key applies to name' departs from the documented one"""
    for (k, _) in pm:
        if '*' not in k:
            continue
        got, want = impl_key_applies(k, name), doc_match(k, name)
        if got is None or got == want:
            continue
        if not got:
            return 'missed_match'
        n = len(name)
        if any(doc_match(k, name[:i]) for i in range(n)):
            return 'name_extends_match'                 # a proper PREFIX of the name fits the key
        if any(doc_match(k, name[i:]) for i in range(1, n + 1)):
            return 'name_ends_with_match'               # a proper SUFFIX of the name fits the key
        if any(doc_match(k, name[i:j]) for i in range(n) for j in range(i, n + 1)):
            return 'name_contains_match'
        if doc_match(k.lower(), name.lower()):
            return 'letter_case'
        return 'metacharacter'
    return 'none'


def str_p(t):
    return [None if t[0] is None else str(t[0]), t[1], None if t[2] is None else [str(x) for x in t[2]]]


def run_props(ctx, cases):
    """cases: dict(name, pm=[(key, props)], kw=props): SensorCache._get_props vs model vs documented rule"""
    from katdal.sensordata import SensorCache
    if not hasattr(SensorCache, '_get_props'):
        ctx.count('skipped:no__get_props')
        return
    outs = ctx.model([[121, [1, codes(c['name']), [[codes(k), w_props(p)] for (k, p) in c['pm']], w_props(c['kw'])]]
                      for c in cases])
    for c, o in zip(cases, outs):
        name, pm, kw = c['name'], c['pm'], c['kw']
        case = dict(kind='props', name=name, pm=pm, kw=kw)
        m_final, m_eff = canon_model_props(o[0]), canon_model_props(o[2])
        m_after = [(''.join(map(chr, e[0])), canon_model_props(e[1])) for e in o[1]]
        d_final, d_after = doc_props(name, pm, kw)
        nstar = sum('*' in k for (k, _) in pm)
        nmatch = sum(doc_match(k, name) for (k, _) in pm)
        ctx.note_case(('props', json.dumps(case, sort_keys=True, default=str)), nontrivial=nstar > 0,
                      sample=dict(kind='props', name=name, keys=[k for (k, _) in pm]))
        ctx.count('props')
        ctx.count('props_matching_keys=%d/%d' % (nmatch, nstar))
        if m_final != d_final or m_after != d_after or m_eff != m_final:
            ctx.disagree('kind=props;what=model_vs_documented', case, None, [str_p(m_final), str_p(m_eff)],
                         'model of the wildcard merge differs from the documented whole-name rule / its Coq spec',
                         spec=str_p(d_final), kind='tie')
            continue
        prop_map = {k: py_kwargs(p) for (k, p) in pm}
        try:
            got = SensorCache._get_props(name, prop_map, **py_kwargs(kw))
            i_final = canon_impl_props(got)
            i_after = [(k, canon_impl_props(v)) for k, v in prop_map.items()]
        except Exception as exc:
            ctx.disagree('kind=props;rel=%s;symptom=raises' % match_relation(pm, name), case, repr(exc), str_p(m_final),
                         '_get_props raised')
            continue
        ctx.traces_validated += 1
        if i_final != d_final:
            ctx.disagree('kind=props;rel=%s;symptom=props_differ' % match_relation(pm, name), case,
                         None if i_final is None else str_p(i_final), str_p(m_final),
                         'merged properties of sensor %r differ from the documented rule (entries apply iff their '
                         'wildcard key fits the WHOLE name; name entry < wildcards in dict order < kwargs)' % name,
                         spec=str_p(d_final))
        elif i_after != d_after:
            ctx.disagree('kind=props;rel=%s;symptom=map_differs' % match_relation(pm, name), case,
                         [[k, None if v is None else str_p(v)] for k, v in i_after],
                         [[k, str_p(v)] for k, v in m_after],
                         'property map after the merge differs (merged result stored under the name, others untouched)')


ALPHA = list('abxy') * 6 + list('AX') * 2 + list('/_') * 4 + list('01') + list('.+?[]()^$|\\{}- ')
META = ['.', '?', '+', '.*', '.+', '[a-z]', '\\w', '(', '$', '^', '|']


def gen_name(rng, lo=1, hi=7):
    return ''.join(rng.choice(ALPHA) for _ in range(rng.randint(lo, hi)))


def star_key(rng, s, nstars=None):
    """a key that fits the whole of s: 1-3 (possibly empty) substrings of s replaced by '*'"""
    n = rng.choice([1, 1, 1, 2, 2, 3]) if nstars is None else nstars
    cuts = sorted(rng.randint(0, len(s)) for _ in range(2 * n))
    out, pos = [], 0
    for i in range(n):
        a, b = cuts[2 * i], cuts[2 * i + 1]
        out.append(s[pos:a])
        out.append('*')
        pos = b
    out.append(s[pos:])
    return ''.join(out)


def swap_case(rng, s):
    idx = [i for i, ch in enumerate(s) if ch.isalpha()]
    if not idx:
        return s
    i = rng.choice(idx)
    return s[:i] + s[i].swapcase() + s[i + 1:]


def derive_key(rng, name):
    """keys that fit the name, and near misses of every kind (the documented rule decides which is which)"""
    n = len(name)
    r = rng.random()
    if r < 0.22:
        return star_key(rng, name)
    if r < 0.40 and n > 1:                                   # fits a proper prefix: the name EXTENDS a match
        k = star_key(rng, name[:rng.randint(1, n - 1)])
        return k if rng.random() < 0.3 else k.rstrip('*') or '*'
    if r < 0.52 and n > 1:                                   # fits a proper suffix
        k = star_key(rng, name[rng.randint(1, n - 1):])
        return k if rng.random() < 0.3 else k.lstrip('*') or '*'
    if r < 0.60 and n > 2:                                   # fits an inner piece
        i = rng.randint(1, n - 1)
        j = rng.randint(i, n - 1)
        return star_key(rng, name[i:j])
    if r < 0.70:
        return swap_case(rng, star_key(rng, name))
    if r < 0.84:                                             # one literal character -> regex / fnmatch metacharacter
        k = star_key(rng, name)
        idx = [i for i, ch in enumerate(k) if ch != '*']
        if idx:
            i = rng.choice(idx)
            k = k[:i] + rng.choice(META) + k[i + 1:]
        return k
    if r < 0.90:
        return name if rng.random() < 0.5 else star_key(rng, name, 1).replace('*', '')   # no wildcard at all
    k = gen_name(rng, 0, 4)
    i = rng.randint(0, len(k))
    return k[:i] + '*' + k[i:]


def gen_wprops(rng):
    p = {}
    r = rng.random()
    if r < 0.75:
        p['off'] = rng.choice([-4, -3, -2, -1, 1, 2, 3, 4])
    if rng.random() < 0.25:
        p['cat'] = rng.random() < 0.5
    if rng.random() < 0.25 or not p:
        p['init'] = rng.choice([('float', rng.randint(-5, 5) * L24), ('float', 3), ('int', 7), ('str', 0), ('bool', 1)])
    return p


def gen_pm(rng, names, nmax=4):
    pm, seen = [], set()
    for _ in range(rng.randint(1, nmax)):
        k = derive_key(rng, rng.choice(names))
        if k not in seen:
            seen.add(k)
            pm.append((k, gen_wprops(rng)))
    return pm


def variants(rng, base):
    """sensor names related to base the way real ones are (x / x_rate / sub_x) plus hostile ones"""
    ext = lambda: gen_name(rng, 1, 3)
    return [base + ext(), ext() + base, ext() + base + ext(), swap_case(rng, base), base[:-1] + rng.choice(ALPHA),
            rng.choice(ALPHA) + base[1:], base + base]


def gen_props_case(rng):
    base = gen_name(rng)
    names = [base] + rng.sample(variants(rng, base), 2)
    names = [n for n in names if n and '*' not in n]
    return dict(name=rng.choice(names), pm=gen_pm(rng, names), kw=gen_wprops(rng) if rng.random() < 0.3 else {})


def gen_wild_single(rng):
    """1-3 sensors whose names extend each other, wildcard entries derived from them, every sensor read via the cache"""
    base = gen_name(rng, 2, 6)
    names = []
    for n in [base] + rng.sample(variants(rng, base), rng.randint(1, 2)):
        if n and '*' not in n and n not in names:
            names.append(n)
    getters = []
    for _ in names:
        dtype = rng.choice(['float'] * 5 + ['int'])
        nsamp = rng.choice([0, 2, 3, 3, 4, 5, 6])
        status = rng.random() < 0.3
        samples = [(k, rng.randint(-40, 40) * L24, rng.choice(STATUSES[:3]) if status else '')
                   for k in sorted(rng.sample(range(0, 25), nsamp))]
        getters.append(dict(kind=rng.choice(['simple', 'rec']), dtype=dtype, status=status, samples=samples,
                            swidth=7, ustatus=False))
    ts = [rng.randint(2, 8) + i * rng.choice([1, 2, 3]) for i in range(rng.randint(2, 6))]
    ts = sorted(set(ts))
    c = dict(epoch=rng.choice([0, 1500000000]), getters=getters, raw=[(n, i) for i, n in enumerate(names)], ts=ts,
             keep=[rng.random() < 0.7 for _ in ts], props=gen_pm(rng, names, 3), virt=[], gname=None)
    order = list(names)
    rng.shuffle(order)
    ops = []
    for n in order:
        r = rng.random()
        kw = gen_wprops(rng) if rng.random() < 0.15 else {}
        if r < 0.6:
            ops.append(('get', n, False, True, kw))
        elif r < 0.8:
            ops.append(('get', n, True, True, kw))
        else:
            ops.append(('item', n))
        if rng.random() < 0.3:
            ops.append(('item', n))
    return c, ops


# fixed merge cases with the sensor names of the stock MVFv4 property map (visdatav4.SENSOR_PROPS keys '*noise_diode',
# '*activity', ...): the near misses are names that extend / end with / contain a match
def scripted_props():
    out = []
    for name in ('asc_wind_speed', 'asc_wind_speed_rate', 'm000_dig_noise_diode', 'm000_dig_noise_diode_power',
                 'sub_m000_dig_noise_diode', 'M000_DIG_NOISE_DIODE', 'm000_activity', 'm000_activity_x', 'obs_activity'):
        for pm in ([('*wind_speed', {'off': 3})], [('*noise_diode', {'cat': True}), ('m000*', {'off': -2})],
                   [('m000_*_noise_diode', {'off': 1}), ('*', {'init': ('float', 3)})],
                   [('m???_activity*', {'off': 2}), ('m000.activity*', {'off': 4}), ('*activity', {'cat': True, 'off': -1})],
                   [('m000_activity', {'off': 1}), ('*_activity', {'off': 2}), ('m*', {'cat': False}), ('*y', {'off': 3})]):
            out.append(dict(name=name, pm=pm, kw={}))
            out.append(dict(name=name, pm=pm, kw={'off': -3}))
    return out


# the seeded change C12-1 as a fixed history: '*wind_speed' belongs to 'asc_wind_speed', not to 'asc_wind_speed_rate'
def scripted_wild():
    ga = dict(kind='simple', dtype='float', status=False, swidth=7, ustatus=False,
              samples=[(4, 1 * L24, ''), (20, 5 * L24, ''), (44, -1 * L24, ''), (68, 8 * L24, '')])
    gb = dict(kind='simple', dtype='float', status=False, swidth=7, ustatus=False,
              samples=[(2, 10 * L24, ''), (24, 2 * L24, ''), (36, 4 * L24, ''), (60, -3 * L24, '')])
    out = []
    for props in ([('*wind_speed', {'off': 12})], [('*wind_speed', {'cat': False, 'off': 4}), ('asc*', {'off': -4})],
                  [('*noise_diode', {'cat': True}), ('*d_s*', {'off': 8})]):
        for order in (('asc_wind_speed', 'asc_wind_speed_rate'), ('asc_wind_speed_rate', 'asc_wind_speed')):
            c = dict(epoch=0, getters=[ga, gb], raw=[('asc_wind_speed', 0), ('asc_wind_speed_rate', 1)],
                     ts=list(range(0, 80, 8)), keep=[True, False] * 5, props=props, virt=[], gname=None)
            out.append((c, [('get', order[0], False, True, {}), ('get', order[1], False, True, {}),
                            ('item', order[0]), ('item', order[1])]))
    return out


# ---------------------------------------------------------------------------------------------- built-in virtual sensors
# Every virtual sensor the DataSet classes register (dataset.DEFAULT_VIRTUAL_SENSORS + the az/el of each format module)
# must be the documented function of ONE dump: value[i] = f(timestamps[i], sources[i]).  The registries of the four
# format modules are put on SensorCache / ConcatenatedSensorCache objects with IRREGULAR dump grids (dropped dumps,
# late dumps, a declared dump period that is not the spacing, capture restarts, concatenations with gaps); the
# expected value of every dump is computed here with ONE scalar katpoint call per dump, handed to the Coq model as
# the finite graph of the (uninterpreted) per-dump function, and the model (wire_122: the cache state machine with
# vf = vf_pw) says what every access of the history returns under the selections.
V_ANTS = {'m000': 'm000, -30:42:39.8, 21:26:38.0, 1035.0, 13.5, -8.258 -207.289 1.2075',
          'm001': 'm001, -30:42:39.8, 21:26:38.0, 1035.0, 13.5, 1.126 -171.761 1.0605',
          'm063': 'm063, -30:42:39.8, 21:26:38.0, 1035.0, 13.5, -3419.5845 -1840.48 16.3825',
          'array': 'array, -30:42:39.8, 21:26:38.0, 1035.0, 0.0'}
V_TARGETS = ['PKS1934-63, radec, 19:39:25.03, -63:42:45.7', 'az20el88, azel, 20, 88', 'Sun, special',
             'J0408-6545, radec, 04:08:20.38, -65:45:09.1', 'azm70el25, azel, -70, 25', 'PicA, radec, 05:19:49.7, -45:46:44']
V_FMT = {'v4': ('katdal.visdatav4', '{ant}_pos_actual_scan_azim', '{ant}_pos_actual_scan_elev'),
         'v3': ('katdal.h5datav3', 'Antennas/{ant}/pos_actual_scan_azim', 'Antennas/{ant}/pos_actual_scan_elev'),
         'v2': ('katdal.h5datav2', 'Antennas/{ant}/pos.actual-scan-azim', 'Antennas/{ant}/pos.actual-scan-elev'),
         'v1': ('katdal.h5datav1', 'Antennas/{ant}/pos_actual_scan_azim', 'Antennas/{ant}/pos_actual_scan_elev')}
# absolute tolerances of the float comparison (the documented functions go through ephem / libm; the smallest error a
# wrong dump can make on these grids is a quarter second = 2.9e-6 days = 1.8e-5 rad of sidereal angle)
V_TOL = {'mjd': 1e-9, 'u': 1e-6, 'v': 1e-6, 'w': 1e-6}
V_TOL_DEFAULT = 1e-9
_vobj = {}


def v_ant(name):
    import katpoint
    if ('ant', name) not in _vobj:
        _vobj[('ant', name)] = katpoint.Antenna(V_ANTS[name])
    return _vobj[('ant', name)]


def v_target(i):
    import katpoint
    if ('tgt', i) not in _vobj:
        _vobj[('tgt', i)] = katpoint.Target(V_TARGETS[i])
    return _vobj[('tgt', i)]


class row_stack_shim:
    """katpoint 0.10.2 Target.uvw_basis calls np.row_stack, removed in NumPy 2: alias it to np.vstack while the
    built-in virtual sensors are exercised (otherwise u/v/w cannot be computed at all and are skipped)"""

    def __enter__(self):
        self.added = not hasattr(np, 'row_stack')
        if self.added:
            np.row_stack = np.vstack

    def __exit__(self, *a):
        if self.added:
            del np.row_stack


def v_base(name):
    """class of a built-in virtual sensor name: mjd, lst, az, el, ra, dec, parangle, target_x, target_y, u, v, w"""
    last = name.split('/')[-1]
    return 'target_' + last[7] if last.startswith('target_') else last


def v_dumps(case):
    """global list of (part index, local dump index, grid position)"""
    return [(pi, i, k) for pi, part in enumerate(case['parts']) for i, k in enumerate(part['grid'])]


def v_target_at(part, i):
    cur = part['targets'][0][0]
    for (tidx, start) in part['targets']:
        if start <= i:
            cur = tidx
    return cur


def v_sensors(case):
    """the virtual sensors of the case as the model sees them: produced names, numeric sources, function id"""
    azp, elp = V_FMT[case['fmt']][1:]
    out = [dict(names=['Timestamps/mjd'], srcs=[], fid=0)]
    fid = 0
    for a in case['ants']:
        g = 'Antennas/%s/' % a
        groups = [([g + 'lst'], []), ([g + 'az'], [azp.format(ant=a)]), ([g + 'el'], [elp.format(ant=a)]),
                  ([g + 'ra', g + 'dec'], [g + 'az', g + 'el']), ([g + 'parangle'], [g + 'az', g + 'el'])]
        for (proj, csys) in case['proj']:
            groups.append(([g + 'target_x_%s_%s' % (proj, csys), g + 'target_y_%s_%s' % (proj, csys)],
                           [g + 'az', g + 'el'] if csys == 'azel' else [g + 'ra', g + 'dec']))
        groups += [([g + c], []) for c in 'uvw']
        for names, srcs in groups:
            fid += 1
            out.append(dict(names=names, srcs=srcs, fid=fid))
    return out


def v_fix(lon, lat):
    """over-the-top elevations are brought back into range before projecting (documented in _calc_target_coords)"""
    import math
    return (lon + math.pi, math.pi - lat) if (lat > math.pi / 2.0 and lat < math.pi) else (lon, lat)


def v_expected(case):
    """name -> list over ALL dumps of the documented value of that dump (float), each from one scalar katpoint call
    on (timestamps[i], sources[i]); None for a name katpoint cannot evaluate (out of domain)"""
    import math

    import katpoint
    e = case['epoch']
    exp = {}

    def put(name, fn):
        vals = []
        for (pi, i, k) in v_dumps(case):
            try:
                vals.append(float(fn(case['parts'][pi], i, float(tval(e, k)))))
            except Exception:
                exp[name] = None
                return
        exp[name] = vals
    put('Timestamps/mjd', lambda part, i, t: katpoint.Timestamp(t).to_mjd())
    arr = v_ant('array')
    for a in case['ants']:
        ant = v_ant(a)
        g = 'Antennas/%s/' % a
        az = lambda part, i: math.radians(part['az'][a][i] / 64.0)
        el = lambda part, i: math.radians(part['el'][a][i] / 64.0)
        pointing = lambda part, i: katpoint.construct_azel_target(az(part, i), el(part, i))
        tgt = lambda part, i: v_target(v_target_at(part, i))
        put(g + 'lst', lambda part, i, t: ant.local_sidereal_time(t))
        put(g + 'az', lambda part, i, t: az(part, i))
        put(g + 'el', lambda part, i, t: el(part, i))
        put(g + 'ra', lambda part, i, t: pointing(part, i).radec(t, ant)[0])
        put(g + 'dec', lambda part, i, t: pointing(part, i).radec(t, ant)[1])
        put(g + 'parangle', lambda part, i, t: pointing(part, i).parallactic_angle(t, ant))
        for (proj, csys) in case['proj']:
            def xy(part, i, t, which):
                lon, lat = (az(part, i), el(part, i)) if csys == 'azel' else pointing(part, i).radec(t, ant)
                lon, lat = v_fix(float(lon), float(lat))
                return tgt(part, i).sphere_to_plane(lon, lat, t, ant, proj, csys)[which]
            put(g + 'target_x_%s_%s' % (proj, csys), lambda part, i, t: xy(part, i, t, 0))
            put(g + 'target_y_%s_%s' % (proj, csys), lambda part, i, t: xy(part, i, t, 1))
        for n, c in enumerate('uvw'):
            put(g + c, lambda part, i, t: tgt(part, i).uvw(ant, t, arr)[n])
    return exp


def v_grid_class(case):
    order = ['regular', 'period_mismatch', 'gap', 'late']
    worst = 0
    for part in case['parts']:
        d = [b - a for a, b in zip(part['grid'], part['grid'][1:])]
        p = part['period']
        if all(x == p for x in d):
            cls = 0
        elif len(set(d)) == 1:
            cls = 1
        elif all(x % p == 0 for x in d):
            cls = 2
        else:
            cls = 3
        worst = max(worst, cls)
    return ('concat+' if len(case['parts']) > 1 else '') + order[worst]


def v_part_cache_desc(case, pi):
    """harness description of one part (same shape as the other cache histories): real az/el sensors sampled AT the
    dumps (np.interp is exact at a node), values multiples of 1/64 degree"""
    part = case['parts'][pi]
    azp, elp = V_FMT[case['fmt']][1:]
    getters, raw = [], []
    for a in case['ants']:
        for which, pat in (('az', azp), ('el', elp)):
            raw.append((pat.format(ant=a), len(getters)))
            getters.append(dict(kind=case['gkind'], dtype='float', status=False, swidth=7, ustatus=False,
                                samples=[(k, Fraction(v, 64), '') for k, v in zip(part['grid'], part[which][a])]))
    return dict(epoch=case['epoch'], getters=getters, raw=raw, ts=list(part['grid']), keep=list(part['keep']), props=[],
                virt=v_sensors(case), gname=None)


def v_build_part(impl, case, pi):
    import importlib

    from katdal.categorical import CategoricalData
    from katdal.sensordata import SensorCache
    part = case['parts'][pi]
    c = v_part_cache_desc(case, pi)
    e = case['epoch']
    mod = importlib.import_module(V_FMT[case['fmt']][0])
    raw = {n: impl.getter(c['getters'][gid], e, n) for (n, gid) in c['raw']}
    ts = np.array([float(tval(e, k)) for k in part['grid']])
    sc = SensorCache(raw, ts, part['period'] / 4.0, keep=np.array(part['keep'], dtype=bool), props={},
                     virtual=mod.VIRTUAL_SENSORS)
    T = len(ts)
    for a in list(case['ants']) + ['array']:
        sc['Antennas/%s/antenna' % a] = CategoricalData([v_ant(a)], [0, T])
    events = [s for (_, s) in part['targets']] + [T]
    sc['Observation/target'] = CategoricalData([v_target(t) for (t, _) in part['targets']], events)
    return sc


def v_close(got, want, tol):
    if len(got) != len(want):
        return False
    for g, w in zip(got, want):
        if (g is None) != (w is None):
            return False
        if g is not None and not abs(float(g) - float(w)) <= tol:
            return False
    return True


def run_builtin(ctx, case):
    """one history on a (concatenated) cache carrying the built-in virtual sensors of one format module"""
    from katdal.concatdata import ConcatenatedSensorCache
    ops = [tuple(o) for o in case['ops']]
    with row_stack_shim():
        exp = v_expected(case)
        times = [tval(case['epoch'], k) for (_, _, k) in v_dumps(case)]
        # the graph of every per-dump function: (sensor, dump) -> an integer standing for "the documented value of this
        # sensor at this dump" (the wire carries native integers only; the function is uninterpreted in the model anyway)
        table, code_name = [], {}
        for v in v_sensors(case):
            if v['fid'] == 0:
                continue
            for k, n in enumerate(v['names']):
                code = (v['fid'] * 4 + k) * 4096
                code_name[code] = n
                table.append([v['fid'], k, [[wq(t), wq(code + g)] for g, t in enumerate(times)]])

        def decode(name, want):
            """model values -> expected floats: the mjd and the real sensors are exact rationals, the rest are codes"""
            if name not in exp or name == 'Timestamps/mjd':
                return [None if x is None else float(x) for x in want]
            out = []
            for x in want:
                code, g = (int(x) // 4096) * 4096, int(x) % 4096
                out.append(exp[code_name[code]][g] if code_name.get(code) == name else float('inf'))
            return out
        descs = [v_part_cache_desc(case, pi) for pi in range(len(case['parts']))]
        concat = len(descs) > 1
        wops = [w_op(o if o[0] != 'get' else (o[0], o[1], o[2], True, {})) for o in ops]
        if concat:
            mo = ctx.model([[122, [3, table, [w_cache(c) for c in descs], [], wops]]])[0]
        else:
            mo = ctx.model([[122, [1, table, w_cache(descs[0]), wops]]])[0]
        mres = mo[0]
        gcls = v_grid_class(case)
        impl = Impl()
        nontrivial = False
        try:
            parts = [v_build_part(impl, case, pi) for pi in range(len(descs))]
            if concat:
                sc = ConcatenatedSensorCache(parts, keep=np.concatenate([np.array(p['keep'], dtype=bool)
                                                                         for p in case['parts']]))
            else:
                sc = parts[0]
            for i, o in enumerate(ops):
                name = o[1] if o[0] in ('get', 'item') else None
                if name is not None and name in exp and exp[name] is None:
                    ctx.count('skipped:katpoint-cannot-evaluate')
                    break
                if o[0] == 'get':
                    obs = observe(lambda: sc.get(o[1], select=bool(o[2])))
                elif o[0] == 'item':
                    obs = observe(lambda: sc[o[1]])
                else:
                    obs = apply_op(sc, [], o)
                m = mres[i]
                sym = None
                if m[0] == 0:
                    want = decode(name, [unq(x) for x in m[1]])
                    if obs[0] == 'vals':
                        base = v_base(name) if name in exp else 'source'
                        tol = 0.0 if base == 'source' else V_TOL.get(base, V_TOL_DEFAULT)
                        if not v_close(obs[1], want, tol):
                            sym = 'length_differs' if len(obs[1]) != len(want) else 'values_differ'
                    else:
                        sym = 'raises_' + obs[1] if obs[0] == 'err' else 'kind_' + obs[0]
                elif m[0] == 3 and m[1] in (0, 1):
                    wanterr = {0: 'key', 1: 'value'}[m[1]]
                    if not (obs[0] == 'err' and obs[1] == wanterr):
                        sym = 'expected_%s_error' % wanterr
                elif m[0] == 4:
                    if obs[0] != 'ok':
                        sym = 'op_failed'
                else:
                    ctx.count('skipped:model-out-of-domain')
                    break
                if sym:
                    base = v_base(name) if name in exp else ('source' if name else 'none')
                    fmt = ';fmt=' + case['fmt'] if base in ('az', 'el') else ''
                    selected = o[0] == 'item' or (o[0] == 'get' and bool(o[2]))
                    ctx.disagree('kind=builtin;sensor=%s%s;grid=%s;selected=%d;symptom=%s' % (base, fmt, gcls, selected, sym),
                                 dict(case, failing_op=i), _j(obs), want if m[0] == 0 else m,
                                 'built-in virtual sensor %r (op %d %r) is not the documented per-dump function of its '
                                 'sources and the dump timestamps (expected values: one scalar katpoint call per dump; '
                                 'tolerance %g)' % (name, i, o[:3], V_TOL.get(v_base(name), V_TOL_DEFAULT) if name else 0),
                                 spec=None if name not in exp else exp[name])
                    break
                if m[0] == 0 and len(m[1]) > 0:
                    nontrivial = True
                    ctx.count('builtin_sensor=' + (v_base(name) if name in exp else 'source'))
                ctx.count('vop=' + o[0])
            else:
                ctx.traces_validated += 1
        finally:
            impl.close()
    ctx.count('builtin_grid=' + gcls)
    ctx.count('builtin_fmt=' + case['fmt'])
    return nontrivial


def gen_vgrid(rng, start, p=None):
    """an (irregular) dump grid in quarter seconds and the declared dump period"""
    p = p or rng.choice([1, 2, 4, 8, 8, 16, 32])
    n = rng.choice([1, 2, 3, 4, 5, 6, 7, 8])
    mode = rng.choice(['regular', 'gap', 'gap', 'late', 'gap+late', 'mismatch', 'restart'])
    pos = [start]
    for _ in range(n - 1):
        step = p
        if 'gap' in mode and rng.random() < 0.4:
            step = p * rng.randint(2, 6)                     # dropped dumps
        if 'late' in mode and p > 1 and rng.random() < 0.4:
            step += rng.randint(1, p - 1)                    # a dump that arrived late
        if mode == 'restart' and rng.random() < 0.3:
            step = p * rng.randint(3, 40) + rng.randint(0, p - 1)      # capture restarted
        pos.append(pos[-1] + step)
    period = p if mode != 'mismatch' else rng.choice([q for q in (1, 2, 3, 4, 8, 16, 32, 40) if q != p])
    return pos, period


def gen_builtin(rng):
    import math
    epoch = rng.choice([1500000000, 1234667890, 1400000000, 1600000000])
    ants = rng.sample(['m000', 'm001', 'm063'], rng.choice([1, 1, 2]))
    projs = rng.sample([('ARC', 'azel'), ('ARC', 'radec'), ('SIN', 'azel'), ('SIN', 'radec'), ('TAN', 'azel'),
                        ('STG', 'radec'), ('CAR', 'azel')], rng.choice([1, 1, 2]))
    case = dict(kind='builtin', fmt=rng.choice(['v4', 'v4', 'v3', 'v3', 'v2', 'v1']), epoch=epoch, ants=ants,
                proj=[list(p) for p in projs], gkind=rng.choice(['simple', 'rec']), parts=[])
    start = rng.randint(0, 4 * 86400 * 20)
    over = rng.random() < 0.2
    for _ in range(rng.choice([1, 1, 1, 2, 2, 3])):
        grid, period = gen_vgrid(rng, start)
        start = grid[-1] + period * rng.randint(1, 3) + rng.choice([0, 0, rng.randint(1, 4000)])
        T = len(grid)
        starts = sorted(rng.sample(range(1, T), min(T - 1, rng.choice([0, 0, 1, 2]))))
        targets = [[rng.randrange(len(V_TARGETS)), s] for s in [0] + starts]
        part = dict(grid=grid, period=period, keep=[rng.random() < 0.6 for _ in grid], targets=targets, az={}, el={})
        for a in ants:
            az, el = [], []
            for i, k in enumerate(grid):
                t = float(tval(epoch, k))
                taz, tel = v_target(v_target_at(part, i)).azel(t, v_ant(a))
                a64 = int(round(math.degrees(taz) * 64)) + rng.randint(-128, 128)
                e64 = int(round(math.degrees(tel) * 64)) + rng.randint(-128, 128)
                if over and 0 < e64 < 90 * 64 and rng.random() < 0.5:
                    a64, e64 = a64 + 180 * 64, 180 * 64 - e64          # the same direction, "over the top"
                az.append(a64)
                el.append(e64)
            part['az'][a], part['el'][a] = az, el
        case['parts'].append(part)
    names = [n for v in v_sensors(case) for n in v['names']]
    total = sum(len(p['grid']) for p in case['parts'])
    ops = []
    for _ in range(rng.randint(3, 10)):
        r = rng.random()
        if r < 0.12:
            ops.append(('setkeep', [rng.random() < 0.5 for _ in range(total)]))
            continue
        if rng.random() < 0.3:
            nm = 'Timestamps/mjd'
        elif rng.random() < 0.04:
            nm = rng.choice(['Antennas/%s/bogus' % ants[0], 'Timestamps/lst', v_sensors(case)[2]['srcs'][0]])
        else:
            nm = rng.choice(names)
        ops.append(('item', nm) if rng.random() < 0.45 else ('get', nm, rng.random() < 0.3))
    case['ops'] = [list(o) for o in ops]
    return case


# the seeded change C12-4 as fixed cases: a grid that lost five dumps, and the same grid with a declared dump period that is
# not its spacing; plus the over-the-top pointing read before and after the target coordinates (finding C12-F4)
def scripted_builtin():
    out = []
    idx = list(range(0, 7)) + list(range(12, 18)) + list(range(20, 27))
    for fmt, period in (('v4', 32), ('v3', 32), ('v1', 8)):
        grid = [32 * i for i in idx]
        part = dict(grid=grid, period=period, keep=[i % 4 != 0 for i in range(len(grid))], targets=[[0, 0], [2, 9]],
                    az={'m000': [40 * 64 + 16 * i for i in range(len(grid))]},
                    el={'m000': [50 * 64 - 8 * i for i in range(len(grid))]})
        out.append(dict(kind='builtin', fmt=fmt, epoch=1234667890, ants=['m000'], proj=[['ARC', 'azel']], gkind='simple',
                        parts=[part],
                        ops=[['item', 'Timestamps/mjd'], ['get', 'Timestamps/mjd', False], ['item', 'Antennas/m000/lst'],
                             ['get', 'Antennas/m000/ra', False], ['item', 'Antennas/m000/parangle'],
                             ['item', 'Antennas/m000/target_x_ARC_azel'], ['item', 'Antennas/m000/u'],
                             ['setkeep', [True] * len(grid)], ['item', 'Timestamps/mjd'], ['item', 'Antennas/m000/az']]))
    out.append(WITNESS_F4)
    return out


WITNESS_F4 = dict(kind='builtin', fmt='v4', epoch=1500000000, ants=['m000'], proj=[['ARC', 'azel']], gkind='simple',
                  parts=[dict(grid=[0, 32, 64, 160], period=32, keep=[True, True, False, True], targets=[[1, 0]],
                              az={'m000': [20 * 64, 200 * 64, 21 * 64, 199 * 64]},
                              el={'m000': [87 * 64, 93 * 64, 88 * 64, 91 * 64]})],
                  ops=[['get', 'Antennas/m000/az', False], ['get', 'Antennas/m000/el', False],
                       ['get', 'Antennas/m000/target_x_ARC_azel', False], ['get', 'Antennas/m000/az', False],
                       ['item', 'Antennas/m000/el'], ['get', 'Antennas/m000/target_y_ARC_azel', False]])


# ---------------------------------------------------------------------------------------------- public DataSet properties
# The same statement at the user-facing end: d.mjd, d.lst, d.az, d.el, d.ra, d.dec, d.parangle, d.target_x, d.target_y,
# d.u, d.v, d.w of an HDF5 v3 data set (and of a concatenation of two) whose recorded dump timestamps are IRREGULAR,
# under a dump selection: row j must be the documented function of the j-th SELECTED dump (d.timestamps[j]) alone.
DS_ANT = '%s, -30:42:39.8, 21:26:38.0, 1086.6, 13.5, %d 0 0'          # what fixtures/mkv3.py writes
DS_TOL = dict(mjd=1e-9, lst=1e-8, az=1e-7, el=1e-7, ra=1e-7, dec=1e-7, parangle=1e-7, target_x=1e-7, target_y=1e-7,
              u=1e-6, v=1e-6, w=1e-6)
DS_PROPS = ['mjd', 'lst', 'az', 'el', 'ra', 'dec', 'parangle', 'target_x', 'target_y', 'u', 'v', 'w']


def ds_open(case, tmp):
    import h5py
    import katdal
    from fixtures.mkv3 import mkv3
    fns = []
    for n, part in enumerate(case['parts']):
        fn = os.path.join(tmp, '%d.h5' % (part['t0'] + n))
        dt = part['dtq'] / 4.0
        mkv3(fn, T=len(part['grid']), F=2, ants=tuple(case['ants']), t0=float(part['t0']), dt=dt,
             acts=[(0, 'track')], targets=[(d, V_TARGETS[t]) for (d, t) in part['targets']], labels=[(0, 'track')],
             seed=n)
        with h5py.File(fn, 'r+') as f:      # the recorded dump timestamps: start of each dump, irregular
            f['Data/timestamps'][:] = np.array([part['t0'] + k / 4.0 for k in part['grid']])
        fns.append(fn)
    return katdal.open(fns if len(fns) > 1 else fns[0], centre_freq=1284e6)


def ds_expected(case, d, ts, targets):
    """documented value of every public property for every dump of the (unselected) data set: one scalar katpoint call
    per dump; ts = d.timestamps, targets = the target of each dump"""
    import math

    import katpoint
    ants = [katpoint.Antenna(DS_ANT % (a, 10 * i)) for i, a in enumerate(case['ants'])]
    arr = katpoint.Antenna('array, -30:42:39.8, 21:26:38.0, 1086.6, 13.5')
    proj, csys = case['proj']
    # the source sensors of the fixture: two samples (t0, 10 deg / 30 deg) and (t0 + dt T, 20 deg / 40 deg) per part
    bounds = np.cumsum([0] + [len(p['grid']) for p in case['parts']])
    deg = math.degrees
    rows = {k: [] for k in DS_PROPS}
    for i, t in enumerate(ts):
        part = case['parts'][int(np.searchsorted(bounds, i, side='right')) - 1]
        span = part['dtq'] / 4.0 * len(part['grid'])
        lam = min(max((t - part['t0']) / span, 0.0), 1.0)
        azr, elr = math.radians(10.0 + 10.0 * lam), math.radians(30.0 + 10.0 * lam)
        point = katpoint.construct_azel_target(azr, elr)
        rows['mjd'].append(katpoint.Timestamp(t).to_mjd())
        rows['lst'].append(float(ants[0].local_sidereal_time(t)) * 12.0 / math.pi)
        rows['az'].append([deg(azr)] * len(ants))
        rows['el'].append([deg(elr)] * len(ants))
        radec = [point.radec(t, a) for a in ants]
        rows['ra'].append([deg(r[0]) for r in radec])
        rows['dec'].append([deg(r[1]) for r in radec])
        rows['parangle'].append([deg(point.parallactic_angle(t, a)) for a in ants])
        xy = [targets[i].sphere_to_plane(*((azr, elr) if csys == 'azel' else (float(r[0]), float(r[1]))), t, a, proj, csys)
              for a, r in zip(ants, radec)]
        rows['target_x'].append([deg(p[0]) for p in xy])
        rows['target_y'].append([deg(p[1]) for p in xy])
        uvw = {a.name: targets[i].uvw(a, t, arr) for a in ants}
        for n, c in enumerate('uvw'):
            rows[c].append([float(uvw[ia[:-1]][n] - uvw[ib[:-1]][n]) for ia, ib in d.corr_products])
    return {k: np.array(v, dtype=float) for k, v in rows.items()}


def run_dataset(ctx, case):
    import shutil

    from fixtures.v4 import scratch_dir
    tmp = scratch_dir('c12ds')
    nontrivial = False
    try:
        with row_stack_shim():
            d = ds_open(case, tmp)
            d.select()
            ts = np.array(d.timestamps)
            total = sum(len(p['grid']) for p in case['parts'])
            if len(ts) != total:
                ctx.count('skipped:dataset-dropped-dumps')
                return False
            tsens = d.sensor.get('Observation/target')
            targets = [tsens[i] for i in range(total)]
            exp = ds_expected(case, d, ts, targets)
            d.target_projection, d.target_coordsys = case['proj']
            gcls = v_grid_class(dict(parts=[dict(grid=p['grid'], period=p['dtq']) for p in case['parts']]))
            for step, (mask, order) in enumerate(case['reads']):
                mask = np.array(mask, dtype=bool)
                d.select(dumps=mask)
                if not np.array_equal(d.timestamps, ts[mask]):
                    ctx.disagree('kind=dataset;prop=timestamps;grid=%s;symptom=values_differ' % gcls, dict(case, failing_read=step),
                                 d.timestamps.tolist(), ts[mask].tolist(), 'selected timestamps are not the selected dumps')
                    return nontrivial
                for prop in order:
                    try:
                        got = np.asarray(getattr(d, prop), dtype=float)
                    except Exception as exc:
                        if prop in 'uvw' and isinstance(exc, AttributeError):
                            ctx.count('skipped:katpoint-uvw')
                            continue
                        ctx.disagree('kind=dataset;prop=%s;grid=%s;symptom=raises' % (prop, gcls),
                                     dict(case, failing_read=step, failing_prop=prop), repr(exc), None, 'd.%s raised' % prop)
                        return nontrivial
                    want = exp[prop][mask]
                    if got.shape != want.shape or not np.all(np.abs(got - want) <= DS_TOL[prop]):
                        ctx.disagree('kind=dataset;prop=%s;grid=%s;symptom=%s' % (
                                     prop, gcls, 'shape_differs' if got.shape != want.shape else 'values_differ'),
                                     dict(case, failing_read=step, failing_prop=prop), got.tolist(), want.tolist(),
                                     'd.%s under a dump selection is not the documented function of each selected dump '
                                     '(d.timestamps[j] and the source sensors at that dump; tolerance %g)' % (prop, DS_TOL[prop]))
                        return nontrivial
                    ctx.count('dataset_prop=' + prop)
                    nontrivial = nontrivial or bool(mask.any())
            ctx.count('dataset_grid=' + gcls)
            ctx.traces_validated += 1
    finally:
        shutil.rmtree(tmp, ignore_errors=True)
    return nontrivial


def gen_dataset(rng):
    ants = ['m000', 'm001'] if rng.random() < 0.8 else ['m000', 'm001', 'm002']
    case = dict(kind='dataset', ants=ants, proj=[rng.choice(['ARC', 'ARC', 'STG']), rng.choice(['azel', 'radec'])], parts=[])
    t0 = rng.choice([1500000000, 1400000000]) + rng.randint(0, 86400 * 20)
    dtq = rng.choice([2, 4, 8, 8, 16, 32])                   # spacing of the dumps (quarter seconds)
    declared = dtq if rng.random() < 0.85 else rng.choice([q for q in (2, 4, 8, 16) if q != dtq])     # int_time of the file
    for _ in range(rng.choice([1, 1, 2])):
        grid, _ = gen_vgrid(rng, 0, p=dtq)
        if len(grid) < 2:
            grid.append(grid[-1] + dtq * rng.randint(1, 4))
        while len(grid) > 1 and grid[-1] - grid[-2] != dtq and rng.random() < 0.5:
            grid.append(grid[-1] + dtq)
        ndump = len(grid)
        tstarts = sorted(rng.sample(range(1, max(2, grid[-1] // dtq)), rng.choice([0, 1, 2]))) if grid[-1] // dtq > 2 else []
        part = dict(t0=t0, dtq=declared, grid=grid,
                    targets=[[0, rng.choice([0, 3, 5])]] + [[s, rng.choice([0, 2, 3, 4, 5])] for s in tstarts])
        case['parts'].append(part)
        t0 += grid[-1] // 4 + rng.randint(60, 4000)
    total = sum(len(p['grid']) for p in case['parts'])
    reads = []
    for _ in range(rng.choice([1, 2])):
        mask = [rng.random() < 0.6 for _ in range(total)]
        order = rng.sample(DS_PROPS, rng.randint(3, len(DS_PROPS)))
        reads.append([mask, order])
    case['reads'] = reads
    return case


def scripted_dataset():
    idx = list(range(0, 7)) + list(range(12, 18)) + list(range(20, 27))
    grid = [8 * i for i in idx]
    return [dict(kind='dataset', ants=['m000', 'm001'], proj=['ARC', 'azel'],
                 parts=[dict(t0=1500000000, dtq=8, grid=grid, targets=[[0, 0], [9, 3]])],
                 reads=[[[i % 4 != 0 for i in range(len(grid))], list(DS_PROPS)], [[True] * len(grid), ['mjd', 'lst', 'az']]])]


# ---------------------------------------------------------------------------------------------- generators
def gen_samples(rng, status, n=None, lo=0, hi=24):
    n = rng.choice([0, 1, 1, 2, 2, 3, 4, 5, 6, 8]) if n is None else n
    out = []
    for _ in range(n):
        if out and rng.random() < 0.3:
            k = rng.choice(out)[0]                       # duplicate timestamp
        else:
            k = rng.randint(lo, hi)
        v = rng.randint(-40, 40) * L24
        st = rng.choice(STATUSES[:3] * 3 + STATUSES) if status else ''
        out.append((k, v, st))
    if rng.random() < 0.3:
        out.sort(key=lambda s: s[0])
    return out


def gen_ts(rng):
    mode = rng.random()
    n = rng.randint(1, 7)
    if mode < 0.15:
        start = rng.randint(-30, -10)               # data entirely before the samples
    elif mode < 0.3:
        start = rng.randint(26, 40)                 # entirely after
    else:
        start = rng.randint(-4, 20)
    step = rng.choice([1, 2, 4, 3])
    return [start + i * step for i in range(n)]


def gen_props(rng, p_any=0.5, numeric_only=False):
    p = {}
    if rng.random() < p_any:
        if rng.random() < 0.6:
            p['off'] = rng.randint(-4, 4)
        if rng.random() < 0.3:
            p['cat'] = rng.random() < 0.4 if not numeric_only else False
        if rng.random() < 0.3:
            p['init'] = rng.choice([('float', rng.randint(-5, 5) * L24), ('float', 3), ('int', 7), ('str', 0), ('bool', 1)])
    return p


def gen_primitive(rng):
    status = rng.random() < 0.7
    lo = rng.choice([0, 0, 8])
    return dict(epoch=rng.choice([0, 1500000000]), status=status, off=rng.choice([0, 0, 1, -3, 4]),
                samples=gen_samples(rng, status, lo=lo, hi=lo + rng.choice([3, 8, 16])), ts=gen_ts(rng),
                swidth=rng.choice([7, 12]))


NAMES = ['a/x', 'a/y', 'b/x', 'b/yx']
# names that EXTEND another name to the right / left / both (a wildcard key fitting 'a/x' must not leak onto them)
XNAMES = NAMES + ['a/xb', 'ba/x', 'ba/xb', 'A/x', 'x/x']      # 'x/x': add_aliases replaces EVERY occurrence of the suffix
KEYS = ['a/x', '*x', 'a/*', '*', 'b/*x', '*/y*', 'zz', 'a*x', '*/x', 'a/x*', '*a/x', 'a.*', 'b*/*x']
VNAMES = ['v/p0', 'v/q0', 'v/r0', 'w/s0']


def gen_cache(rng, kinds=('simple', 'rec', 'h5', 'telstate'), names=XNAMES, allow_virtual=True, gname=None):
    ng = rng.randint(1, 3)
    getters = []
    for _ in range(ng):
        kind = rng.choice(kinds)
        dtype = rng.choice(['float', 'float', 'float', 'int', 'str', 'bool'])
        status = kind != 'telstate' and rng.random() < 0.6
        n = None
        if kind == 'telstate':
            n = rng.randint(1, 6)
            dtype = rng.choice(['float', 'float', 'int'])
        samples = gen_samples(rng, status, n=n, lo=1 if kind == 'telstate' else 0)
        if kind == 'telstate':     # telstate orders equal timestamps by value: keep them distinct
            seen, uniq = set(), []
            for s in samples:
                if s[0] not in seen:
                    seen.add(s[0])
                    uniq.append(s)
            samples = sorted(uniq)
        getters.append(dict(kind=kind, dtype=dtype, status=status, samples=samples, swidth=rng.choice([7, 12]),
                            ustatus=rng.random() < 0.2 and kind == 'simple'))
    nm = rng.sample(list(names), rng.randint(1, min(len(names), ng + 1)))
    raw = [(n, rng.randrange(ng)) for n in nm]
    ts = gen_ts(rng)
    keep = [rng.random() < 0.6 for _ in ts]
    keys = rng.sample(KEYS, rng.randint(0, 3))
    props = [(k, gen_props(rng, 0.9)) for k in keys]
    virt = []
    if allow_virtual and rng.random() < 0.5:
        pool = list(VNAMES)
        rng.shuffle(pool)
        v1 = dict(names=pool[:rng.randint(1, 2)], srcs=rng.sample(list(names) + ['zz/none'], rng.randint(0, 2)),
                  fid=1000 * rng.randint(0, 2) + rng.randint(0, 3))
        virt.append(v1)
        if rng.random() < 0.5:
            virt.append(dict(names=pool[2:3], srcs=[v1['names'][0]] + rng.sample(list(names), rng.randint(0, 1)),
                             fid=1000 * rng.randint(1, 2) + rng.randint(0, 2)))
    return dict(epoch=rng.choice([0, 1500000000]), getters=getters, raw=raw, ts=ts, keep=keep, props=props, virt=virt,
                gname=gname)


def gen_ops(rng, c, n=None):
    names = [n_ for (n_, _) in c['raw']] + [v for vs in c['virt'] for v in vs['names']]
    allnames = names + ['a/z', 'b/z', 'zz/none', 'z/z', 'x/z'] + NAMES[:2]
    ops = []
    T = len(c['ts'])
    for _ in range(n or rng.randint(1, 8)):
        r = rng.random()
        nm = rng.choice(names) if rng.random() < 0.8 else rng.choice(allnames)
        if r < 0.45:
            select = rng.random() < 0.4
            extract = True if select and rng.random() < 0.9 else rng.random() < 0.75
            ops.append(('get', nm, select, extract, gen_props(rng, 0.35)))
        elif r < 0.62:
            ops.append(('item', nm))
        elif r < 0.72:
            ops.append(('setkeep', None if rng.random() < 0.15 else [rng.random() < 0.5 for _ in range(T)]))
        elif r < 0.80:
            ops.append(('alias', rng.choice(['z', 'a/w', 'yy']), rng.choice(['x', 'y', 'a/x', 'yx'])))
        elif r < 0.86:
            ops.append(('setvals', nm, [None if rng.random() < 0.1 else rng.randint(-9, 9) * L24 for _ in range(T)]))
        elif r < 0.92:
            ops.append(('setgetter', nm, rng.randrange(len(c['getters']))))
        else:
            ops.append(('del', nm))
    return ops


def gen_concat(rng):
    nparts = rng.randint(2, 3)
    keys = rng.sample(['a/x', '*x', 'a/*', '*', 'a*x', '*/x'], rng.randint(0, 2))
    props = [(k, gen_props(rng, 0.9)) for k in keys]
    cs = []
    epoch = rng.choice([0, 1500000000])
    for i in range(nparts):
        c = gen_cache(rng, kinds=('simple', 'rec', 'h5'), names=NAMES[:3] + ['a/xb', 'ba/x'], allow_virtual=False)
        c['epoch'] = epoch
        c['props'] = [(k, dict(p)) for (k, p) in props]
        # one getter per name, named after the sensor (ConcatenatedSensorGetter insists on equal names)
        c['raw'] = [(n, j % len(c['getters'])) for j, n in enumerate(dict(c['raw']).keys())][:len(c['getters'])]
        c['gname'] = None
        cs.append(c)
    ops = []
    names = sorted({n for c in cs for (n, _) in c['raw']}) + ['zz/none']
    total = sum(len(c['ts']) for c in cs)
    for _ in range(rng.randint(1, 6)):
        r = rng.random()
        nm = rng.choice(names)
        if r < 0.55:
            select = rng.random() < 0.4
            extract = True if select else rng.random() < 0.7
            ops.append(('get', nm, select, extract, gen_props(rng, 0.3)))
        elif r < 0.75:
            ops.append(('item', nm))
        elif r < 0.9:
            ops.append(('setkeep', None if rng.random() < 0.1 else [rng.random() < 0.5 for _ in range(total)]))
        else:
            ops.append(('setvals', nm, [rng.randint(-9, 9) * L24 for _ in range(total)]))
    return cs, ops


# fixed, hand-written histories run on every check (alias order, select before/after extract, extract False then True)
def scripted():
    g = dict(kind='rec', dtype='float', status=True, swidth=7, ustatus=False,
             samples=[(8, 3 * L24, 'nominal'), (0, -2 * L24, 'warn'), (8, 5 * L24, 'error'), (4, 7 * L24, 'unknown'),
                      (16, 1 * L24, 'nominal'), (12, 9 * L24, 'failure'), (12, 4 * L24, 'nominal')])
    out = []
    for kind in ('simple', 'rec', 'h5'):
        gg = dict(g, kind=kind)
        base = dict(epoch=1500000000, getters=[gg], raw=[('a/x', 0)], ts=[-2, 2, 6, 10, 14, 18], gname=None,
                    keep=[True, False, True, True, False, True], props=[('*x', {'off': 2})], virt=[])
        out.append((base, [('alias', 'z', 'x'), ('get', 'a/x', False, True, {}), ('get', 'a/z', False, True, {'off': 2}),
                           ('item', 'a/z'), ('item', 'a/x')]))
        out.append((base, [('alias', 'z', 'x'), ('get', 'a/z', False, False, {}), ('item', 'a/z'),
                           ('get', 'a/x', True, True, {'off': 2}), ('get', 'a/x', False, False, {})]))
        out.append((base, [('get', 'a/x', False, False, {}), ('setkeep', [False, True, True, False, False, False]),
                           ('item', 'a/x'), ('setkeep', [True] * 6), ('item', 'a/x'), ('get', 'a/x', False, True, {'off': -4})]))
        out.append((base, [('get', 'a/x', False, True, {'off': 4}), ('setgetter', 'a/x', 0),
                           ('get', 'a/x', False, True, {'off': 4}), ('get', 'a/x', False, True, {})]))
        # add_aliases replaces EVERY occurrence of the original suffix in the name (str.replace), not only the suffix
        twice = dict(base, raw=[('x/x', 0), ('ax/bx', 0)], props=[])
        out.append((twice, [('alias', 'z', 'x'), ('get', 'z/z', False, True, {}), ('get', 'x/z', False, True, {}),
                            ('get', 'az/bz', False, True, {}), ('get', 'ax/bz', False, True, {}), ('item', 'x/x')]))
    return out


WITNESS_F3 = dict(kind='single',
                  cache=dict(epoch=0, getters=[dict(kind='rec', dtype='float', status=False, swidth=7, ustatus=False,
                                                    samples=[(0, 0, ''), (8, 8 * L24, '')])],
                             raw=[('a/x', 0)], ts=[0, 2, 4, 6, 8], keep=[True] * 5, props=[('*', {'off': 2})], virt=[], gname=None),
                  ops=[('alias', 'z', 'x'), ('get', 'a/x', False, True, {}), ('get', 'a/z', False, True, {})])
WITNESS_F2 = dict(kind='single',
                  cache=dict(epoch=0, getters=[dict(kind='simple', dtype='str', status=False, swidth=7, ustatus=False, samples=[])],
                             raw=[('a/x', 0)], ts=[0, 4], keep=[True, True], props=[], virt=[], gname=None),
                  ops=[('get', 'a/x', False, True, {})])


def _tuplify_ops(ops):
    return [tuple(o) for o in ops]


def _fix_case(case):
    """JSON round trip turns tuples into lists; restore what the code indexes as tuples"""
    def fix_cache(c):
        for g in c['getters']:
            g['samples'] = [tuple(s) for s in g['samples']]
        c['raw'] = [tuple(r) for r in c['raw']]
        c['props'] = [(k, _fix_p(p)) for (k, p) in c['props']]
        return c

    def _fix_p(p):
        if p.get('init') is not None:
            p['init'] = tuple(p['init'])
        return p
    ops = []
    for o in case.get('ops', []):
        o = list(o)
        if o[0] == 'get':
            o[4] = _fix_p(o[4])
        ops.append(tuple(o))
    if case.get('kind') == 'concat':
        return 'concat', [fix_cache(c) for c in case['caches']], ops
    if case.get('kind') == 'primitive':
        c = {k: v for k, v in case.items() if k not in ('kind', 'failing_op')}
        c['samples'] = [tuple(s) for s in c['samples']]
        return 'primitive', c, None
    return case.get('kind', 'single'), fix_cache(case['cache']), ops


def run_case(ctx, case):
    if case.get('kind') in ('api', 'registry', 'fill', 'v4delay'):
        from props import c12_ext
        return c12_ext.run_case(ctx, case)
    if case.get('kind') in ('num', 'azel'):
        from props import c12_num
        return c12_num.run_case(ctx, case)
    if case.get('kind') == 'unpack':
        return run_unpack(ctx, case)
    if case.get('kind') == 'builtin':
        return run_builtin(ctx, json.loads(json.dumps(case, default=str)))
    if case.get('kind') == 'dataset':
        return run_dataset(ctx, json.loads(json.dumps(case, default=str)))
    if case.get('kind') == 'props':
        c = json.loads(json.dumps(case, default=str))
        return run_props(ctx, [dict(name=c['name'], pm=[tuple(e) for e in c['pm']], kw=c['kw'])])
    kind, a, ops = _fix_case(json.loads(json.dumps(case, default=str)))
    if kind == 'concat':
        return run_concat(ctx, a, ops)
    if kind == 'primitive':
        return run_primitive(ctx, [a])
    return run_single(ctx, a, ops, kind=kind if kind in ('single', 'wild') else 'single')


def run_unpack(ctx, case):
    """pre-2016 HDF5 telstate sensor values are str() representations: numbers must unpack to numbers"""
    from katdal.sensordata import _h5_telstate_unpack
    for text, want in [('1.5', 1.5), ('-3', -3), ("'abc'", 'abc'), ('not a literal', 'not a literal')]:
        try:
            got = _h5_telstate_unpack(text)
        except Exception as e:
            got = repr(e)
        if got != want:
            ctx.disagree('kind=unpack;symptom=raises', case, got, want, '_h5_telstate_unpack(%r) failed' % text)
            return


# ---------------------------------------------------------------------------------------------- entry points
def run(ctx):
    if not ctx.model_ok:
        return
    import logging
    logging.getLogger('katdal').setLevel(logging.ERROR)
    import warnings
    warnings.simplefilter('ignore')
    rng = ctx.rng
    # known findings first
    for f in ctx.findings:
        if f.get('witness'):
            run_case(ctx, f['witness'])
            ctx.count('finding_witness')
    cdir = os.path.join(os.path.dirname(os.path.dirname(os.path.dirname(os.path.abspath(__file__)))), 'corpus', 'C12')
    if os.path.isdir(cdir):
        for fn in sorted(os.listdir(cdir)):
            if fn.endswith('.json'):
                run_case(ctx, json.load(open(os.path.join(cdir, fn))))
                ctx.count('corpus')
    for c, ops in scripted():
        nt = run_single(ctx, c, ops)
        ctx.note_case(('scripted', json.dumps([c, ops], sort_keys=True, default=str)), nontrivial=nt,
                      sample=dict(kind='scripted', ops=[o[:2] for o in ops]))
    for c, ops in scripted_wild():
        nt = run_single(ctx, c, ops, kind='wild')
        ctx.note_case(('scripted_wild', json.dumps([c, ops], sort_keys=True, default=str)), nontrivial=nt,
                      sample=dict(kind='scripted_wild', props=[k for (k, _) in c['props']], ops=[o[:2] for o in ops]))
    run_primitive(ctx, [gen_primitive(rng) for _ in range(ctx.scale(1200, 24000))])
    run_props(ctx, scripted_props() + [gen_props_case(rng) for _ in range(ctx.scale(4000, 80000))])
    for _ in range(ctx.scale(700, 14000)):
        c, ops = gen_wild_single(rng)
        nt = run_single(ctx, c, ops, kind='wild')
        ctx.note_case(('wild', json.dumps([c, ops], sort_keys=True, default=str)), nontrivial=nt,
                      sample=dict(kind='wild', names=[n for (n, _) in c['raw']], keys=[k for (k, _) in c['props']]))
        ctx.count('wild')
    for case in scripted_builtin() + [gen_builtin(rng) for _ in range(ctx.scale(400, 8000))]:
        nt = run_builtin(ctx, case)
        ctx.note_case(('builtin', json.dumps(case, sort_keys=True, default=str)), nontrivial=nt,
                      sample=dict(kind='builtin', fmt=case['fmt'], grid=v_grid_class(case),
                                  parts=[p['grid'] for p in case['parts']], ops=[o[:2] for o in case['ops']][:4]))
        ctx.count('builtin')
    for case in scripted_dataset() + [gen_dataset(rng) for _ in range(ctx.scale(120, 2400))]:
        nt = run_dataset(ctx, case)
        ctx.note_case(('dataset', json.dumps(case, sort_keys=True, default=str)), nontrivial=nt,
                      sample=dict(kind='dataset', parts=[p['grid'] for p in case['parts']], proj=case['proj']))
        ctx.count('dataset')
    for _ in range(ctx.scale(1300, 26000)):
        c = gen_cache(rng)
        ops = gen_ops(rng, c)
        nt = run_single(ctx, c, ops)
        ctx.note_case(('single', json.dumps([c, ops], sort_keys=True, default=str)), nontrivial=nt,
                      sample=dict(kind='single', getters=[g['kind'] for g in c['getters']], ops=[o[:2] for o in ops]))
        ctx.count('getterkinds=' + '+'.join(sorted({g['kind'] for g in c['getters']})))
    for _ in range(ctx.scale(500, 10000)):
        cs, ops = gen_concat(rng)
        nt = run_concat(ctx, cs, ops)
        ctx.note_case(('concat', json.dumps([cs, ops], sort_keys=True, default=str)), nontrivial=nt,
                      sample=dict(kind='concat', parts=len(cs), ops=[o[:2] for o in ops]))
        ctx.count('concat_parts=%d' % len(cs))
    from props import c12_ext
    c12_ext.run(ctx)
    from props import c12_num
    c12_num.run(ctx)
    if ctx.tier == 'thorough':
        cross_check_in_coq(ctx)


def cross_check_in_coq(ctx):
    """thorough tier: a sample of primitive cases evaluated inside Coq (vm_compute) against the extracted binary"""
    from vh import core
    rng = ctx.rng
    wire = []
    for _ in range(120):
        c = gen_primitive(rng)
        e = c['epoch']
        wire.append([12, [2, bool(c['status']), wq(Fraction(c['off'], 4)),
                          [[wq(tval(e, k)), wq(v), codes(st)] for (k, v, st) in c['samples']],
                          [wq(tval(e, k)) for k in c['ts']]]])
    a = ctx.model(wire)
    with core.BuildLock():     # the thorough tier rebuilt only Props/C12.vo; the dispatcher needs every Model file
        targets = ' '.join(x[:-2] + '.vo' for x in core.coq_sources() if x.startswith(('Base/', 'Gen/', 'Model/')))
        rc, out = core.make(targets, timeout=1200)
    if rc:
        ctx.extra['coq_vm_cross_checked'] = 'skipped: Model/*.vo do not all build (another property\'s model)'
        return
    b = core.run_model_in_coq(wire, 'c12')
    if a != b:
        ctx.disagree('what=extraction_cross_check', dict(kind='extraction'), None, None,
                     'extracted OCaml model and vm_compute inside Coq disagree', kind='tie')
    ctx.extra['coq_vm_cross_checked'] = len(wire)


def replay(ctx, doc):
    import logging
    logging.getLogger('katdal').setLevel(logging.ERROR)
    case = doc.get('case') or doc.get('witness') or {}
    if case.get('kind') in ('single', 'wild', 'concat', 'primitive', 'unpack', 'props', 'builtin', 'dataset', 'api', 'registry',
                            'fill', 'v4delay', 'num', 'azel'):
        run_case(ctx, case)
        ctx.note_case(('replay', json.dumps(case, sort_keys=True, default=str)))
