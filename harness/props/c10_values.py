"""C10, part 3: sensor values that are NOT just ids - array-valued (wrapped) sensors.

(a) pairs: ComparableArrayWrapper(a) == ComparableArrayWrapper(b), !=, hash on generated pairs of ndarray / tuple / list /
    scalar values built to collide (same elements in different shapes: (1,) vs (n,), (n,) vs (1,n), empty vs (1,),
    0-d vs (1,), scalar vs 1-element array, NaN-containing arrays) against the Coq model of the equality
    (Model/SensorToCatValues.v caw_eq_src, written over the regenerated branch condition) and against the SPEC
    "array values are equal iff they have the same shape and the same elements" (wire_104).
(b) sensors: sensor_to_categorical and SensorCache.get on sensors whose values come from such colliding pools; the model
    (wire_105) assigns the ids itself - the quotient of the values by the model of the code's equality - and runs the
    model / rule of the id-level theorems; the harness decodes what katdal returns by STRICT identity of the value
    (kind, shape, elements).  A comparison that broadcasts (or ignores the shape in any other way) merges two values
    the model keeps apart: repeat removal drops a genuine change and the per-dump values differ from the rule.
"""
import numpy as np

NAN = -777          # Model.SensorToCatValues.nan_code
KIND = {'nd': 0, 'tup': 1, 'list': 2, 'num': 3}


# ------------------------------------------------------------------------------------------------ descriptors

def desc_of(obj):
    """Strict identity of a python value: (kind, shape, data) with NaN -> 'nan'."""
    from katdal.categorical import ComparableArrayWrapper
    obj = ComparableArrayWrapper.unwrap(obj)

    def el(x):
        x = float(x)
        return 'nan' if x != x else (int(x) if x == int(x) else x)
    if isinstance(obj, np.ndarray):
        return ('nd', tuple(int(s) for s in obj.shape), tuple(el(x) for x in obj.ravel()))
    if isinstance(obj, tuple):
        return ('tup', (len(obj),), tuple(el(x) for x in obj))
    if isinstance(obj, list):
        return ('list', (len(obj),), tuple(el(x) for x in obj))
    if isinstance(obj, (int, float, np.generic)):
        return ('num', (), (el(obj),))
    return ('other', (), (repr(obj),))


def norm(d):
    """JSON form [kind, shape, data] -> canonical tuple."""
    return (d[0], tuple(d[1]), tuple(d[2]))


def to_python(d):
    kind, shape, data = norm(d)
    vals = [float('nan') if x == 'nan' else float(x) for x in data]
    if kind == 'nd':
        return np.array(vals, dtype=float).reshape(shape)
    if kind == 'tup':
        return tuple(vals)
    if kind == 'list':
        return list(vals)
    return vals[0]


def to_wire(d):
    kind, shape, data = norm(d)
    return [KIND[kind], list(shape), [NAN if x == 'nan' else int(x) for x in data]]


def wrap_array(descs):
    from katdal.categorical import ComparableArrayWrapper
    out = np.empty(len(descs), dtype=object)
    for n, d in enumerate(descs):
        out[n] = ComparableArrayWrapper(to_python(d))
    return out


# ------------------------------------------------------------------------------------------------ pools

def pool(rng, family):
    """Values of one sensor, built to collide: the same elements in different shapes."""
    e = rng.choice([1, 2, 7])
    f = rng.choice([x for x in (1, 2, 7, 3) if x != e])
    nd = [['nd', [1], [e]], ['nd', [2], [e, e]], ['nd', [4], [e, e, e, e]], ['nd', [1, 2], [e, e]], ['nd', [2, 1], [e, e]],
          ['nd', [0], []], ['nd', [1], [f]], ['nd', [2], [e, f]], ['nd', [], [e]], ['nd', [1, 1], [e]], ['nd', [3], [f, f, f]],
          ['nd', [2, 2], [e, e, e, e]]]
    if family == 'nd':
        return nd
    if family == 'nd_1d':       # 1-d only (what infer_dtype calls the invariant), still of different lengths
        return [d for d in nd if len(d[1]) == 1]
    if family == 'nd+num':      # scalars next to 1-element (and longer) arrays; no 0-d array next to a scalar
        return [d for d in nd if d[1] != []] + [['num', [], [e]], ['num', [], [f]]]
    if family == 'tup':
        return [['tup', [1], [e]], ['tup', [2], [e, e]], ['tup', [3], [e, e, e]], ['tup', [0], []], ['tup', [1], [f]],
                ['tup', [2], [e, f]]]
    if family == 'list':
        return [['list', [1], [e]], ['list', [2], [e, e]], ['list', [0], []], ['list', [1], [f]], ['list', [2], [f, e]]]
    if family == 'nd_nan':
        return [['nd', [2], [e, 'nan']], ['nd', [2], [e, e]], ['nd', [1], ['nan']], ['nd', [1], [e]], ['nd', [2], [e, 'nan']]]
    raise ValueError(family)


def pair_pool(rng):
    e = rng.choice([1, 2])
    vals = []
    for fam in ('nd', 'tup', 'list', 'nd_nan'):
        vals += pool(rng, fam)
    vals += [['num', [], [e]], ['num', [], [3]], ['nd', [], [3]], ['tup', [2], [1, 2]], ['list', [2], [1, 2]], ['nd', [2], [1, 2]]]
    return vals


# ------------------------------------------------------------------------------------------------ (a) pairs

def run_pairs(ctx, n):
    from katdal.categorical import ComparableArrayWrapper as W
    rng = ctx.rng
    pairs = []
    for _ in range(n):
        p = pair_pool(rng)
        a = rng.choice(p)
        b = rng.choice(p) if rng.random() < 0.85 else a
        pairs.append((a, b))
    if not ctx.model_ok:
        return
    outs = ctx.model([[104, [to_wire(a), to_wire(b)]] for a, b in pairs])
    for (a, b), mo in zip(pairs, outs):
        check_pair(ctx, a, b, mo, W)


def check_pair(ctx, a, b, mo, W):
    m_ab, m_ba, m_tok, m_ha, m_hb, m_spec, m_compat = [bool(x) for x in mo]
    case = dict(path='pair', a=a, b=b)
    x, y = to_python(a), to_python(b)
    sig = 'path=pair;a=%s;b=%s;shapes=%s' % (a[0], b[0], 'same' if norm(a)[1] == norm(b)[1] else 'differ')
    ctx.traces_validated += 1
    try:
        r_ab, r_ba = W(x) == W(y), W(y) == W(x)
        r_ne = W(x) != W(y)
        r_raw = W(x) == y          # greedy membership compares a wrapped value with a possibly unwrapped one
    except Exception as e:   # noqa: BLE001
        ctx.disagree(sig + ';symptom=eq_raises', case, type(e).__name__ + ': ' + str(e)[:60], [m_ab, m_ba],
                     'ComparableArrayWrapper.__eq__ raised', kind='tie')
        return
    ok_type = all(isinstance(r, (bool, np.bool_)) for r in (r_ab, r_ba, r_ne, r_raw))
    either_nd = a[0] == 'nd' or b[0] == 'nd'
    # property: two array values are equal iff they have the same shape and the same elements (no NaN)
    if either_nd and (bool(r_ab) != m_spec or not ok_type):
        ctx.disagree(sig + ';symptom=array_equality_ignores_shape' if bool(r_ab) and not m_spec else
                     sig + ';symptom=array_equality', case, [bool(r_ab), bool(r_ba)], [m_ab, m_ba],
                     'ComparableArrayWrapper: array values compare %s although they %s the same shape and elements'
                     % ('equal' if r_ab else 'different', 'have' if m_spec else 'do not have'), spec=m_spec)
    elif [bool(r_ab), bool(r_ba)] != [m_ab, m_ba] or bool(r_raw) != m_ab:
        ctx.disagree(sig + ';symptom=tie_eq', case, [bool(r_ab), bool(r_ba), bool(r_raw)], [m_ab, m_ba],
                     'ComparableArrayWrapper.__eq__ differs from its model', kind='tie')
    if bool(r_ne) == bool(r_ab):
        ctx.disagree(sig + ';symptom=ne_is_not_not_eq', case, [bool(r_ab), bool(r_ne)], [m_ab, not m_ab],
                     '!= is not the negation of ==')
    for d, v, mh in ((a, x, m_ha), (b, y, m_hb)):
        try:
            hash(W(v))
            h = True
        except TypeError:
            h = False
        if h != mh:
            ctx.disagree(sig + ';symptom=tie_hashable', case, h, mh, 'hashability of the wrapper differs from the model', kind='tie')
    if m_ha and m_hb and bool(r_ab) and hash(W(x)) != hash(W(y)):
        ctx.disagree(sig + ';symptom=equal_but_different_hash', case, [hash(W(x)), hash(W(y))], None,
                     'equal wrapped values have different hashes (unique_in_order would keep both)')
    ctx.note_case(('pair', repr(a), repr(b)), nontrivial=norm(a) != norm(b))
    ctx.count('value_pairs')
    if bool(r_ab):
        ctx.count('value_pairs:equal')
    if norm(a)[1] != norm(b)[1] and set(norm(a)[2]) == set(norm(b)[2]) and norm(a)[2]:
        ctx.count('value_pairs:same_elements_different_shape')


# ------------------------------------------------------------------------------------------------ (b) sensors

def gen_sensor_case(rng, path):
    from props import c10
    ends, P = c10.gen_ends(rng, 6)
    family = rng.choice(['nd', 'nd', 'nd_1d', 'nd+num', 'tup', 'list', 'nd_nan'])
    p = pool(rng, family)
    m = rng.randint(1, 8)
    lo, hi = ends[0] - 2 * P, ends[-1] + P
    mode = rng.random()
    if mode < 0.5 or path == 'values_cache':
        # distinct times (the cache keeps only the last of equal timestamps: that is C12 / the cache cases of c10.py);
        # about one event per dump: consecutive values meet in the repeat removal
        ts = sorted(set(rng.randint(lo, hi) for _ in range(m)))
    else:
        ts = sorted(rng.randint(lo, hi) for _ in range(m))
    vals = [rng.choice(p) for _ in ts]
    greedy = None
    if rng.random() < 0.4:
        greedy = [rng.choice(p) for _ in range(rng.randint(1, 2))]
    init = rng.choice(p) if rng.random() < 0.3 else None
    case = dict(path=path, values=family, ts=ts, svals=vals, ends=ends, init=init, greedy=greedy,
                ar=rng.choice([None, None, False, True]))
    if greedy is not None and rng.random() < 0.4:
        case['wrap_greedy'] = True      # greedy values handed over wrapped (default: unwrapped, as documented)
    if P != 2:
        case['P'] = P
    return case


def wire_sensor(case):
    P = case.get('P', 2)
    mids = [e - P // 2 for e in case['ends']]
    return [105, [case['ts'], [to_wire(d) for d in case['svals']], mids, P,
                  [] if case['init'] is None else [to_wire(case['init'])],
                  [to_wire(d) for d in (case['greedy'] or [])],
                  [] if case['ar'] is None else [1 if case['ar'] else 0]]]


def observe_sensor(case):
    """-> ('ok', events, ids-per-event as descriptors, per-dump descriptors, unique descriptors, slices) | ('err', text);
    slices = [(what, descriptors | 'err: ...', expected descriptors)] for data[:], data[mask] and cache[name]."""
    from katdal.categorical import ComparableArrayWrapper, sensor_to_categorical
    from katdal.sensordata import SensorCache, SimpleSensorGetter
    P = case.get('P', 2)
    ts = np.array([t / 2.0 for t in case['ts']], dtype=float)
    vals = wrap_array(case['svals'])
    mid = np.array([e / 2.0 - P / 4.0 for e in case['ends']], dtype=float)
    kw = {}
    if case['init'] is not None:
        kw['initial_value'] = to_python(case['init'])
    if case['greedy'] is not None:
        # as documented: unwrapped, ndarrays included (finding F27, repaired: unwrapped ndarrays made the membership test
        # raise); case['wrap_greedy']: wrapped, the work-around callers needed before the repair, must keep working
        kw['greedy_values'] = [ComparableArrayWrapper(to_python(d)) if case.get('wrap_greedy') else to_python(d)
                               for d in case['greedy']]
    if case['ar'] is not None:
        kw['allow_repeats'] = bool(case['ar'])
    try:
        cache = None
        if case['path'] == 'values_cache':
            cache = SensorCache({'s': SimpleSensorGetter('s', ts.copy(), vals)}, mid, P / 2.0, props={'s': kw})
            c = cache.get('s')
        else:
            c = sensor_to_categorical(ts, vals, mid, P / 2.0, **kw)
        ev = [int(e) for e in c.events]
        uniq = [desc_of(v) for v in c.unique_values]
        per_event = [uniq[int(i)] for i in c.indices]
        per = [desc_of(c[k]) for k in range(len(case['ends']))]
        # several dumps at once (finding F112, repaired: np.array refused per-dump values of different shapes): one entry
        # per selected dump, each the value of the single-dump look-up
        mask = [(k + len(case['ts'])) % 3 != 0 for k in range(len(per))]
        probes = [('data[:]', lambda: c[:], per), ('data[mask]', lambda: c[np.array(mask)], [d for d, k in zip(per, mask) if k])]
        if cache is not None:
            probes.append(('cache[name]', lambda: cache['s'], per))
        slices = []
        for what, get, want in probes:
            try:
                got = get()
                slices.append((what, [desc_of(v) for v in got], want))
            except Exception as e:   # noqa: BLE001
                slices.append((what, 'err: ' + type(e).__name__ + ': ' + str(e)[:60], want))
        return ('ok', ev, per_event, per, uniq, slices)
    except Exception as e:   # noqa: BLE001
        return ('err', type(e).__name__ + ': ' + str(e)[:80])


def check_sensor(ctx, case, mo):
    from props import c10
    ob = observe_sensor(case)
    ctx.traces_validated += 1
    ivals, iinit, igreedy, model, spec, coded, f14d = mo
    universe = [norm(d) for d in case['svals']] + ([norm(case['init'])] if case['init'] is not None else []) + \
               [norm(d) for d in (case['greedy'] or [])]
    uids = list(ivals) + list(iinit) + list(igreedy)
    # canonical id of a value = smallest model id among the identical values (NaN values: one id per occurrence)
    canon = {}
    for d, i in zip(universe, uids):
        canon[d] = min(canon.get(d, i), i)
    cid = {i: canon[d] for d, i in zip(universe, uids)}

    def dec(d):
        return canon.get((d[0], tuple(d[1]), tuple(d[2])), -1000 - (hash(repr(d)) % 1000))
    pseudo = dict(ts=case['ts'], vals=list(ivals), ends=case['ends'], tr=None, init=iinit[0] if iinit else None,
                  greedy=list(igreedy) if case['greedy'] is not None else None, ar=case['ar'], rep='sv', path='direct')
    if 'P' in case:
        pseudo['P'] = case['P']
    base = 'values=%s;path=%s' % (case['values'], case['path'])
    in_domain = spec[0] == 1
    if ob[0] == 'err':
        if in_domain:
            ctx.disagree(base + ';symptom=raises', case, ob[1], model, 'sensor_to_categorical raised although a value is '
                         'defined for every dump', spec=spec[1])
    elif not in_domain:
        ctx.disagree(base + ';symptom=answers_out_of_domain', case, ob[1:4], model, 'data returned although no start value is defined')
    else:
        ev, per_event, per, uniq, slices = ob[1:]
        o_event = [dec(d) for d in per_event]
        o_per = [dec(d) for d in per]
        want = [cid.get(i, i) for i in spec[1]]
        if model[0] == 1:
            m_event = [cid.get(model[3][i], model[3][i]) for i in model[2]]
            m_per = [cid.get(i, i) for i in model[4][1]] if model[4][0] == 1 else 'Err'
            for name, a, b in (('events', ev, model[1]), ('values_per_event', o_event, m_event), ('per_dump', o_per, m_per)):
                if a != b:
                    ctx.disagree(base + ';symptom=tie_%s' % name, case, a, b,
                                 '%s of the implementation differ from the model of the code (ids = quotient of the values by '
                                 'the model of ComparableArrayWrapper.__eq__)' % name, spec=want, kind='tie')
                    break
        else:
            ctx.disagree(base + ';symptom=answers_model_raises', case, ob[1:4], 'Err', 'implementation returned data where the '
                         'model raises', kind='tie')
        if o_per != want:
            coded_ok = coded[0] == 1 and o_per == [cid.get(i, i) for i in coded[1]] and bool(f14d) and o_per[1:] == want[1:]
            # the F14 defect on an array-valued sensor is the same finding as on any other
            sig = ('path=direct;%s' % c10.classify(pseudo) if coded_ok and case['path'] == 'values_direct' else
                   'path=cache;%s' % c10.classify(pseudo) if coded_ok else base)
            ctx.disagree(sig + ';symptom=per_dump_differs_from_rule' + ('' if coded_ok else ';not_explained_by_dropped_initial_value'),
                         case, per, model and model[1:], 'per-dump values differ from the documented rule '
                         '(values identified by kind, shape and elements)', spec=want)
        bad = []
        n = len(case['ends'])
        if not ev or ev[0] != 0:
            bad.append('first_event_not_0')
        if not ev or ev[-1] != n:
            bad.append('last_event_not_N')
        if any(a >= b for a, b in zip(ev, ev[1:])):
            bad.append('events_not_increasing')
        if len(set(uniq)) != len(uniq):
            bad.append('unique_values_repeat')
        if not case['ar'] and any(a == b for a, b in zip(per_event, per_event[1:])):
            bad.append('repeated_consecutive_value')
        if bad:
            # a NaN-containing array is not equal to itself, so it is never removed as a repeat: ONE finding (F111),
            # wherever the events lie
            sig = 'values=nd_nan;symptom=repeated_consecutive_value' if bad == ['repeated_consecutive_value'] and \
                case['values'] == 'nd_nan' else base + ';symptom=' + bad[0]
            ctx.disagree(sig, case, ob[1:4], model and model[1:], 'result is not well formed: ' + ','.join(bad), spec=want)
        for what, got, wanted in slices:
            if isinstance(got, str):
                ctx.disagree(base + ';symptom=getitem_slice_raises', dict(case, probe_what=what), got, None,
                             '%s raises for an array-valued sensor although every single dump can be looked up' % what, spec=want)
                break
            # (stacking dissolves the KIND of a value - tuples / lists / 0-d arrays become rows / scalars of one array - but
            #  never its shape or elements)
            if [d[1:] for d in got] != [d[1:] for d in wanted]:
                ctx.disagree(base + ';symptom=getitem_slice_differs', dict(case, probe_what=what), got, wanted,
                             '%s differs from the single-dump look-ups' % what, spec=want)
                break
        if len(set(d[1] for d in per)) > 1:
            ctx.count('values:per_dump_values_of_different_shapes')
    ctx.note_case(('sv', case['path'], repr(case['svals']), tuple(case['ts']), tuple(case['ends']), case.get('P', 2),
                   repr(case['init']), repr(case['greedy']), case['ar']),
                  nontrivial=c10.nontrivial(pseudo) or len(set(map(norm, case['svals']))) > 1,
                  sample=dict(case, observed=list(ob[1:4]) if ob[0] == 'ok' else list(ob)) if ctx.rng.random() < 0.002 else None)
    ctx.count('values:%s' % case['path'])
    ctx.count('values:family=%s' % case['values'])
    ctx.count('values:result=%s' % ob[0])
    shapes = [norm(d)[1] for d in case['svals']]
    if any(a != b and set(norm(x)[2]) == set(norm(y)[2]) for a, b, x, y in zip(shapes, shapes[1:], case['svals'], case['svals'][1:])):
        ctx.count('values:consecutive_same_elements_different_shape')


def run_sensors(ctx, cases):
    if not cases or not ctx.model_ok:
        return
    outs = ctx.model([wire_sensor(c) for c in cases])
    for case, mo in zip(cases, outs):
        check_sensor(ctx, case, mo)


SLICE_PROBE = dict(path='values_direct', values='nd_1d', ts=[1, 3], svals=[['nd', [1], [1]], ['nd', [2], [1, 1]]], ends=[0, 2, 4],
                   init=None, greedy=None, ar=None, probe='slice')


def probe_slice(ctx, case):
    """data[:] of an array-valued sensor whose per-dump values have different shapes (finding F112)."""
    from katdal.categorical import sensor_to_categorical
    P = case.get('P', 2)
    ts = np.array([t / 2.0 for t in case['ts']], dtype=float)
    mid = np.array([e / 2.0 - P / 4.0 for e in case['ends']], dtype=float)
    ctx.traces_validated += 1
    try:
        c = sensor_to_categorical(ts, wrap_array(case['svals']), mid, P / 2.0)
        got = [desc_of(v) for v in c[:]]
        want = [desc_of(c[k]) for k in range(len(case['ends']))]
        if got != want:
            ctx.disagree('values=nd_1d;path=values_direct;symptom=getitem_slice_differs', case, got, want,
                         'data[:] differs from the per-dump look-ups')
    except ValueError as e:
        ctx.disagree('values=nd_1d;path=values_direct;symptom=getitem_slice_raises', case, 'ValueError: ' + str(e)[:80], None,
                     'data[:] raises for an array-valued sensor whose values have different shapes')


def run(ctx):
    rng = ctx.rng
    for f in ctx.findings:
        w = f['witness']
        if str(w.get('path', '')).startswith('values_') or w.get('path') == 'pair':
            replay(ctx, dict(w))
            ctx.count('known_finding_witness')
    if not any(f['witness'] == SLICE_PROBE for f in ctx.findings):
        probe_slice(ctx, dict(SLICE_PROBE))
    run_pairs(ctx, ctx.scale(4000, 60000))
    # the seeded scenarios, always
    fixed = [dict(path='values_direct', values='nd_1d', ts=[1, 3, 5, 7], ends=[0, 2, 4, 6, 8], init=None, greedy=None, ar=None,
                  svals=[['nd', [1], [1]], ['nd', [4], [1, 1, 1, 1]], ['nd', [4], [1, 1, 1, 1]], ['nd', [4], [1, 5, 1, 1]]]),
             dict(path='values_direct', values='nd_1d', ts=[1, 3, 5], ends=[0, 2, 4, 6], init=None, greedy=None, ar=None,
                  svals=[['nd', [0], []], ['nd', [2], [3, 4]], ['nd', [0], []]]),
             dict(path='values_cache', values='nd_1d', ts=[1, 3, 5], ends=[0, 2, 4, 6], init=None, greedy=None, ar=None,
                  svals=[['nd', [3], [2, 2, 2]], ['nd', [1], [2]], ['nd', [3], [2, 2, 2]]])]
    run_sensors(ctx, fixed)
    run_sensors(ctx, [gen_sensor_case(rng, 'values_direct') for _ in range(ctx.scale(3000, 60000))])
    run_sensors(ctx, [gen_sensor_case(rng, 'values_cache') for _ in range(ctx.scale(1000, 20000))])


def replay(ctx, case):
    if case.get('probe') == 'slice':
        return probe_slice(ctx, case)
    if case.get('path') == 'pair':
        from katdal.categorical import ComparableArrayWrapper as W
        mo = ctx.model([[104, [to_wire(case['a']), to_wire(case['b'])]]])[0]
        return check_pair(ctx, case['a'], case['b'], mo, W)
    run_sensors(ctx, [case])
