"""Child process of the C08 crash / fault-injection cases: one NpyFileChunkStore.put_chunk_noraise.

argv: store_dir direct(0|1) dtype shape(comma list) seed [uid]
Prints 'RESULT <type of returned object> <type of its __cause__>' (never reached if the process is killed).
"""
import os
import sys

import numpy as np


def make_chunk(dtype, shape, seed):
    n = int(np.prod(shape)) if shape else 1
    x = ((np.arange(n) * 7 + seed) % 251 + 1).astype(dtype)
    return x.reshape(shape)


def main():
    d, direct, dt = sys.argv[1], sys.argv[2] == '1', sys.argv[3]
    shape = tuple(int(x) for x in sys.argv[4].split(',') if x)
    seed = int(sys.argv[5])
    if len(sys.argv) > 6:
        os.setgid(int(sys.argv[6]))
        os.setuid(int(sys.argv[6]))
    from katdal.chunkstore_npy import NpyFileChunkStore
    try:
        s = NpyFileChunkStore(d, direct_write=direct)
    except Exception as e:
        os.write(1, ('CONSTRUCT %s\n' % type(e).__name__).encode())
        return
    x = make_chunk(dt, shape, seed)
    sl = tuple(slice(0, n) for n in shape)
    if os.environ.get('C08_MODE') == 'get':
        for meth in ('get_chunk', 'get_chunk_or_default', 'get_chunk_or_placeholder'):
            try:
                y = getattr(s, meth)('a', sl, x.dtype)
                r = 'array' if isinstance(y, np.ndarray) else type(y).__name__
            except Exception as e:
                r = 'raise:' + type(e).__module__ + '.' + type(e).__qualname__
            os.write(1, ('GET %s %s\n' % (meth, r)).encode())
        return
    try:
        r = s.put_chunk_noraise('a', sl, x)
        os.write(1, ('RESULT returned %s.%s %s\n' % (type(r).__module__, type(r).__qualname__,
                                                   type(r.__cause__).__name__ if r is not None else '-')).encode())
    except BaseException as e:
        os.write(1, ('RESULT raised %s.%s -\n' % (type(e).__module__, type(e).__qualname__)).encode())


if __name__ == '__main__':
    main()
