"""Child process of the C08 crash / fault-injection cases: one NpyFileChunkStore.put_chunk_noraise.

argv: store_dir direct(0|1) dtype shape(comma list) seed [uid]
Prints 'RESULT <type of returned object> <type of its __cause__>' (never reached if the process is killed).

C08_MODE=limits: a sweep of puts under a file-size limit (RLIMIT_FSIZE; CPython ignores SIGXFSZ, so a write that
crosses the limit is cut short and RETURNS the count, a write at the limit fails with EFBIG) -- the way a quota or a
full disk looks to a writer, injected from outside the library.  The plan is JSON on stdin:
{"limits": [[limit, previous_chunk(0|1)], ...], "sep": marker file}; every put is bracketed by
truncate(sep, 2i) / truncate(sep, 2i+1) so that the parent can cut the strace output into puts.  One JSON line
'LIMIT {...}' per put: report, state of the final and temp names, what a fresh reader sees, directory listing.
"""
import os
import sys

import numpy as np


def make_chunk(dtype, shape, seed):
    n = int(np.prod(shape)) if shape else 1
    x = ((np.arange(n) * 7 + seed) % 251 + 1).astype(dtype)
    return x.reshape(shape)


def classify(path, old_bytes, new_bytes):
    if not os.path.isfile(path):
        return ['absent']
    b = open(path, 'rb').read()
    return ['new'] if b == new_bytes else ['old'] if b == old_bytes else ['other', len(b), new_bytes[:len(b)] == b]


def limits_mode(d, direct, dt, shape, seed):
    import json
    import resource
    from katdal.chunkstore import npy_header_and_body
    from katdal.chunkstore_npy import NpyFileChunkStore
    plan = json.loads(sys.stdin.read())
    sep = plan['sep']
    store = NpyFileChunkStore(d, direct_write=direct)
    new, old = make_chunk(dt, shape, seed), make_chunk(dt, shape, seed - 1)
    sl = tuple(slice(0, n) for n in shape)
    enc = lambda x: (lambda h, b: bytes(h) + b.tobytes())(*npy_header_and_body(x))   # noqa: E731
    new_bytes, old_bytes = enc(new), enc(old)
    base = os.path.join(d, 'a', '_'.join('%05d' % 0 for _ in shape))
    tmpn, finaln = base + '.writing.npy', base + '.npy'
    soft, hard = resource.getrlimit(resource.RLIMIT_FSIZE)

    def look():
        try:
            y = NpyFileChunkStore(d).get_chunk('a', sl, new.dtype)
            seen = 'new' if np.array_equal(y, new) else 'old' if np.array_equal(y, old) else 'OTHER'
            if new.size == 0:
                seen = 'array'
        except Exception as e:
            seen = 'raise:' + type(e).__module__ + '.' + type(e).__qualname__
        return seen

    for i, (limit, with_old) in enumerate(plan['limits']):
        for p in os.listdir(os.path.join(d, 'a')):
            os.remove(os.path.join(d, 'a', p))
        if with_old:
            with open(finaln, 'wb') as f:
                f.write(old_bytes)
        os.truncate(sep, 2 * i)
        if limit is not None:
            resource.setrlimit(resource.RLIMIT_FSIZE, (limit, hard))
        try:
            try:
                r = store.put_chunk_noraise('a', sl, new)
                c = r.__cause__ if r is not None else None
                rep = ['returned', type(r).__module__ + '.' + type(r).__qualname__,
                       type(c).__name__ if c is not None else '-', getattr(c, 'errno', None)]
            except BaseException as e:
                rep = ['raised', type(e).__module__ + '.' + type(e).__qualname__, '-', getattr(e, 'errno', None)]
        finally:
            resource.setrlimit(resource.RLIMIT_FSIZE, (soft, hard))
        os.truncate(sep, 2 * i + 1)
        out = dict(i=i, limit=limit, old=with_old, rep=rep, final=classify(finaln, old_bytes, new_bytes),
                   tmp=classify(tmpn, old_bytes, new_bytes), reader=look(), listing=sorted(os.listdir(os.path.join(d, 'a'))))
        os.write(1, ('LIMIT ' + json.dumps(out) + '\n').encode())
    # space is available again: a later put works and is visible
    r = store.put_chunk_noraise('a', sl, new)
    os.write(1, ('AFTER ' + json.dumps(dict(rep=repr(r), reader=look())) + '\n').encode())


def main():
    d, direct, dt = sys.argv[1], sys.argv[2] == '1', sys.argv[3]
    shape = tuple(int(x) for x in sys.argv[4].split(',') if x)
    seed = int(sys.argv[5])
    if len(sys.argv) > 6:
        os.setgid(int(sys.argv[6]))
        os.setuid(int(sys.argv[6]))
    if os.environ.get('C08_MODE') == 'limits':
        return limits_mode(d, direct, dt, shape, seed)
    from katdal.chunkstore_npy import NpyFileChunkStore
    try:
        s = NpyFileChunkStore(d, direct_write=direct)
    except Exception as e:
        os.write(1, ('CONSTRUCT %s\n' % type(e).__name__).encode())
        return
    x = make_chunk(dt, shape, seed)
    sl = tuple(slice(0, n) for n in shape)
    if os.environ.get('C08_MODE') == 'get':
        for meth in ('get_chunk', 'get_chunk_or_default', 'get_chunk_or_placeholder'):
            try:
                y = getattr(s, meth)('a', sl, x.dtype)
                r = 'array' if isinstance(y, np.ndarray) else type(y).__name__
            except Exception as e:
                r = 'raise:' + type(e).__module__ + '.' + type(e).__qualname__
            os.write(1, ('GET %s %s\n' % (meth, r)).encode())
        return
    if os.environ.get('C08_WAIT') == '1':
        # everything is imported: let the parent attach strace now (the start-up is not traced), then go on
        os.write(1, b'READY\n')
        sys.stdin.readline()
    try:
        r = s.put_chunk_noraise('a', sl, x)
        os.write(1, ('RESULT returned %s.%s %s\n' % (type(r).__module__, type(r).__qualname__,
                                                   type(r.__cause__).__name__ if r is not None else '-')).encode())
    except BaseException as e:
        os.write(1, ('RESULT raised %s.%s -\n' % (type(e).__module__, type(e).__qualname__)).encode())


if __name__ == '__main__':
    main()
