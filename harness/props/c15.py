"""C15 — Weights, excision and averaging are reconstructed as documented (correspondence + search).

Every case is an explicit JSON-able configuration (a replay file carries the whole configuration).  Routes:

kernel   katdal.vis_flags_weights.corrprod_to_autocorr + the numba kernel weight_power_scale called directly on one
         block, both directions (divide / multiply), arbitrary weights (0, negative, +-inf, NaN included).
vfw      ChunkStoreVisFlagsWeights over a real NpyFileChunkStore: the four arrays are written with their own random
         chunkings on all axes (baseline axis included, autocorrelations in other chunks than the cross products),
         both scaling declarations, optional Van Vleck correction with a small dyadic lookup table substituted for
         autocorr_lookup_table (so that np.interp is exact); .vis / .weights / .unscaled_weights compared.
v4       full data sets (fixtures.v4.build_v4: telstate + chunk store -> TelstateDataSource -> VisibilityDataV4) with
         need_weights_power_scale set or not, CBF attributes (n_accs, int_time), shuffled bls_ordering, random
         select(): d.weights[...] and d.excision[...] compared.
v3       HDF5 v3 files (fixtures.mkv3) with the weights / weights_channel data sets present or deleted, opened with
         katdal.open; d.weights[:] with the default and the empty weight selection.
vv       correct_autocorr_quantisation with the REAL MeerKAT table on chunked dask arrays: everything except the real
         part of the autocorrelations is compared exactly; the interpolated value within 1 float32 ulp of the model's
         exact rational interpolation on the same float64 table (the only tolerance of the weights part; it concerns
         the tie of np.interp, the property does not fix these values).  The table's monotonicity is checked.
avg      katdal.averager.average_visibilities on generated arrays, all averaging factors 1..size+2, random flag
         patterns incl. fully flagged bins and weights summing to zero; 127..257 baselines, an empty axis, no options.
lookup   corrprod_to_autocorr as called on product lists of every size class (outcome, values, narrowed dtype).
store    ChunkStoreVisFlagsWeights with every option / error branch, deleted chunk files and preselect_index.

Implementation vs extracted Coq model = the tie; implementation vs extracted Coq spec = the property.
"""
import logging
import os
import shutil
import warnings
from fractions import Fraction

os.environ.setdefault('NUMBA_BOUNDSCHECK', '1')    # an index outside a block raises instead of reading garbage
os.environ.setdefault('NUMBA_NUM_THREADS', '2')    # the prange of the averager on two threads (16 oversubscribe a shared machine)

import numpy as np   # noqa: E402

RULE = ('kernel/vfw: 1-4 inputs-pairs lists with autocorrelations at random positions (duplicated autos, cross-pol '
        'products, occasionally a missing auto), autocorrelation powers +-2^e (divide) or small integers (multiply) '
        'with 0, -0, +-inf, NaN at random positions, uint8 weights 0..9, per-channel weights 2^e (rarely 0, negative, '
        'inf, NaN), independent random chunkings of the four stored arrays on all three axes, both scaling '
        'declarations, optional Van Vleck step on a dyadic table; kernel also called without `divide` and with a '
        'caller-supplied `out`; lookup: corrprod_to_autocorr on empty / singleton / small / 255-256-257 / 250-330 / '
        '700-900 product lists (dtype of the narrowed arrays changes), shuffled, duplicated, missing autos; store: the '
        'vfw configurations through every option of ChunkStoreVisFlagsWeights (corrprods None, unscaled without corrprods, '
        'unknown van_vleck, wrong number of corrprods, no option at all, van_vleck without corrprods), 0-3 chunk files of '
        'vis / weights / weights_channel deleted, preselect_index on dumps and channels; v4: the same through '
        'VisibilityDataV4 with CBF attributes (n_accs, dump periods with ratios at and near .5), weights at and around '
        'half-way points of the rounding, random selections, lost chunks, preselect=, declaration key absent, each of the '
        'six CBF attributes deleted or emptied / lite telstate; v3: weights / weights_channel present or absent, weight '
        'selection requests (all, none, names, unknown names, comma strings, lists), first-stage dump mask and a '
        'second-stage index of every form per axis (all, slice with step, integer, sorted list, mask) on one to three axes '
        'with the class "advanced indices on two or three axes with equal counts" generated on purpose (+ two fixed corpus '
        'cases); vv: real table; avg: Gaussian-integer visibilities scaled so that the weighted mean is exact in '
        'complex64, weights 2^e or small integers (also negative, summing to zero), all factors 1..size+2, flag patterns '
        'with empty, partly and fully flagged bins, 127..257 baselines (block boundaries of the kernel), an empty axis, '
        'the call without options; every avg case hands the flags over as a canonical 0/1 bool array, as a bool VIEW of '
        'arbitrary bytes (True backed by 2, 4, 16, 80, 255 ...) or as bitwise_and(select, raw).view(bool) for 11 selection '
        'masks with unselected bits set on unflagged samples; v4avg: average_visibilities(d.vis[:], d.weights[:], '
        'd.flags[:]) on real v4 data sets with stored flag bytes under 12 flag selections (all, single bits, none, '
        'mixtures); vvtable: the real autocorr_lookup_table for 6 level sets (MeerKAT 255 levels, 6 / 4 / 2 bit, 3 level, '
        'offset -128..127) x sizes default, 3..1000 and the refused 1, 2 - exact checks of the table, of the intermediate '
        'grid / expected quantised powers, construction by the model node for node, a dead input through '
        'correct_autocorr_quantisation.  A case is one configuration; non-trivial when it has a cross product with two '
        'different autocorrelations and a special value or a non-unit weight (weights), a lost chunk / preselection / '
        'non-default option (store), a non-zero excision (v4), more than one sample per bin and a flag (avg); distinct by '
        'the whole configuration')
ASSUMPTIONS = ['float32 rounding, overflow and underflow are not modelled: generated values keep every float32 / '
               'complex64 operation exact (checked: a model value that is not a float32 is counted in '
               'coverage.inexact_skipped and not compared)',
               'the sign of zero is not in the carrier (-0.0 is generated; a Coq lemma shows the kernel result does '
               'not depend on it)',
               'Van Vleck with the real table: |impl - exact interpolation| <= 1 ulp of float32 (np.interp rounds in '
               'float64, then complex64 storage rounds once more); the real table and the intermediate arrays of its construction are checked exactly on every run (vv_numerics_ok is a hypothesis of the construction theorems, not proved for the erf numerics)',
               'averager: bins whose exact mean is not a float32 (or whose unweighted fall-back multiplies by the '
               'rounded float32(1/n)) are compared within 2 ulp of float32 per component; all others exactly',
               'averager inputs are finite (NaN / infinite visibilities or weights are outside the model)',
               'v3 second-stage indices are legal ones (in range, non-negative, lists strictly increasing, masks of full '
               'length with at least one True, positive steps); the per-axis application of an index by LazyIndexer itself '
               'is C05\'s subject, C15 checks what the weights transform makes of it end to end',
               'weight selection strings are split at commas and stripped by the harness as _selection_to_list does',
               'preselect_index is a pair of contiguous ranges (TelstateDataSource refuses anything else)',
               'NUMBA_NUM_THREADS=2 (the prange of the averager on two threads), NUMBA_BOUNDSCHECK=1']

warnings.simplefilter('ignore')
logging.disable(logging.CRITICAL)

NEGZERO = [0, 0, -1]     # literal of -0.0 in a configuration (the wire has no signed zero)


# --------------------------------------------------------------------------- literals <-> floats <-> wire
def lit(x):
    """float -> JSON-able literal: [n, k] = n / 2^k, [1] = inf, [-1] = -inf, [] = NaN, [0, 0, -1] = -0.0."""
    x = float(x)
    if x != x:
        return []
    if x == float('inf'):
        return [1]
    if x == float('-inf'):
        return [-1]
    if x == 0 and np.signbit(x):
        return list(NEGZERO)
    fr = Fraction(x)
    return [int(fr.numerator), fr.denominator.bit_length() - 1]


def lit_float(l):
    if len(l) == 0:
        return float('nan')
    if len(l) == 1:
        return float('inf') if l[0] > 0 else float('-inf')
    if len(l) == 3:
        return -0.0
    return float(Fraction(l[0], 1 << l[1]))


def lit_wire(l):
    return [0, 0] if len(l) == 3 else list(l)


def model_val(v):
    """model output -> Fraction | 'nan' | 'inf' | '-inf'"""
    if len(v) == 0:
        return 'nan'
    if len(v) == 1:
        return 'inf' if v[0] > 0 else '-inf'
    return Fraction(v[0], v[1])


def val_wire(mv):
    """model value -> input literal (dyadic rationals only)"""
    if mv == 'nan':
        return []
    if mv == 'inf':
        return [1]
    if mv == '-inf':
        return [-1]
    d = mv.denominator
    if d & (d - 1):
        raise ValueError('not dyadic: %s' % mv)
    return [int(mv.numerator), d.bit_length() - 1]


def big_val(v):
    """wire_154 output -> Fraction | 'nan' | 'inf' | '-inf' (30-bit limbs, least significant first)"""
    if len(v) == 0:
        return 'nan'
    if len(v) == 1:
        return 'inf' if v[0] > 0 else '-inf'

    def big(l):
        return sum(x << (30 * i) for i, x in enumerate(l))
    return Fraction(v[0] * big(v[1]), big(v[2]))


def impl_val(x):
    x = float(x)
    if x != x:
        return 'nan'
    if x == float('inf'):
        return 'inf'
    if x == float('-inf'):
        return '-inf'
    return Fraction(x)


def is_f32(fr):
    """is the rational exactly a (normal) float32?"""
    if fr == 0:
        return True
    d = fr.denominator
    if d & (d - 1):
        return False
    n = abs(fr.numerator)
    n >>= (n & -n).bit_length() - 1
    if n.bit_length() > 24:
        return False
    return Fraction(1, 2 ** 120) < abs(fr) < 2 ** 120


def f32_round(fr):
    """correct rounding (nearest, ties to even) of a rational to float32, computed exactly."""
    if fr == 0:
        return 0.0
    c = np.float32(float(fr))
    cands = [c, np.nextafter(c, np.float32(np.inf), dtype=np.float32), np.nextafter(c, np.float32(-np.inf), dtype=np.float32)]
    best = None
    for v in cands:
        if not np.isfinite(v):
            continue
        dist = abs(Fraction(float(v)) - fr)
        even = (np.float32(v).view(np.uint32) & 1) == 0
        key = (dist, 0 if even else 1)
        if best is None or key < best[0]:
            best = (key, float(v))
    return best[1]


def ulp32(x):
    x = np.float32(abs(float(x)))
    return float(np.nextafter(x, np.float32(np.inf), dtype=np.float32) - x)


def same_val(a, m, ctx=None):
    """a: implementation value (float), m: model value.  None = not comparable (model value not a float32)."""
    if isinstance(m, str):
        return impl_val(a) == m
    if not is_f32(m):
        if ctx is not None:
            ctx.extra['inexact_skipped'] = ctx.extra.get('inexact_skipped', 0) + 1
        return None
    return impl_val(a) == m


def arr_lit(a):
    return np.vectorize(lambda x: None, otypes=[object])(a) if False else [[[lit(x) for x in r] for r in t] for t in a.tolist()]


def cfg_key(cfg):
    import hashlib
    import json
    return hashlib.md5(json.dumps(cfg, sort_keys=True, default=str).encode()).hexdigest()


def compositions(rng, n, maxparts=3):
    if n == 0:
        return []
    k = rng.randint(1, min(maxparts, n))
    cuts = sorted(rng.sample(range(1, n), k - 1)) if k > 1 else []
    return [b - a for a, b in zip([0] + cuts, cuts + [n])]


# --------------------------------------------------------------------------- generators: corrprods and values
def gen_cps(rng, allow_missing=True):
    """labels and index pairs: autos anywhere, cross-pol, duplicates of autos, rarely a missing auto."""
    n_ant = rng.randint(1, 3)
    pols = rng.choice(['h', 'hv', 'hv'])
    labels = ['m%03d%s' % (a, p) for a in range(n_ant) for p in pols]
    rng.shuffle(labels)
    n = len(labels)
    autos = [[i, i] for i in range(n)]
    cross = [[i, j] for i in range(n) for j in range(n) if i != j]
    rng.shuffle(cross)
    cps = autos + cross[:rng.randint(0, min(len(cross), 8))]
    dup = 0
    if rng.random() < 0.25:            # the same autocorrelation listed twice: the LAST one is looked up
        for _ in range(rng.randint(1, 2)):
            cps.append(list(rng.choice(autos)))
            dup += 1
    rng.shuffle(cps)
    missing = False
    if allow_missing and rng.random() < 0.06 and len(cps) > n:
        victim = rng.randrange(n)
        rest = [c for c in cps if c != [victim, victim]]
        if rest:            # an empty product list is outside the domain (np.array([]) is not integral: ValueError)
            cps = rest
            missing = any(victim in c for c in cps)
    return labels, cps, dict(dup=dup, missing=missing)


SPECIALS = [[0, 0], list(NEGZERO), [1], [-1], []]


def gen_auto_value(rng, divide, p_special):
    if rng.random() < p_special:
        return list(rng.choice(SPECIALS))
    if divide:
        return [rng.choice([1, 1, 1, -1]) * (1 << rng.randint(0, 6)), 3]          # +-2^e, e in -3..3
    return [rng.choice([1, 1, 1, -1]) * rng.choice([1, 2, 3, 4, 5, 6, 8, 12]), rng.choice([0, 0, 1])]


def gen_vis(rng, cps, T, F, divide, p_special):
    vis = []
    for _ in range(T):
        row = []
        for _ in range(F):
            cell = []
            for (a, b) in cps:
                if a == b:
                    re = gen_auto_value(rng, divide, p_special)
                    im = [0, 0] if rng.random() < 0.8 else [rng.randint(-8, 8), 0]
                else:
                    re = [rng.randint(-64, 64), 1] if rng.random() > 0.03 else list(rng.choice(SPECIALS))
                    im = [rng.randint(-64, 64), 1] if rng.random() > 0.03 else list(rng.choice(SPECIALS))
                cell.append([re, im])
            row.append(cell)
        vis.append(row)
    return vis


def vis_array(vis):
    return np.array([[[complex(lit_float(c[0]), lit_float(c[1])) for c in cell] for cell in row] for row in vis],
                    np.complex64).reshape(len(vis), len(vis[0]) if vis else 0, -1)


def gen_kernel(rng):
    labels, cps, info = gen_cps(rng)
    T, F = rng.randint(1, 3), rng.randint(1, 4)
    divide = rng.random() < 0.6
    call = rng.choice(['kw', 'kw', 'kw', 'out', 'default'])
    if call == 'default':
        divide = True
    p_special = rng.choice([0, 0.1, 0.3])
    vis = gen_vis(rng, cps, T, F, divide, p_special)
    pw = rng.choice([0, 0.05, 0.2])
    w = [[[list(rng.choice(SPECIALS)) if rng.random() < pw else [rng.randint(-8, 40), rng.choice([0, 1, 2])]
           for _ in cps] for _ in range(F)] for _ in range(T)]
    # how the kernel is called: divide given, divide left out (only generated together with divide=True cases: the
    # model takes the regenerated default), or with a caller-supplied output array
    return dict(route='kernel', labels=labels, cps=cps, T=T, F=F, divide=divide, vis=vis, w=w, call=call)


def gen_table(rng, pow2=False):
    """a small strictly increasing dyadic table with non-decreasing values and power-of-two spacings.
    pow2: the values are 0 or powers of two (so that reciprocals of corrected autocorrelations at the nodes are exact)."""
    n = rng.randint(2, 6)
    xs = [Fraction(0)]
    for _ in range(n - 1):
        xs.append(xs[-1] + Fraction(1 << rng.randint(0, 3), 2))
    if pow2:
        ys = [Fraction(rng.choice([0, 1, 4]), 4)]
        for _ in range(n - 1):
            ys.append(ys[-1] * (1 << rng.randint(0, 2)) if ys[-1] else Fraction(rng.choice([0, 1, 2]), 2))
    else:
        ys = [Fraction(0)]
        for _ in range(n - 1):
            ys.append(ys[-1] + Fraction(rng.choice([0, 1, 2, 2, 4, 8]), 1))
        if rng.random() < 0.5:
            ys = [y + 1 for y in ys]            # interp(0) = 1: autos at or below zero become 1, not 0
    return [[[x.numerator, x.denominator], [y.numerator, y.denominator]] for x, y in zip(xs, ys)]


def gen_vfw(rng, force=None):
    force = force or {}
    labels, cps, info = gen_cps(rng)
    B = len(cps)
    T, F = rng.randint(1, 4), rng.randint(1, 5)
    scaled = force.get('scaled', rng.random() < 0.45)
    p_special = rng.choice([0, 0.08, 0.25])
    table = None
    if rng.random() < 0.3:
        table = gen_table(rng, pow2=not scaled)
    vis = gen_vis(rng, cps, T, F, not scaled, p_special)
    if table is not None:
        # multiply direction: autos on quarter-integers inside / outside the table (np.interp stays exact);
        # divide direction: autos at the nodes or outside, node values are 0 or powers of two
        hi = Fraction(*table[-1][0])
        nodes = [Fraction(*n_[0]) for n_ in table]
        for row in vis:
            for cell in row:
                for (a, b), c in zip(cps, cell):
                    if a == b and len(c[0]) == 2:
                        if scaled:
                            c[0] = [rng.randint(-4, int(hi * 4) + 6), 2]
                        else:
                            x = rng.choice(nodes + [Fraction(-1), hi + 1])
                            c[0] = [int(x * 4), 2]
    weights = [[[rng.randint(0, 9) for _ in cps] for _ in range(F)] for _ in range(T)]
    pwc = rng.choice([0, 0, 0.1])
    wc = [[list(rng.choice(SPECIALS + [[-2, 0]])) if rng.random() < pwc else [1 << rng.randint(0, 4), 2]
           for _ in range(F)] for _ in range(T)]
    chunks = {'correlator_data': [compositions(rng, T), compositions(rng, F), compositions(rng, B)],
              'weights': [compositions(rng, T), compositions(rng, F), compositions(rng, B)],
              'flags': [compositions(rng, T), compositions(rng, F), compositions(rng, B)],
              'weights_channel': [compositions(rng, T), compositions(rng, F)]}
    return dict(route='vfw', labels=labels, cps=cps, T=T, F=F, scaled=scaled, table=table, vis=vis, weights=weights,
                wc=wc, chunks=chunks)


# --------------------------------------------------------------------------- model calls
def wire15(cfg, vis=None, w=None, wc=None, scaled=None, table=None, bchv=None, bchw=None, tch=None, fch=None):
    cps = cfg['cps']
    T, F, B = cfg['T'], cfg['F'], len(cps)
    vis = cfg['vis'] if vis is None else vis
    return [15, [cps, int(scaled), [] if table is None else table,
                 [[[[lit_wire(c[0]), lit_wire(c[1])] for c in cell] for cell in row] for row in vis],
                 bchv or [B], w, bchw or [B], wc, tch or [T], fch or [F]]]


def parse15(mo, T, F, B):
    res = dict(wf=bool(mo[0]), ok=bool(mo[1]))
    res['idx'] = mo[2]
    if res['ok']:
        names = ['vis', 'weights', 'unscaled', 'spec_vis', 'spec_weights', 'spec_unscaled']
        for nm, a in zip(names, mo[3:9]):
            res[nm] = a
    return res


def classify_auto(l):
    if len(l) == 0:
        return 'nan'
    if len(l) == 1:
        return 'inf'
    if len(l) == 3 or l[0] == 0:
        return 'zero'
    return 'finite'


def cell_cause(cfg, vis_lits, t, f, b):
    """classification of the two autocorrelations product b uses (last occurrence), for the signature."""
    cps = cfg['cps']
    kinds = []
    for lab in cps[b]:
        pos = [i for i, c in enumerate(cps) if c == [lab, lab]]
        kinds.append(classify_auto(vis_lits[t][f][pos[-1]][0]) if pos else 'missing')
    order = ['missing', 'nan', 'inf', 'zero', 'finite']
    return min(kinds, key=order.index)


def compare_ext(ctx, cfg, route, obs, impl, mres, vis_lits, decl):
    """impl: float array (T, F, B); mres: parsed model dict.  model = tie, spec = property."""
    ok = True
    for side, key, kind in (('model', obs, 'tie'), ('spec', 'spec_' + obs, 'property')):
        m = mres[key]
        shape = (len(m), len(m[0]) if m else 0, len(m[0][0]) if m and m[0] else 0)
        if tuple(impl.shape) != shape:
            ctx.disagree('route=%s;obs=%s;vs=%s;symptom=shape' % (route, obs, side), cfg, list(impl.shape), list(shape),
                         'shape of %s differs from the %s' % (obs, side), kind=kind)
            ok = False
            continue
        done = False
        for t in range(shape[0]):
            for f in range(shape[1]):
                for b in range(shape[2]):
                    mv = model_val(m[t][f][b])
                    s = same_val(impl[t, f, b], mv, ctx)
                    if s is False and not done:
                        cause = cell_cause(cfg, vis_lits, t, f, b)
                        iv = impl_val(impl[t, f, b])
                        sym = 'zero_weight' if iv == 0 else 'nan_weight' if iv == 'nan' else 'wrong_value'
                        sig = 'route=%s;obs=%s;vs=%s;decl=%s;auto=%s;symptom=%s' % (route, obs, side, decl, cause, sym)
                        ctx.disagree(sig, cfg, dict(at=[t, f, b], value=str(impl[t, f, b])),
                                     dict(at=[t, f, b], value=str(mv)),
                                     '%s[%d,%d,%d] = %s but the %s says %s (autocorrelation class %s, %s stored weights)'
                                     % (obs, t, f, b, impl[t, f, b], side, mv, cause, decl),
                                     spec=str(model_val(mres['spec_' + obs][t][f][b])), kind=kind)
                        done = True
                        ok = False
    return ok


def compare_cx(ctx, cfg, route, impl, mres, tol_autos=None):
    """corrected visibilities, exact on both components (NaN == NaN)."""
    ok = True
    for side, key, kind in (('model', 'vis', 'tie'), ('spec', 'spec_vis', 'property')):
        m = mres[key]
        done = False
        for t in range(len(m)):
            for f in range(len(m[t])):
                for b in range(len(m[t][f])):
                    for comp, val in ((0, impl[t, f, b].real), (1, impl[t, f, b].imag)):
                        s = same_val(val, model_val(m[t][f][b][comp]), ctx)
                        if s is False and not done:
                            auto = cfg['cps'][b][0] == cfg['cps'][b][1]
                            sig = 'route=%s;obs=vis;vs=%s;auto=%s;comp=%s;symptom=wrong_value' % (
                                route, side, auto, 'im' if comp else 're')
                            ctx.disagree(sig, cfg, dict(at=[t, f, b], value=str(impl[t, f, b])),
                                         dict(at=[t, f, b], value=str([str(model_val(x)) for x in m[t][f][b]])),
                                         'Van Vleck corrected vis[%d,%d,%d] differs from the %s' % (t, f, b, side), kind=kind)
                            done = True
                            ok = False
    return ok



# --------------------------------------------------------------------------- batched model calls
# every ctx.model() call starts the extracted model once; the cheap routes ask for all their cases in one go
def _ckey(case):
    import json
    return json.dumps(case, sort_keys=True)


def prefetch(ctx, cases):
    cache = ctx.extra.setdefault('_c15_cache', {})
    todo = [c for c in cases if _ckey(c) not in cache]
    if todo and ctx.model_ok:
        for c, o in zip(todo, ctx.model(todo)):
            cache[_ckey(c)] = o


def cmodel(ctx, case):
    cache = ctx.extra.setdefault('_c15_cache', {})
    k = _ckey(case)
    if k in cache:
        return cache.pop(k)
    return ctx.model([case])[0]


def kernel151_wire(cfg, got):
    wl = [[[lit_wire(x) for x in cell] for cell in row] for row in cfg['w']]
    return [151, [[] if cfg.get('call', 'kw') == 'default' else int(bool(cfg['divide'])), got[0], got[1], got[2],
                  [[[[lit_wire(c[0]), lit_wire(c[1])] for c in cell] for cell in row] for row in cfg['vis']], wl]]


def prefetch_kernel(ctx, cfgs):
    from katdal.vis_flags_weights import corrprod_to_autocorr
    cases = []
    for cfg in cfgs:
        cases.append(kernel_wire(cfg))
        try:
            arrs = corrprod_to_autocorr([(cfg['labels'][a], cfg['labels'][b]) for a, b in cfg['cps']])
            cases.append(kernel151_wire(cfg, [x.tolist() for x in arrs]))
        except Exception:
            pass
    prefetch(ctx, cases)


def prefetch_avg(ctx, cfgs):
    try:
        prefetch(ctx, [avg_wire(c) for c in cfgs] + [avg_api_wire(c) for c in cfgs])
    except Exception:
        if not ctx.searching:
            raise

# --------------------------------------------------------------------------- route kernel
def kernel_wire(cfg):
    T, F = cfg['T'], cfg['F']
    wl = [[[lit_wire(x) for x in cell] for cell in row] for row in cfg['w']]
    one = [[[1, 0] for _ in range(F)] for _ in range(T)]
    return wire15(cfg, w=wl, wc=one, scaled=not cfg['divide'])


def avg_samples(cfg):
    T, F, B = cfg['T'], cfg['F'], cfg['B']
    return [[[[cfg['vis'][t][f][b][0], cfg['vis'][t][f][b][1], cfg['w'][t][f][b], int(cfg['flags'][t][f][b])]
              for b in range(B)] for f in range(F)] for t in range(T)]


def avg_wire(cfg):
    """round-1 wire: per-baseline model + declarative spec of every bin."""
    return [155, [cfg['T'], cfg['F'], cfg['B'], cfg['timeav'], cfg['chanav'], int(cfg['flagav']), avg_samples(cfg)]]


def avg_api_wire(cfg):
    """the function as written (baseline blocks of the regenerated size; () = the regenerated default options).
    With flag BYTES in the case: wire_1513 (the regenerated test on the byte; select >= 0 = the v4 delivery
    bitwise_and(select, raw) viewed as bool)."""
    opts = [] if cfg.get('shape_kind') == 'defaults' else [cfg['timeav'], cfg['chanav'], int(cfg['flagav'])]
    if cfg.get('bytes') is not None:
        T, F, B = cfg['T'], cfg['F'], cfg['B']
        smp = [[[[cfg['vis'][t][f][b][0], cfg['vis'][t][f][b][1], cfg['w'][t][f][b], int(cfg['bytes'][t][f][b])]
                 for b in range(B)] for f in range(F)] for t in range(T)]
        return [1513, [T, F, B, opts, int(cfg.get('select', -1)), smp]]
    return [1510, [cfg['T'], cfg['F'], cfg['B'], opts, avg_samples(cfg)]]


def py_avg(cfg):
    """Python statement of the property for one call (exact rationals), used ONLY as the failing-input search when no
    model binary can be built (a translator item refused the tree): bins of min(timeav, T) x chanav, weighted mean of
    the unflagged samples (plain mean when their weights sum to 0), summed unflagged weights, AND / OR of the flags.
    Returns (wire_155-like, wire_1510-like)."""
    T, F, B = cfg['T'], cfg['F'], cfg['B']
    ta, ca, fa = min(cfg['timeav'], T), cfg['chanav'], cfg['flagav']
    if ta == 0 or ca == 0:
        return [0], [0, [cfg['timeav'], cfg['chanav']]]

    def fr(l):
        return Fraction(l[0], 1 << l[1])

    def cell(q):
        return [int(q.numerator), int(q.denominator)]
    res = []
    for i in range(T // ta):
        row = []
        for j in range(F // ca):
            col = []
            for b in range(B):
                pos = [(t, c) for t in range(i * ta, (i + 1) * ta) for c in range(j * ca, (j + 1) * ca)]
                fl = [bool(cfg['flags'][t][c][b]) for t, c in pos]
                W = sum((fr(cfg['w'][t][c][b]) for (t, c), f in zip(pos, fl) if not f), Fraction(0))
                out = []
                for k in (0, 1):
                    if W == 0:
                        v = sum((fr(cfg['vis'][t][c][b][k]) for t, c in pos), Fraction(0)) / len(pos)
                    else:
                        v = sum((fr(cfg['w'][t][c][b]) * fr(cfg['vis'][t][c][b][k]) for (t, c), f in zip(pos, fl) if not f),
                                Fraction(0)) / W
                    out.append(cell(v))
                col.append(out + [cell(W), int(any(fl) if fa else all(fl))])
            row.append(col)
        res.append(row)
    return [1, res, res], [1, [T // ta, F // ca, B], res, [cfg['timeav'], cfg['chanav']]]


def avg_models(ctx, cfg):
    """(wire_155 answer, wire_1510 / 1513 answer); the Python statement of the property while searching without a model"""
    if ctx.model_ok:
        try:
            return cmodel(ctx, avg_wire(cfg)), cmodel(ctx, avg_api_wire(cfg))
        except Exception:
            if not ctx.searching:
                raise
    elif not ctx.searching:
        raise RuntimeError('no model binary')
    ctx.extra['avg_python_statement_used_for_search'] = True
    return py_avg(cfg)


def cross_check_extraction(ctx):
    """thorough tier: the same wire cases evaluated by vm_compute inside Coq and by the extracted OCaml model."""
    import random
    from vh import core
    rng = random.Random(ctx.rng.getrandbits(48))
    cases = [kernel_wire(gen_kernel(rng)) for _ in range(25)] + [avg_wire(gen_avg(rng)) for _ in range(25)]
    cases += [[152, [4, [2, 1], [1, 2], [[10, 0], [14, 0], [7, 1], [1], []]]],
              [153, [1, 1, 0, [[[3, 0], [1, 1]], [[], [1, 0]]]]],
              [154, [[[[0, 0], [0, 0]], [[2, 0], [1, 0]], [[4, 0], [4, 0]]], [[3, 0], [1], [-1], [], [9, 1]]]]]
    # round-2 wires: lookup, store (lost chunk + preselection), excision API, v3 request / index, averager as written
    cases += [[156, [[[0, 1], [1, 1], [0, 0], [1, 0], [0, 0]]]], [156, [[]]], [156, [[[0, 1], [0, 0]]]],
              [157, [[[[0, 0], [1, 1], [0, 1]]], 0, 0, [], 3,
                     [[[[[2, 0], [0, 0]], [[4, 0], [0, 0]], [[3, 0], [1, 0]]], [[[1, 1], [0, 0]], [[8, 0], [0, 0]], [[5, 0], [0, 0]]]]],
                     [[1], [1, 1], [2, 1]], [[0, 1, 0]],
                     [[[[3, 0], [1, 0], [2, 0]], [[6, 0], [7, 0], [8, 0]]]], [[1], [2], [3]], [],
                     [[[1, 1], [2, 0]]], [[1], [2]], [], [0, 1, 1, 1], [1], [1]]],
              [157, [[], 1, -1, [], 1, [[[[[2, 0], [0, 0]]]]], [[1], [1], [1]], [], [[[[3, 0]]]], [[1], [1], [1]], [],
                     [[[1, 1]]], [[1], [1]], [], [], [1], [1]]],
              [158, [[1, 1, 1, 1, 1, 1], [1, 2], 4, [2, 1], 1, [[8, 0], [3, 0], [1], []]]],
              [158, [[1, 1, 1, 1, 1, 0], [1, 2], 4, [2, 1], 1, [[8, 0]]]],
              [159, [[7], [9, 7], 1, 0, [[[3, 0], [1, 1]], [[], [1, 0]]]]], [159, [[7], [9], 1, 1, [[[3, 0], [1, 1]]]]],
              [1511, [1, 1, 1, [[[[1, 0]], [[2, 0]]], [[[3, 0]], [[4, 0]]]], [[[10, 0], [20, 0]], [[30, 0], [40, 0]]],
                      [0, 1], [1, 0], [0]]]]
    cases += [avg_api_wire(gen_avg(rng)) for _ in range(8)]
    a = ctx.model(cases)
    b = core.run_model_in_coq(cases, 'c15')
    ctx.extra['extraction_cross_checked_cases'] = len(cases)
    for i, (x, y) in enumerate(zip(a, b)):
        if x != y:
            ctx.disagree('route=extraction;symptom=ocaml_differs_from_vm_compute', dict(route='extraction', case=cases[i]),
                         x, y, 'extracted OCaml model and vm_compute inside Coq disagree', kind='tie')
            break


def run_kernel(ctx, cfg):
    from katdal.vis_flags_weights import corrprod_to_autocorr, weight_power_scale
    cps = cfg['cps']
    T, F, B = cfg['T'], cfg['F'], len(cps)
    divide = bool(cfg['divide'])
    wl = [[[lit_wire(x) for x in cell] for cell in row] for row in cfg['w']]
    mo = cmodel(ctx, kernel_wire(cfg))
    if mo == [-999]:
        ctx.disagree('route=kernel;symptom=model_rejects_case', cfg, None, mo, 'wire format error', kind='tie')
        return
    m = parse15(mo, T, F, B)
    names = [(cfg['labels'][a], cfg['labels'][b]) for a, b in cps]
    try:
        ai, i1, i2 = corrprod_to_autocorr(names)
    except KeyError:
        if m['ok']:
            ctx.disagree('route=kernel;symptom=keyerror', cfg, 'KeyError', 'indices', 'corrprod_to_autocorr raised KeyError '
                         'although every input has an autocorrelation')
        ctx.count('kernel_missing_auto')
        ctx.note_case(cfg_key(cfg), nontrivial=False)
        return
    if not m['ok']:
        ctx.disagree('route=kernel;symptom=no_keyerror', cfg, [ai.tolist(), i1.tolist(), i2.tolist()], 'KeyError',
                     'corrprod_to_autocorr answered although an autocorrelation is missing')
        return
    got = [ai.tolist(), i1.tolist(), i2.tolist()]
    if got != m['idx']:
        ctx.disagree('route=kernel;obs=indices;symptom=wrong_lookup', cfg, got, m['idx'],
                     'corrprod_to_autocorr lookup arrays differ from the model', kind='tie')
    # the property on the lookup: the product's autos are the LAST (a, a) / (b, b)
    for k, (a, b) in enumerate(cps):
        for which, lab, idx in ((1, a, i1), (2, b, i2)):
            want = max(i for i, c in enumerate(cps) if c == [lab, lab])
            if int(ai[idx[k]]) != want:
                ctx.disagree('route=kernel;obs=indices;vs=spec;symptom=wrong_auto', cfg, int(ai[idx[k]]), want,
                             'product %d: autocorrelation %d looked up at %d, last (a,a) is at %d' % (k, which, ai[idx[k]], want))
    vis = vis_array(cfg['vis'])
    w = np.array([[[lit_float(x) for x in cell] for cell in row] for row in cfg['w']], np.float32).reshape(T, F, B)
    call = cfg.get('call', 'kw')
    ctx.count('kernel_call=%s' % call)
    with np.errstate(all='ignore'):
        if call == 'default':
            out = weight_power_scale(vis, w, ai, i1, i2)
        elif call == 'out':
            buf = np.full((T, F, B), np.float32(-7.0), np.float32)
            out = weight_power_scale(vis, w, ai, i1, i2, buf, divide)
            if out is not buf and not np.array_equal(out, buf, equal_nan=True):
                ctx.disagree('route=kernel;call=out;symptom=out_not_filled', cfg, 'separate result', 'out filled',
                             'weight_power_scale(out=...) does not fill / return the supplied array')
        else:
            out = weight_power_scale(vis, w, ai, i1, i2, divide=divide)
    obs = 'weights' if divide else 'unscaled'
    # (a call without `divide` is generated together with divide=True: the documented default direction)
    compare_ext(ctx, cfg, 'kernel' if call != 'default' else 'kernel_default_call', obs, out, m, cfg['vis'],
                'unscaled' if divide else 'scaled')
    # the kernel model alone, given the REAL lookup arrays
    mk = cmodel(ctx, kernel151_wire(cfg, got))
    for t in range(T):
        for f in range(F):
            for b in range(B):
                if same_val(out[t, f, b], model_val(mk[t][f][b]), ctx) is False:
                    ctx.disagree('route=kernel;obs=%s;vs=kernel_model;call=%s;symptom=wrong_value' % (obs, call), cfg,
                                 dict(at=[t, f, b], value=str(out[t, f, b])), str(model_val(mk[t][f][b])),
                                 'weight_power_scale differs from the kernel model on the real lookup arrays', kind='tie')
                    break
    ctx.traces_validated += 1
    kinds = {classify_auto(c[0]) for row in cfg['vis'] for cell in row for (ab, c) in zip(cps, cell) if ab[0] == ab[1]}
    ctx.note_case(cfg_key(cfg), nontrivial=bool(any(a != b for a, b in cps)),
                  sample=dict(route='kernel', cps=cps, divide=divide, auto_kinds=sorted(kinds), T=T, F=F))
    ctx.count('route=kernel')
    ctx.count('kernel_divide=%s' % divide)
    for k in kinds:
        ctx.count('auto_kind=%s' % k)


# --------------------------------------------------------------------------- route vfw
DTYPES = {'correlator_data': np.complex64, 'flags': np.uint8, 'weights': np.uint8, 'weights_channel': np.float32}


def build_store(cfg, tmp):
    from fixtures import v4
    from katdal.chunkstore_npy import NpyFileChunkStore
    cps = cfg['cps']
    T, F, B = cfg['T'], cfg['F'], len(cps)
    store = NpyFileChunkStore(tmp)
    arrays = {'correlator_data': vis_array(cfg['vis']).reshape(T, F, B),
              'flags': np.zeros((T, F, B), np.uint8),
              'weights': np.array(cfg['weights'], np.uint8).reshape(T, F, B),
              'weights_channel': np.array([[lit_float(x) for x in row] for row in cfg['wc']], np.float32).reshape(T, F)}
    info = {}
    for name, a in arrays.items():
        ch = tuple(tuple(c) for c in cfg['chunks'][name])
        info[name] = v4.put_array(store, 'cb-sdp-l0', name, a, ch)
    return store, info, arrays


def table_arrays(table):
    xs = np.array([float(Fraction(*n[0])) for n in table])
    ys = np.array([float(Fraction(*n[1])) for n in table])
    return xs, ys


def run_vfw(ctx, cfg):
    import dask
    from unittest import mock
    from fixtures import v4
    from katdal.vis_flags_weights import ChunkStoreVisFlagsWeights
    cps = cfg['cps']
    T, F, B = cfg['T'], cfg['F'], len(cps)
    scaled = bool(cfg['scaled'])
    table = cfg.get('table')
    wl = [[[[w, 0] for w in cell] for cell in row] for row in cfg['weights']]
    wcl = [[lit_wire(x) for x in row] for row in cfg['wc']]
    ch = cfg['chunks']
    mo = ctx.model([wire15(cfg, w=wl, wc=wcl, scaled=scaled, table=table, bchv=ch['correlator_data'][2],
                           bchw=ch['weights'][2], tch=ch['correlator_data'][0], fch=ch['correlator_data'][1])])[0]
    if mo == [-999]:
        ctx.disagree('route=vfw;symptom=model_rejects_case', cfg, None, mo, 'wire format error', kind='tie')
        return
    m = parse15(mo, T, F, B)
    if not m['wf']:
        ctx.disagree('route=vfw;symptom=generator_not_wellformed', cfg, None, mo[:2], 'generated case is not well-formed', kind='tie')
        return
    names = [(cfg['labels'][a], cfg['labels'][b]) for a, b in cps]
    tmp = v4.scratch_dir('c15')
    try:
        store, info, arrays = build_store(cfg, tmp)
        try:
            with dask.config.set(scheduler='sync'), np.errstate(all='ignore'):
                if table is not None:
                    xs, ys = table_arrays(table)
                    with mock.patch('katdal.vis_flags_weights.autocorr_lookup_table', lambda levels, size=4000: (xs, ys)):
                        vfw = ChunkStoreVisFlagsWeights(store, info, corrprods=names, stored_weights_are_scaled=scaled,
                                                        van_vleck='autocorr')
                        vis, wts, uns = vfw.vis.compute(), vfw.weights.compute(), vfw.unscaled_weights.compute()
                else:
                    vfw = ChunkStoreVisFlagsWeights(store, info, corrprods=names, stored_weights_are_scaled=scaled)
                    vis, wts, uns = vfw.vis.compute(), vfw.weights.compute(), vfw.unscaled_weights.compute()
        except KeyError as e:
            if m['ok']:
                ctx.disagree('route=vfw;symptom=keyerror', cfg, repr(e), 'arrays', 'KeyError although every input has an autocorrelation')
            ctx.count('vfw_missing_auto')
            ctx.note_case(cfg_key(cfg), nontrivial=False)
            return
        except Exception as e:
            ctx.disagree('route=vfw;symptom=raises;exc=%s' % type(e).__name__, cfg, repr(e)[:300], 'arrays',
                         'ChunkStoreVisFlagsWeights raised on a well-formed store')
            return
    finally:
        shutil.rmtree(tmp, ignore_errors=True)
    if not m['ok']:
        ctx.disagree('route=vfw;symptom=no_keyerror', cfg, 'arrays', 'KeyError', 'answered although an autocorrelation is missing')
        return
    decl = 'scaled' if scaled else 'unscaled'
    # the autocorrelation classes for the signature are those of the (Van Vleck corrected) visibilities
    vis_l = [[[[lit(c.real), lit(c.imag)] for c in cell] for cell in row] for row in vis]
    compare_ext(ctx, cfg, 'vfw', 'weights', wts, m, vis_l, decl)
    compare_ext(ctx, cfg, 'vfw', 'unscaled', uns, m, vis_l, decl)
    compare_cx(ctx, cfg, 'vfw', vis, m)
    ctx.traces_validated += 1
    kinds = {classify_auto(c[0]) for row in vis_l for cell in row for (ab, c) in zip(cps, cell) if ab[0] == ab[1]}
    multi_b = len(ch['correlator_data'][2]) > 1 or len(ch['weights'][2]) > 1
    ctx.note_case(cfg_key(cfg), nontrivial=bool(any(a != b for a, b in cps)),
                  sample=dict(route='vfw', cps=cps, scaled=scaled, van_vleck=table is not None, chunks=ch,
                              auto_kinds=sorted(kinds)))
    ctx.count('route=vfw')
    ctx.count('vfw_decl=%s' % decl)
    ctx.count('vfw_van_vleck=%s' % (table is not None))
    ctx.count('vfw_baseline_chunks>1=%s' % multi_b)
    for k in kinds:
        ctx.count('auto_kind=%s' % k)



# --------------------------------------------------------------------------- route lookup (corrprod_to_autocorr as called)
ERR_NAMES = {1: 'KeyError', 2: 'ValueError', 3: 'TypeError', 4: 'AssertionError'}


def gen_lookup(rng):
    """product lists of every size class: empty, singleton, a few, and > 255 / > 65535-index lists (the narrowed
    dtype changes), duplicated autos, unsorted, occasionally a missing auto."""
    kind = rng.choice(['empty', 'single', 'small', 'small', 'u16', 'u16', 'u16edge', 'big'])
    if kind == 'empty':
        return dict(route='lookup', kind=kind, n_labels=0, cps=[])
    if kind == 'single':
        return dict(route='lookup', kind=kind, n_labels=2, cps=[rng.choice([[0, 0], [0, 1]])])
    if kind == 'small':
        labels, cps, info = gen_cps(rng)
        return dict(route='lookup', kind=kind, n_labels=len(labels), cps=cps)
    n = {'u16': rng.randint(250, 330), 'u16edge': rng.choice([255, 256, 257]), 'big': rng.randint(700, 900)}[kind]
    autos = [[i, i] for i in range(n)]
    cross = [[rng.randrange(n), rng.randrange(n)] for _ in range(rng.randint(0, 40))]
    cps = autos + cross + [list(rng.choice(autos)) for _ in range(rng.randint(0, 3))]
    if kind != 'u16edge' or rng.random() < 0.5:
        rng.shuffle(cps)
    if rng.random() < 0.1:
        victim = rng.randrange(n)
        cps = [c for c in cps if c != [victim, victim]]
    return dict(route='lookup', kind=kind, n_labels=n, cps=cps)


def run_lookup(ctx, cfg):
    from katdal.vis_flags_weights import corrprod_to_autocorr
    cps = cfg['cps']
    names = [('m%04dh' % a, 'm%04dh' % b) for a, b in cps]
    mo = ctx.model([[156, [cps]]])[0]
    if mo == [-999]:
        ctx.disagree('route=lookup;symptom=model_rejects_case', cfg, None, mo, 'wire format error', kind='tie')
        return
    want_err = ERR_NAMES[mo[1]] if mo[0] == 0 else None
    try:
        arrs = corrprod_to_autocorr(names)
        got_err = None
    except (KeyError, ValueError, TypeError, AssertionError) as e:
        got_err = type(e).__name__
    ctx.count('route=lookup')
    ctx.count('lookup_kind=%s' % cfg['kind'])
    ctx.count('lookup_outcome=%s' % (got_err or 'arrays'))
    ctx.traces_validated += 1
    ctx.note_case(cfg_key(cfg), nontrivial=got_err is None and len(cps) > 1,
                  sample=dict(route='lookup', kind=cfg['kind'], n=len(cps), outcome=got_err or 'arrays'))
    # the property: an answer only when every input has its autocorrelation, and then the LAST (a, a)
    missing = any([x, x] not in cps for c in cps for x in c)
    if got_err is None and (missing or not cps):
        ctx.disagree('route=lookup;symptom=answers_without_auto', cfg, 'arrays', 'error',
                     'corrprod_to_autocorr answered although an autocorrelation is missing / the list is empty')
        return
    if got_err != want_err:
        ctx.disagree('route=lookup;symptom=outcome;impl=%s;model=%s' % (got_err or 'arrays', want_err or 'arrays'), cfg,
                     got_err or 'arrays', want_err or 'arrays', 'corrprod_to_autocorr: outcome differs from the model', kind='tie')
        return
    if got_err is not None:
        return
    last = {}
    for i, c in enumerate(cps):
        if c[0] == c[1]:
            last[c[0]] = i
    ai = [int(x) for x in arrs[0]]
    for which, arr in ((0, arrs[1]), (1, arrs[2])):
        for k, c in enumerate(cps):
            idx = int(arr[k])
            if not (0 <= idx < len(ai)) or ai[idx] != last[c[which]]:
                ctx.disagree('route=lookup;obs=index%d;vs=spec;size=%s;symptom=wrong_auto' % (which + 1, cfg['kind']), cfg,
                             dict(k=k, index=idx, auto=ai[idx] if 0 <= idx < len(ai) else None), last[c[which]],
                             'product %d: autocorrelation of input %d looked up at the wrong position' % (k, which + 1))
                return
    for nm, arr, m in zip(('auto_indices', 'index1', 'index2'), arrs, mo[1:]):
        bits, vals = m
        if [int(x) for x in arr] != vals:
            ctx.disagree('route=lookup;obs=%s;vs=model;size=%s;symptom=wrong_values' % (nm, cfg['kind']), cfg,
                         [int(x) for x in arr][:20], vals[:20], '%s differs from the model' % nm, kind='tie')
            return
        got_bits = arr.dtype.itemsize * 8 if arr.dtype.kind == 'u' else 0
        if got_bits != bits:
            ctx.disagree('route=lookup;obs=%s;symptom=dtype' % nm, cfg, str(arr.dtype), bits,
                         '%s: dtype differs from the model of _narrow' % nm, kind='tie')
            return


# --------------------------------------------------------------------------- route store (constructor options, lost chunks, preselection)
def gen_store(rng, force=None):
    cfg = gen_vfw(rng, force)
    cfg['route'] = 'store'
    T, F, B = cfg['T'], cfg['F'], len(cfg['cps'])
    r = rng.random()
    cfg['mode'] = ('normal' if r < 0.72 else 'none' if r < 0.80 else 'none_unscaled' if r < 0.83 else 'badvv' if r < 0.87
                   else 'wronglen' if r < 0.91 else 'default' if r < 0.95 else 'vv_none')
    if cfg['mode'] in ('none', 'default'):
        cfg['scaled'] = True
        cfg['table'] = None
    if cfg['mode'] == 'none_unscaled':
        cfg['scaled'] = False
        cfg['table'] = None
    lost = {'correlator_data': [], 'weights': [], 'weights_channel': []}
    if rng.random() < 0.55:
        for _ in range(rng.randint(1, 3)):
            nm = rng.choice(['correlator_data', 'correlator_data', 'weights', 'weights_channel'])
            idx = [rng.randrange(len(c)) for c in cfg['chunks'][nm]]
            if idx not in lost[nm]:
                lost[nm].append(idx)
    cfg['lost'] = lost
    cfg['presel'] = None
    if rng.random() < 0.35:
        t0 = rng.randrange(T)
        f0 = rng.randrange(F)
        cfg['presel'] = [t0, rng.randint(1, T - t0), f0, rng.randint(1, F - f0)]
        cfg['presel_open'] = [rng.random() < 0.3, rng.random() < 0.3]     # slice(None, stop) / slice(start, None) spelling
    return cfg


def _lose_chunks(tmp, cfg, info):
    for nm, idxs in cfg['lost'].items():
        for idx in idxs:
            starts = [int(sum(c[:i])) for c, i in zip(info[nm]['chunks'], idx)]
            fn = os.path.join(tmp, info[nm]['prefix'], nm, '_'.join('%05d' % s_ for s_ in starts) + '.npy')
            if os.path.exists(fn):
                os.remove(fn)


def run_store(ctx, cfg):
    import dask
    from unittest import mock
    from fixtures import v4
    from katdal.vis_flags_weights import ChunkStoreVisFlagsWeights
    cps = cfg['cps']
    T, F, B = cfg['T'], cfg['F'], len(cps)
    mode = cfg['mode']
    scaled = bool(cfg['scaled'])
    table = cfg.get('table')
    names = [(cfg['labels'][a], cfg['labels'][b]) for a, b in cps]
    mcps = cps
    kw = dict(corrprods=names, stored_weights_are_scaled=scaled)
    vvcode = 0
    if table is not None:
        kw['van_vleck'] = 'autocorr'
        vvcode = 1
    if mode in ('none', 'none_unscaled'):
        kw['corrprods'] = None
    elif mode == 'badvv':
        kw['van_vleck'] = 'auto'
        vvcode = 2
    elif mode == 'wronglen':
        mcps = cps[:-1] if len(cps) > 1 and cfg['T'] % 2 else cps + [cps[0]]
        kw['corrprods'] = [(cfg['labels'][a], cfg['labels'][b]) for a, b in mcps]
    elif mode == 'default':
        kw = {}
        vvcode = -1
    elif mode == 'vv_none':
        kw = dict(corrprods=None, stored_weights_are_scaled=scaled, van_vleck='autocorr')
        vvcode = 1
        if table is None:
            table = cfg['table'] = None
    pre = cfg.get('presel')
    if pre is not None:
        t0, tn, f0, fn = pre
        op = cfg.get('presel_open', [False, False])
        kw['preselect_index'] = (slice(None if (op[0] and t0 == 0) else t0, None if (op[1] and t0 + tn == T) else t0 + tn),
                                 slice(f0, f0 + fn))
        T2, F2 = tn, fn
    else:
        T2, F2 = T, F
    tmp = v4.scratch_dir('c15s')
    got_err = None
    vis = wts = uns = None
    rch = None
    try:
        store, info, arrays = build_store(cfg, tmp)
        _lose_chunks(tmp, cfg, info)
        try:
            with dask.config.set(scheduler='sync'), np.errstate(all='ignore'):
                if kw.get('van_vleck') == 'autocorr' and table is not None:
                    xs, ys = table_arrays(table)
                    with mock.patch('katdal.vis_flags_weights.autocorr_lookup_table', lambda levels, size=4000: (xs, ys)):
                        vfw = ChunkStoreVisFlagsWeights(store, info, **kw)
                        vis, wts = vfw.vis.compute(), vfw.weights.compute()
                        uns = None if vfw.unscaled_weights is None else vfw.unscaled_weights.compute()
                else:
                    vfw = ChunkStoreVisFlagsWeights(store, info, **kw)
                    vis, wts = vfw.vis.compute(), vfw.weights.compute()
                    uns = None if vfw.unscaled_weights is None else vfw.unscaled_weights.compute()
                rch = [list(vfw.vis.chunks[0]), list(vfw.vis.chunks[1])]
        except (KeyError, ValueError, TypeError, AssertionError) as e:
            got_err = type(e).__name__
        except Exception as e:
            ctx.disagree('route=store;mode=%s;symptom=raises;exc=%s' % (mode, type(e).__name__), cfg, repr(e)[:300], 'arrays or one of '
                         'the four modelled exceptions', 'ChunkStoreVisFlagsWeights raised an unmodelled exception')
            return
    finally:
        shutil.rmtree(tmp, ignore_errors=True)
    ch = cfg['chunks']
    wl = [[[[w, 0] for w in cell] for cell in row] for row in cfg['weights']]
    wcl = [[lit_wire(x) for x in row] for row in cfg['wc']]
    visl = [[[[lit_wire(c[0]), lit_wire(c[1])] for c in cell] for cell in row] for row in cfg['vis']]
    lost = cfg['lost']
    payload = [[] if (mode in ('none', 'none_unscaled', 'vv_none', 'default')) else [mcps], int(scaled), vvcode,
               [] if table is None else table, B, visl, ch['correlator_data'], lost['correlator_data'],
               wl, ch['weights'], lost['weights'], wcl, ch['weights_channel'], lost['weights_channel'],
               [] if pre is None else pre, rch[0] if rch else [T2], rch[1] if rch else [F2]]
    mo = ctx.model([[157, payload]])[0]
    if mo == [-999]:
        ctx.disagree('route=store;symptom=model_rejects_case', cfg, None, mo, 'wire format error', kind='tie')
        return
    want_err = ERR_NAMES[mo[1]] if mo[0] == 0 else None
    ctx.count('route=store')
    ctx.count('store_mode=%s' % mode)
    ctx.count('store_outcome=%s' % (got_err or 'arrays'))
    ctx.count('store_lost_chunks=%d' % sum(len(v) for v in lost.values()))
    ctx.count('store_preselect=%s' % (pre is not None))
    ctx.traces_validated += 1
    n_lost = sum(len(v) for v in lost.values())
    ctx.note_case(cfg_key(cfg), nontrivial=bool(got_err is None and (n_lost or pre is not None or mode != 'normal')),
                  sample=dict(route='store', mode=mode, scaled=scaled, van_vleck=table is not None, lost=lost, presel=pre,
                              outcome=got_err or 'arrays'))
    if got_err != want_err:
        # the property only demands: no ANSWER where the model has none (an answer with data is compared below)
        kind = 'property' if got_err is None else 'tie'
        ctx.disagree('route=store;mode=%s;symptom=outcome;impl=%s;model=%s' % (mode, got_err or 'arrays', want_err or 'arrays'),
                     cfg, got_err or 'arrays', want_err or 'arrays',
                     'ChunkStoreVisFlagsWeights(%s): outcome differs from the model' % ', '.join(sorted(kw)), kind=kind)
        return
    if got_err is not None:
        return
    if tuple(vis.shape) != (T2, F2, B) or tuple(wts.shape) != (T2, F2, B):
        ctx.disagree('route=store;symptom=shape', cfg, list(vis.shape), [T2, F2, B], 'shape of vis / weights (preselection)')
        return
    m = dict(ok=True, vis=mo[1], weights=mo[2])
    has_spec = len(mo) > 4
    decl = 'scaled' if scaled else 'unscaled'
    tag = 'store'
    if (mo[3] == []) != (uns is None):
        ctx.disagree('route=store;mode=%s;obs=unscaled;symptom=presence' % mode, cfg, uns is not None, mo[3] != [],
                     'unscaled_weights is None / not None against the model')
        return
    scfg = dict(cfg, cps=mcps)
    vis_l = [[[[lit(c.real), lit(c.imag)] for c in cell] for cell in row] for row in vis]
    if has_spec:
        m.update(unscaled=mo[3], spec_vis=mo[4], spec_weights=mo[5], spec_unscaled=mo[6])
        lostsig = 'lost=%s' % ('+'.join(sorted(k[:3] for k, v in lost.items() if v)) or 'none')
        r1 = _compare_ext_tagged(ctx, scfg, tag, 'weights', wts, m, vis_l, decl, lostsig, pre is not None)
        r2 = _compare_ext_tagged(ctx, scfg, tag, 'unscaled', uns, m, vis_l, decl, lostsig, pre is not None)
        compare_cx(ctx, scfg, tag, vis, m)
    else:
        # no corrprods: weights = stored product (model only; theorem ctor_without_corrprods), vis untouched
        m2 = dict(m, spec_weights=mo[2], spec_vis=mo[1])
        _compare_ext_tagged(ctx, scfg, tag, 'weights', wts, m2, vis_l, decl, 'nocorrprods', pre is not None)
        compare_cx(ctx, scfg, tag, vis, m2)


def _compare_ext_tagged(ctx, cfg, route, obs, impl, mres, vis_lits, decl, extra, presel):
    """compare_ext with the loss / preselection class in the signature."""
    ok = True
    for side, key, kind in (('model', obs, 'tie'), ('spec', 'spec_' + obs, 'property')):
        m = mres[key]
        shape = (len(m), len(m[0]) if m else 0, len(m[0][0]) if m and m[0] else 0)
        if tuple(impl.shape) != shape:
            ctx.disagree('route=%s;obs=%s;vs=%s;symptom=shape' % (route, obs, side), cfg, list(impl.shape), list(shape),
                         'shape of %s differs from the %s' % (obs, side), kind=kind)
            return False
        for t in range(shape[0]):
            for f in range(shape[1]):
                for b in range(shape[2]):
                    mv = model_val(m[t][f][b])
                    if same_val(impl[t, f, b], mv, ctx) is False:
                        iv = impl_val(impl[t, f, b])
                        sym = 'zero_weight' if iv == 0 else 'nan_weight' if iv == 'nan' else 'wrong_value'
                        sig = 'route=%s;obs=%s;vs=%s;decl=%s;%s;presel=%s;symptom=%s' % (route, obs, side, decl, extra, presel, sym)
                        ctx.disagree(sig, cfg, dict(at=[t, f, b], value=str(impl[t, f, b])), dict(at=[t, f, b], value=str(mv)),
                                     '%s[%d,%d,%d] = %s but the %s says %s (%s stored weights, %s)'
                                     % (obs, t, f, b, impl[t, f, b], side, mv, decl, extra), kind=kind)
                        return False
    return ok

# --------------------------------------------------------------------------- route v4
RATIOS = [(2.0, 0.5), (2.0, 1.0), (2.0, 2.0), (2.5, 1.0), (3.5, 1.0), (2.0, 0.75), (4.0, 1.5), (1.0, 0.25), (4.5, 1.0)]


def gen_v4(rng):
    n_ant = rng.randint(1, 2)
    ants = ['m%03d' % a for a in range(n_ant)]
    T, F = rng.randint(2, 5), rng.randint(1, 5)
    B = 2 * n_ant * (n_ant + 1)
    need = rng.random() < 0.55                    # need_weights_power_scale: stored weights are unscaled
    dp, cdp = rng.choice(RATIOS)
    n_accs = rng.choice([1, 2, 4, 8, 16, 16, 3, 5, 12])
    seed = rng.randrange(10 ** 6)
    p_special = rng.choice([0, 0, 0.1])
    k = round(dp / cdp)
    A = n_accs * k
    # stored weights: integers 0..255, per-channel weight 1, 1/2 or 1/4: unscaled weights land on and around the
    # half-way points of round(w / n_accs)
    weights = [[[rng.choice([0, A, A, rng.randint(0, min(255, A + n_accs)), min(255, rng.randint(0, A) // max(1, n_accs) * n_accs + n_accs // 2)])
                 for _ in range(B)] for _ in range(F)] for _ in range(T)]
    wc = [[[rng.choice([4, 4, 2, 1]), 2] for _ in range(F)] for _ in range(T)]
    sel = {}
    if rng.random() < 0.5:
        a = rng.randrange(T)
        sel['dumps'] = [a, rng.randint(a + 1, T)]
    if rng.random() < 0.5:
        a = rng.randrange(F)
        sel['channels'] = [a, rng.randint(a + 1, F)]
    r = rng.random()
    if r < 0.25:
        sel['corrprods'] = rng.choice(['cross', 'auto']) if n_ant > 1 else 'auto'
    elif r < 0.45:
        sel['pol'] = rng.choice(['hh', 'vv', 'hv', 'vh'])
    elif r < 0.55 and n_ant > 1:
        sel['ants'] = [rng.choice(ants)]
    B_ = 2 * n_ant * (n_ant + 1)
    drop = None
    if rng.random() < 0.22:
        drop = rng.choice(['lite', 'src_streams', 'empty_src', 'int_time', 'n_accs', 'corr_src_streams', 'empty_corr_src',
                           'instrument_dev_name', 'scale_factor_timestamp'])
    chunks_ = [compositions(rng, T), compositions(rng, F), compositions(rng, B_)]
    wchunks_ = [compositions(rng, T), compositions(rng, F), compositions(rng, B_)]
    lose = []
    if rng.random() < 0.3:
        for _ in range(rng.randint(1, 2)):
            nm = rng.choice(['correlator_data', 'weights'])
            chs = chunks_ if nm == 'correlator_data' else wchunks_
            it = [nm, [rng.randrange(len(c)) for c in chs]]
            if it not in lose:
                lose.append(it)
    presel = None
    if rng.random() < 0.25:
        t0 = rng.randrange(T)
        f0 = rng.randrange(F)
        presel = [t0, rng.randint(1, T - t0), f0, rng.randint(1, F - f0)]
    cfg = dict(route='v4', ants=ants, T=T, F=F, need=need, dp=dp, cdp=cdp, n_accs=n_accs, seed=seed,
               drop_attr=drop, lose=lose, presel=presel,
               decl_absent=(not need) and rng.random() < 0.4,      # no need_weights_power_scale key at all = scaled

               shuffle_bls=rng.random() < 0.6, weights=weights, wc=wc, select=sel,
               chunks=chunks_, wchunks=wchunks_,
               index=[rng.choice([None, 2]), rng.choice([None, 2])])
    # visibilities: generated with the shuffled order known -> build order here
    bls = v4_bls(cfg)
    labels = sorted({x for cp in bls for x in cp})
    cps = [[labels.index(a), labels.index(b)] for a, b in bls]
    cfg['vis'] = gen_vis(rng, cps, T, F, need, p_special)
    return cfg



def _presel_dict(pre):
    t0, tn, f0, fn = pre
    return dict(dumps=slice(t0, t0 + tn), channels=slice(f0, f0 + fn))


def _drop_hook(drop, decl_absent=False):
    """telstate hook deleting (or emptying) one of the attributes _cbf_attrs needs / the weight-scaling declaration."""
    if drop in (None, 'lite') and not decl_absent:
        return None
    keys = {'int_time': 'corr_int_time', 'n_accs': 'corr_n_accs', 'corr_src_streams': 'corr_src_streams',
            'empty_corr_src': 'corr_src_streams', 'instrument_dev_name': 'feng_instrument_dev_name',
            'scale_factor_timestamp': 'i0_scale_factor_timestamp'}

    def hook(ts, cbid, stream):
        if decl_absent:
            ts.delete(ts.join(stream, 'need_weights_power_scale'))
        if drop in (None, 'lite'):
            return
        key = ts.join(stream, 'src_streams') if drop in ('src_streams', 'empty_src') else keys[drop]
        ts.delete(key)
        if drop in ('empty_src', 'empty_corr_src'):
            ts[key] = []
    return hook


def v4_bls(cfg):
    import random
    from fixtures import v4
    bls = v4.bls_ordering_for(cfg['ants'])
    if cfg.get('shuffle_bls'):
        random.Random(cfg['seed']).shuffle(bls)
    return bls


def run_v4(ctx, cfg):
    import dask
    from fixtures import v4
    T, F = cfg['T'], cfg['F']
    bls = v4_bls(cfg)
    B = len(bls)
    labels = sorted({x for cp in bls for x in cp})
    cps = [[labels.index(a), labels.index(b)] for a, b in bls]
    mcfg = dict(cfg, cps=cps, labels=labels)
    scaled = not cfg['need']
    wl = [[[[w, 0] for w in cell] for cell in row] for row in cfg['weights']]
    wcl = [[lit_wire(x) for x in row] for row in cfg['wc']]
    pre = cfg.get('presel')
    lose = cfg.get('lose') or []
    drop = cfg.get('drop_attr')
    T2, F2 = (pre[1], pre[3]) if pre else (T, F)
    visl = [[[[lit_wire(c[0]), lit_wire(c[1])] for c in cell] for cell in row] for row in cfg['vis']]
    payload = [[cps], int(scaled), 0, [], B, visl, cfg['chunks'], [i for (nm, i) in lose if nm == 'correlator_data'],
               wl, cfg['wchunks'], [i for (nm, i) in lose if nm == 'weights'], wcl, [[T], [F]], [],
               [] if pre is None else pre, [T2], [F2]]
    mo = ctx.model([[157, payload]])[0]
    if mo == [-999] or mo[0] != 1 or len(mo) < 7:
        ctx.disagree('route=v4;symptom=generator_not_wellformed', cfg, None, mo[:2], 'generated case is not well-formed / wire error', kind='tie')
        return
    m = dict(ok=True, vis=mo[1], weights=mo[2], unscaled=mo[3], spec_vis=mo[4], spec_weights=mo[5], spec_unscaled=mo[6])
    arrays = {'correlator_data': vis_array(cfg['vis']).reshape(T, F, B),
              'weights': np.array(cfg['weights'], np.uint8).reshape(T, F, B),
              'weights_channel': np.array([[lit_float(x) for x in row] for row in cfg['wc']], np.float32).reshape(T, F)}
    x = None
    try:
        try:
            with dask.config.set(scheduler='sync'), np.errstate(all='ignore'):
                x = v4.build_v4(T=T, F=F, ants=cfg['ants'], seed=cfg['seed'], arrays=arrays, bls_ordering=bls,
                                chunks={'correlator_data': tuple(tuple(c) for c in cfg['chunks']),
                                        'weights': tuple(tuple(c) for c in cfg['wchunks'])},
                                need_weights_power_scale=cfg['need'], int_time=cfg['dp'],
                                cbf=None if drop == 'lite' else (cfg['cdp'], cfg['n_accs'], 1712e6), tmp=v4.scratch_dir('c15'),
                                lose=[('sdp_l0', nm, tuple(i)) for (nm, i) in lose],
                                telstate_hook=_drop_hook(drop, cfg.get('decl_absent')),
                                source_kwargs=None if pre is None else dict(preselect=_presel_dict(pre)),
                                open_kwargs=None if pre is None else dict(preselect=_presel_dict(pre)))
                d = x.d
                kw = {}
                sel = cfg.get('select', {})
                if 'dumps' in sel:
                    kw['dumps'] = slice(*sel['dumps'])
                if 'channels' in sel:
                    kw['channels'] = slice(*sel['channels'])
                for k_ in ('ants', 'pol', 'corrprods'):
                    if k_ in sel:
                        kw[k_] = sel[k_]
                d.select(**kw)
                s1, s2 = [slice(None) if s is None else slice(None, None, s) for s in cfg.get('index', [None, None])]
                ti = list(np.nonzero(d._time_keep)[0][s1])
                fi = list(np.nonzero(d._freq_keep)[0][s2])
                bi = list(np.nonzero(d._corrprod_keep)[0])
                wts = d.weights[s1, s2]
                apd = d.accumulations_per_dump
                try:
                    exc = d.excision[s1, s2]
                    exc_err = None
                except ValueError:
                    exc, exc_err = None, 'ValueError'
        except Exception as e:
            ctx.disagree('route=v4;symptom=raises;exc=%s' % type(e).__name__, cfg, repr(e)[:300], 'a result',
                         'opening / reading weights or excision of a v4 data set raised')
            return
    finally:
        if x is not None:
            v4.cleanup(x)

    def sub(a):
        return [[[a[t][f][b] for b in bi] for f in fi] for t in ti]
    msel = dict(m)
    for key in ('weights', 'unscaled', 'spec_weights', 'spec_unscaled'):
        msel[key] = sub(m[key])
    mvis = [[[[val_wire(model_val(c[0])), val_wire(model_val(c[1]))] for c in cell] for cell in row] for row in m['vis']]
    decl = 'scaled' if scaled else 'unscaled'
    # signature classification needs the full product list: do it on the unselected arrays
    ok = True
    for side, key, kind in (('model', 'weights', 'tie'), ('spec', 'spec_weights', 'property')):
        mm = msel[key]
        if wts.shape != (len(ti), len(fi), len(bi)):
            ctx.disagree('route=v4;obs=weights;symptom=shape', cfg, list(wts.shape), [len(ti), len(fi), len(bi)], 'shape of d.weights')
            ok = False
            break
        bad = [(i, j, k_) for i in range(len(ti)) for j in range(len(fi)) for k_ in range(len(bi))
               if same_val(wts[i, j, k_], model_val(mm[i][j][k_]), ctx) is False]
        if bad:
            i, j, k_ = bad[0]
            cause = cell_cause(mcfg, mvis, ti[i], fi[j], bi[k_])
            iv = impl_val(wts[i, j, k_])
            sym = 'zero_weight' if iv == 0 else 'nan_weight' if iv == 'nan' else 'wrong_value'
            ctx.disagree('route=v4;obs=weights;vs=%s;decl=%s;auto=%s;lost=%d;presel=%s;symptom=%s' % (side, decl, cause, len(lose), pre is not None, sym), cfg,
                         dict(at=[int(ti[i]), int(fi[j]), int(bi[k_])], value=str(wts[i, j, k_])),
                         str(model_val(mm[i][j][k_])),
                         'd.weights differs from the %s at stored position %s' % (side, [int(ti[i]), int(fi[j]), int(bi[k_])]),
                         kind=kind)
            ok = False
    # is there an excision indexer at all (CBF attributes present)?
    present = [int(drop not in ('lite', 'src_streams', 'empty_src')), int(drop not in ('lite', 'int_time')),
               int(drop not in ('lite', 'n_accs')), int(drop not in ('lite', 'corr_src_streams', 'empty_corr_src')),
               int(drop not in ('lite', 'instrument_dev_name')), int(drop not in ('lite', 'scale_factor_timestamp'))]
    dpf, cdpf = Fraction(cfg['dp']), Fraction(cfg['cdp'])
    ma = ctx.model([[158, [present, [cdpf.numerator, cdpf.denominator], cfg['n_accs'], [dpf.numerator, dpf.denominator], 1, []]]])[0]
    ctx.count('v4_drop_attr=%s' % drop)
    ctx.count('v4_declaration=%s' % ('absent' if cfg.get('decl_absent') else 'unscaled' if cfg['need'] else 'scaled'))
    ctx.count('v4_lost_chunks=%d' % len(lose))
    ctx.count('v4_preselect=%s' % (pre is not None))
    m_avail = ma[0] == 1
    m_apd = (ma[1] if m_avail else ma[2])
    m_apd = m_apd[0] if m_apd else None
    if (exc_err is None) == m_avail and apd != m_apd:
        ctx.disagree('route=v4;obs=accumulations_per_dump;symptom=wrong_value', cfg, apd, m_apd,
                     'accumulations_per_dump differs from n_accs * round_half_even(dump_period / cbf_dump_period)')
        return
    if (exc_err is None) != m_avail or apd != m_apd:
        ctx.disagree('route=v4;obs=excision;drop=%s;symptom=availability' % drop, cfg,
                     dict(excision=exc_err or 'indexer', accumulations_per_dump=apd),
                     dict(excision='indexer' if m_avail else 'ValueError', accumulations_per_dump=m_apd),
                     'd.excision / accumulations_per_dump: available exactly when every CBF attribute is found',
                     kind='property' if exc_err is None else 'tie')
        return
    if exc_err is not None:
        ctx.traces_validated += 1
        ctx.note_case(cfg_key(cfg), nontrivial=True, sample=dict(route='v4', drop_attr=drop, excision='ValueError'))
        ctx.count('route=v4')
        return
    # excision from the model's unscaled weights
    flat = [val_wire(model_val(msel['unscaled'][i][j][k_])) for i in range(len(ti)) for j in range(len(fi)) for k_ in range(len(bi))]
    me = ctx.model([[152, [cfg['n_accs'], [dpf.numerator, dpf.denominator], [cdpf.numerator, cdpf.denominator], flat]]])[0]
    k_model, A_model = me[0], me[1]
    if apd != A_model:
        ctx.disagree('route=v4;obs=accumulations_per_dump;symptom=wrong_value', cfg, apd, A_model,
                     'accumulations_per_dump differs from n_accs * round(dump_period / cbf_dump_period)')
    nz = 0
    n = 0
    for i in range(len(ti)):
        for j in range(len(fi)):
            for k_ in range(len(bi)):
                for side, vals, kind in (('model', me[2], 'tie'), ('spec', me[3], 'property')):
                    mv = model_val(vals[n])
                    if side == 'spec' and len(flat[n]) != 2:
                        continue         # the formula of the property is stated for finite weights
                    iv = impl_val(exc[i, j, k_])
                    if isinstance(mv, Fraction):
                        good = isinstance(iv, Fraction) and float(iv) == f32_round(mv)
                        nz += mv != 0
                    else:
                        good = iv == mv
                    if not good and ok:
                        w_ = Fraction(flat[n][0], 1 << flat[n][1]) if len(flat[n]) == 2 else None
                        half = isinstance(w_, Fraction) and (w_ / cfg['n_accs'] * 2).denominator == 1 and (w_ / cfg['n_accs']).denominator == 2
                        ctx.disagree('route=v4;obs=excision;vs=%s;halfway=%s;symptom=wrong_value' % (side, half), cfg,
                                     dict(at=[int(ti[i]), int(fi[j]), int(bi[k_])], value=str(exc[i, j, k_])), str(mv),
                                     'd.excision differs from the %s (unscaled weight %s, n_accs %d, k %d)' % (side, w_, cfg['n_accs'], k_model),
                                     kind=kind)
                        ok = False
                n += 1
    ctx.traces_validated += 1
    ctx.note_case(cfg_key(cfg), nontrivial=bool(nz),
                  sample=dict(route='v4', need_weights_power_scale=cfg['need'], n_accs=cfg['n_accs'], dp=cfg['dp'], cdp=cfg['cdp'],
                              k=k_model, select=cfg.get('select'), shape=[len(ti), len(fi), len(bi)]))
    ctx.count('route=v4')
    ctx.count('v4_need_weights_power_scale=%s' % cfg['need'])
    ctx.count('v4_k=%d' % k_model)
    ctx.count('v4_select=%s' % ','.join(sorted(cfg.get('select', {}))))


# --------------------------------------------------------------------------- route v3
def gen_axis_index(rng, n, want_fancy=None, count=None):
    """one per-axis second-stage index on an axis of length n >= 1 as a JSON-able form:
    ['all'] | ['slice', start, stop, step] | ['int', i] | ['list', [...]] | ['mask', [...]];
    want_fancy forces a list / mask, count its number of kept positions."""
    kind = rng.choice(['all', 'all', 'slice', 'slice', 'int', 'list', 'mask'])
    if want_fancy:
        kind = rng.choice(['list', 'mask'])
    if kind == 'slice':
        a = rng.choice([None, rng.randrange(n)])
        b = rng.choice([None, rng.randint((a or 0) + 1, n + 1)])
        return ['slice', a, b, rng.choice([None, 1, 2, 3])]
    if kind == 'int':
        return ['int', rng.randrange(n)]
    if kind in ('list', 'mask'):
        k = count if count is not None else rng.randint(1, n)
        k = max(1, min(k, n))
        pos = sorted(rng.sample(range(n), k))
        if kind == 'list':
            return ['list', pos]
        return ['mask', [int(i in pos) for i in range(n)]]
    return ['all']


def gen_index3(rng, shape):
    """second-stage index on up to three axes; the class 'advanced indices on two or three axes with the same
    number of kept positions' (where numpy's pairwise rule would apply) is generated on purpose."""
    T, F, B = shape
    r = rng.random()
    if r < 0.15:
        return []
    if r < 0.55:
        k = rng.randint(1, min(T, F))
        third = rng.random()
        idx = [gen_axis_index(rng, T, True, k), gen_axis_index(rng, F, True, k)]
        if third < 0.35:
            idx.append(gen_axis_index(rng, B, True, min(k, B)))
        elif third < 0.7:
            idx.append(gen_axis_index(rng, B))
        return idx
    n_axes = rng.randint(1, 3)
    return [gen_axis_index(rng, n) for n in shape[:n_axes]]


def index_positions(form, n):
    """(kept positions, axis dropped?) of one per-axis index form"""
    if form[0] == 'all':
        return list(range(n)), False
    if form[0] == 'slice':
        return list(range(n))[slice(form[1], form[2], form[3])], False
    if form[0] == 'int':
        return [form[1]], True
    if form[0] == 'list':
        return list(form[1]), False
    return [i for i, m in enumerate(form[1]) if m], False


def index_object(form):
    if form[0] == 'all':
        return slice(None)
    if form[0] == 'slice':
        return slice(form[1], form[2], form[3])
    if form[0] == 'int':
        return int(form[1])
    if form[0] == 'list':
        return list(form[1])
    return np.array(form[1], bool)


def gen_v3(rng):
    T, F = rng.randint(2, 5), rng.randint(1, 5)
    ants = ['m000', 'm001'][:rng.randint(1, 2)]
    n = 2 * len(ants)
    B = n * (n + 1) // 2
    p = rng.choice([0, 0.1])
    w = [[[list(rng.choice(SPECIALS)) if rng.random() < p else [rng.randint(0, 40), rng.choice([0, 1, 2])]
           for _ in range(B)] for _ in range(F)] for _ in range(T)]
    wc = [[list(rng.choice(SPECIALS)) if rng.random() < p else [rng.choice([1, 2, 3, 4, 8]), rng.choice([0, 1, 2])]
           for _ in range(F)] for _ in range(T)]
    return dict(route='v3', T=T, F=F, ants=ants, have_w=rng.random() < 0.6, have_wc=rng.random() < 0.6,
                w_uint8=rng.random() < 0.4, w=w, wc=wc, seed=rng.randrange(10 ** 6),
                wsel=rng.choice([None, None, None, '', 'all', 'precision', 'bogus', 'precision,bogus', 'bogus, precision',
                                 ['bogus'], ['bogus', 'precision'], [], ['precision', 'precision']]),
                keep=[rng.random() < 0.8 for _ in range(T)], index_seed=rng.randrange(10 ** 6))



def _check_v3_index(ctx, cfg, forms, got, err, w, wc, selected, F, B):
    """d.weights[index] against the model of the second-stage index (outer: per axis) on the selected arrays."""
    T = w.shape[0]
    dims = (T, F, B)
    forms3 = list(forms) + [['all']] * (3 - len(forms))
    pos, drop = zip(*[index_positions(f_, n) for f_, n in zip(forms3, dims)])
    n_fancy = sum(f_[0] in ('list', 'mask') for f_ in forms3)
    cls = 'fancy%d' % n_fancy + ('+int' if any(drop) else '')
    eq = n_fancy >= 2 and len({len(p_) for f_, p_ in zip(forms3, pos) if f_[0] in ('list', 'mask')}) == 1
    ctx.count('v3_index=%s%s' % (cls, ';equal_counts' if eq else ''))
    if err is not None:
        # every generated form is legal (in range, sorted, non-empty): an exception is a defect of the route
        ctx.disagree('route=v3;obs=weights_indexed;index=%s;symptom=raises;exc=%s' % (cls, err), cfg, err, 'array',
                     'd.weights[%s] raised' % (forms,), kind='tie')
        return
    cells_w = [[[lit_wire(lit(x)) for x in cell] for cell in row] for row in w.tolist()]
    cells_wc = [[lit_wire(lit(x)) for x in row] for row in wc.tolist()]
    mo = ctx.model([[1511, [int(selected), int(cfg['have_w']), int(cfg['have_wc']), cells_w, cells_wc,
                            list(pos[0]), list(pos[1]), list(pos[2])]]])[0]
    want_shape = tuple(len(p_) for p_, d_ in zip(pos, drop) if not d_)
    if tuple(got.shape) != want_shape:
        ctx.disagree('route=v3;obs=weights_indexed;index=%s;symptom=shape' % cls, cfg, list(got.shape), list(want_shape),
                     'shape of d.weights[%s]' % (forms,))
        return
    full = np.asarray(got).reshape([len(p_) for p_ in pos])
    for i in range(len(pos[0])):
        for j in range(len(pos[1])):
            for k in range(len(pos[2])):
                mv = model_val(mo[i][j][k])
                if same_val(full[i, j, k], mv, ctx) is False:
                    ctx.disagree('route=v3;obs=weights_indexed;index=%s;equal_counts=%s;have_w=%s;have_wc=%s;symptom=wrong_value'
                                 % (cls, eq, cfg['have_w'], cfg['have_wc']), dict(cfg, index=list(forms)),
                                 dict(at=[i, j, k], value=str(full[i, j, k])), str(mv),
                                 'd.weights[%s][%d,%d,%d] is not the product of the stored arrays at dump %d, channel %d, '
                                 'product %d of the selection' % (forms, i, j, k, pos[0][i], pos[1][j], pos[2][k]))
                    return


def run_v3(ctx, cfg):
    import h5py
    import katdal
    from fixtures import v4
    from fixtures.mkv3 import mkv3
    T, F = cfg['T'], cfg['F']
    w = np.array([[[lit_float(x) for x in cell] for cell in row] for row in cfg['w']], np.float32)
    if cfg.get('w_uint8'):
        with np.errstate(all='ignore'):
            w = np.nan_to_num(w, nan=0, posinf=255, neginf=0).clip(0, 255).astype(np.uint8)
    wc = np.array([[lit_float(x) for x in row] for row in cfg['wc']], np.float32)
    B = w.shape[2]
    tmp = v4.scratch_dir('c15v3')
    try:
        try:
            fn = os.path.join(tmp, '1500000000.h5')
            mkv3(fn, T=T, F=F, ants=tuple(cfg['ants']), acts=[(0, 'track')], targets=[(0, 'A, radec, 1:00:00, -30:00:00')],
                 labels=[(0, 'track')], seed=cfg['seed'])
            with h5py.File(fn, 'r+') as f:
                del f['Data/weights']
                del f['Data/weights_channel']
                if cfg['have_w']:
                    f['Data'].create_dataset('weights', data=w)
                if cfg['have_wc']:
                    f['Data'].create_dataset('weights_channel', data=wc)
            d = katdal.open(fn, centre_freq=1284e6)
            wsel = '' if cfg.get('select_none') else cfg.get('wsel')
            wkw = {} if wsel is None else {'weights': wsel}
            keep = np.array(cfg['keep'], bool)
            if keep.any():
                d.select(dumps=keep, **wkw)
            else:
                keep[:] = True
                d.select(**wkw)
            got = d.weights[:]
            # a second-stage index on the same data set (every form, on one to three axes)
            idx_forms, got2, err2 = None, None, None
            if 'index_seed' in cfg or 'index' in cfg:
                import random as _random
                shape_sel = (int(keep.sum()), F, B)
                idx_forms = cfg['index'] if 'index' in cfg else gen_index3(_random.Random(cfg['index_seed']), shape_sel)
                try:
                    got2 = d.weights[tuple(index_object(f_) for f_ in idx_forms)]
                except (IndexError, ValueError, TypeError) as e2:
                    err2 = type(e2).__name__
        except Exception as e:
            ctx.disagree('route=v3;symptom=raises;exc=%s;have_w=%s;have_wc=%s' % (type(e).__name__, cfg['have_w'], cfg['have_wc']),
                         cfg, repr(e)[:300], 'weights', 'opening / reading weights of a v3 file raised')
            return
    finally:
        shutil.rmtree(tmp, ignore_errors=True)
    ti = list(np.nonzero(keep)[0])
    cells = [[lit(w[t, f, b]), lit(wc[t, f])] for t in ti for f in range(F) for b in range(B)]
    cells = [[lit_wire(a), lit_wire(b)] for a, b in cells]
    # the request as _selection_to_list reads it (string parsing is the harness's: '' -> nothing, 'all' -> every known
    # type, comma-separated names stripped); names are numbered for the wire
    code = {'precision': 7, 'bogus': 9}
    if wsel is None or wsel == 'all':
        req, names = 1, None
    elif isinstance(wsel, str):
        names = [x.strip() for x in wsel.split(',')] if wsel else []
        req = [code[x] for x in names]
    else:
        names = list(wsel)
        req = [code[x] for x in names]
    mo2 = ctx.model([[159, [[7], req, int(cfg['have_w']), int(cfg['have_wc']), cells]]])[0]
    selected = bool(mo2[0])
    if selected != (names is None or 'precision' in names):
        ctx.disagree('route=v3;symptom=model_selection', cfg, selected, names, 'model of the weight selection disagrees with the request', kind='tie')
    mo = mo2[1]
    # the round-1 model (selected flag given) must agree with the request model
    mo1 = ctx.model([[153, [int(selected), int(cfg['have_w']), int(cfg['have_wc']), cells]]])[0]
    if mo1 != mo:
        ctx.disagree('route=v3;symptom=models_differ', cfg, mo1[:4], mo[:4], 'wire_153 and wire_159 disagree', kind='tie')
    if got.shape != (len(ti), F, B):
        ctx.disagree('route=v3;symptom=shape', cfg, list(got.shape), [len(ti), F, B], 'shape of v3 weights')
        return
    n = 0
    for i in range(len(ti)):
        for f in range(F):
            for b in range(B):
                mv = model_val(mo[n])
                # the spec in words: product of the two stored arrays, an absent array reads as one
                a = impl_val(w[ti[i], f, b]) if cfg['have_w'] else Fraction(1)
                c = impl_val(wc[ti[i], f]) if cfg['have_wc'] else Fraction(1)
                if same_val(got[i, f, b], mv, ctx) is False:
                    ctx.disagree('route=v3;obs=weights;have_w=%s;have_wc=%s;selected=%s;symptom=wrong_value'
                                 % (cfg['have_w'], cfg['have_wc'], selected), cfg,
                                 dict(at=[int(ti[i]), f, b], value=str(got[i, f, b])), str(mv),
                                 'v3 weights differ from stored product (w=%s, wc=%s)' % (a, c))
                    n = -1
                    break
                n += 1
            if n < 0:
                break
        if n < 0:
            break
    if idx_forms is not None:
        _check_v3_index(ctx, cfg, idx_forms, got2, err2, w[ti], wc[ti], selected, F, B)
    ctx.traces_validated += 1
    ctx.note_case(cfg_key(cfg), nontrivial=bool(cfg['have_w'] or cfg['have_wc']),
                  sample=dict(route='v3', have_w=cfg['have_w'], have_wc=cfg['have_wc'], weights_request=wsel, index=idx_forms,
                              shape=[len(ti), F, B]))
    ctx.count('route=v3')
    ctx.count('v3_request=%s' % ('default' if wsel is None else repr(wsel)))
    ctx.count('v3_have=%d%d' % (cfg['have_w'], cfg['have_wc']))


# --------------------------------------------------------------------------- route vv (real table)
_REAL_TABLE = {}


def real_table():
    if not _REAL_TABLE:
        from katdal.van_vleck import autocorr_lookup_table
        xs, ys = autocorr_lookup_table(np.arange(-127., 128.))
        _REAL_TABLE['xs'], _REAL_TABLE['ys'] = xs, ys
        _REAL_TABLE['wire'] = [[lit(x), lit(y)] for x, y in zip(xs, ys)]
    return _REAL_TABLE


def gen_vv(rng):
    labels, cps, info = gen_cps(rng, allow_missing=False)
    T, F = rng.randint(1, 3), rng.randint(1, 3)
    vis = gen_vis(rng, cps, T, F, True, 0.1)
    for row in vis:
        for cell in row:
            for (a, b), c in zip(cps, cell):
                if a == b and len(c[0]) == 2:
                    r = rng.random()
                    if r < 0.15:
                        c[0] = [rng.choice([-3, 0, 32258 * 8, 40000 * 8, 32258 * 8 - 1]), 3]
                    else:
                        # any float32 in the table's range (log-uniform)
                        x = np.float32(2.0 ** rng.uniform(-8, 15))
                        c[0] = lit(x)
    return dict(route='vv', labels=labels, cps=cps, T=T, F=F, vis=vis,
                chunks=[compositions(rng, T), compositions(rng, F), compositions(rng, len(cps))])


def run_vv(ctx, cfg):
    import dask
    import dask.array as da
    from katdal.vis_flags_weights import correct_autocorr_quantisation
    cps = cfg['cps']
    T, F, B = cfg['T'], cfg['F'], len(cps)
    tab = real_table()
    names = [(cfg['labels'][a], cfg['labels'][b]) for a, b in cps]
    vis = vis_array(cfg['vis']).reshape(T, F, B)
    try:
        with dask.config.set(scheduler='sync'), np.errstate(all='ignore'):
            out = correct_autocorr_quantisation(da.from_array(vis, chunks=tuple(tuple(c) for c in cfg['chunks'])), names).compute()
    except Exception as e:
        ctx.disagree('route=vv;symptom=raises;exc=%s' % type(e).__name__, cfg, repr(e)[:300], 'array',
                     'correct_autocorr_quantisation raised')
        return
    autos = [(t, f, b) for t in range(T) for f in range(F) for b in range(B) if cps[b][0] == cps[b][1]]
    xs = [lit_wire(cfg['vis'][t][f][b][0]) for (t, f, b) in autos]
    my = ctx.model([[154, [tab['wire'], xs]]])[0]
    pairs = []
    for (t, f, b), mv in zip(autos, my):
        mv = big_val(mv)
        z = out[t, f, b]
        iv = impl_val(z.real)
        if isinstance(mv, Fraction):
            good = isinstance(iv, Fraction) and abs(iv - mv) <= ulp32(float(mv))
            pairs.append((lit_float(cfg['vis'][t][f][b][0]), float(z.real), mv))
        else:
            good = iv == mv
        xin = lit_float(cfg['vis'][t][f][b][0]) if len(cfg['vis'][t][f][b][0]) in (2, 3) else None
        if xin is not None and xin <= 0 and not (z.real == 0):
            ctx.disagree('route=vv;obs=auto;vs=spec;symptom=zero_not_mapped_to_zero', dict(cfg, at=[t, f, b]), str(z), '0',
                         'a zero / negative autocorrelation (dead input) is given a non-zero corrected power')
            break
        if not good or not (z.imag == 0):
            ctx.disagree('route=vv;obs=auto;symptom=%s' % ('imag_nonzero' if good else 'wrong_value'), cfg,
                         dict(at=[t, f, b], value=str(z)), str(mv),
                         'Van Vleck corrected autocorrelation differs from the interpolation on the real table by more '
                         'than 1 ulp of float32', kind='tie')
            break
    # monotone: a larger stored power never gives a smaller corrected power (only pairs the rounding cannot reorder)
    pairs.sort(key=lambda p: p[0])
    for (x0, y0, m0), (x1, y1, m1) in zip(pairs, pairs[1:]):
        if y0 > y1 and (m1 - m0) > 2 * ulp32(float(m1)):
            ctx.disagree('route=vv;obs=auto;symptom=not_monotone', cfg, [x0, y0, x1, y1], 'monotone',
                         'corrected autocorrelations are not monotone in the stored ones')
            break
    # everything else is untouched, bit for bit (NaN payloads aside)
    for t in range(T):
        for f in range(F):
            for b in range(B):
                if cps[b][0] != cps[b][1]:
                    a, z = vis[t, f, b], out[t, f, b]
                    if not (impl_val(a.real) == impl_val(z.real) and impl_val(a.imag) == impl_val(z.imag)):
                        ctx.disagree('route=vv;obs=cross;symptom=changed', cfg, dict(at=[t, f, b], value=str(z)), str(a),
                                     'Van Vleck correction changed a product that is not an autocorrelation')
                        break
    ctx.traces_validated += 1
    ctx.note_case(cfg_key(cfg), nontrivial=bool(pairs), sample=dict(route='vv', cps=cps, chunks=cfg['chunks'], autos=len(autos)))
    ctx.count('route=vv')


VV_LEVELS = {'meerkat': (-127, 128), '4bit': (-7, 8), '3level': (-1, 2), '2bit_sym': (-3, 4), 'offset': (-128, 128),
             '6bit': (-31, 32)}


def gen_vvtable(rng, default=False):
    if default:
        return dict(route='vvtable', levels='meerkat', size=None)
    return dict(route='vvtable', levels=rng.choice(sorted(VV_LEVELS)),
                size=rng.choice([3, 4, 5, 6, 10, 11, 64, 257, 500, 1000, 2, 1]))


def check_real_table(ctx, cfg=None):
    """The REAL lookup table(s) of katdal.van_vleck.autocorr_lookup_table, checked exactly (float64 values are dyadic
    rationals): (property) abscissae strictly increasing, ordinates non-decreasing, first node the origin, VV(0) = 0 and
    VV(x) = 0 for x < 0 - by np.interp, by the model's interpolation on the real table (wire_1514 = the decision
    procedure of theorem vanvleck_table_check_sound) and through correct_autocorr_quantisation on a dead input;
    the hypotheses `vv_numerics_ok` of the construction theorems on the intermediate arrays the real function computes
    (captured from its call of _squared_quant_norm0_mean); (tie) the model's construction from those arrays equals
    the returned table node for node (wire_1512) and has the predicted size."""
    import katdal.van_vleck as vvm
    cfg = cfg or dict(route='vvtable', levels='meerkat', size=None)
    lo, hi = VV_LEVELS[cfg['levels']]
    levels = np.arange(float(lo), float(hi))
    size = cfg.get('size')
    tag = 'levels=%s;size=%s' % (cfg['levels'], 'default' if size is None else ('small' if size < 64 else 'large'))
    cap = {}
    orig = vvm._squared_quant_norm0_mean

    def spy(lv, var=1.0):
        out = orig(lv, var)
        cap['grid'], cap['mean'] = np.array(var, float).ravel().copy(), np.array(out, float).ravel().copy()
        return out
    vvm._squared_quant_norm0_mean = spy
    try:
        with np.errstate(all='ignore'):
            xs, ys = vvm.autocorr_lookup_table(levels) if size is None else vvm.autocorr_lookup_table(levels, size)
        err = None
    except Exception as e:
        err = e
    finally:
        vvm._squared_quant_norm0_mean = orig
    ctx.count('vvtable_' + tag)
    nsize = 4000 if size is None else size
    if err is not None:
        # numpy refuses a negative number of grid points (size 2) or an empty grid (rxx_grid[-1]); never an answer
        if nsize >= 4:
            ctx.disagree('route=vvtable;%s;symptom=raises;exc=%s' % (tag, type(err).__name__), cfg, repr(err)[:200], 'table',
                         'autocorr_lookup_table raised for a size of at least 4')
        ctx.note_case(cfg_key(cfg), nontrivial=False)
        return
    xs, ys = np.asarray(xs, float), np.asarray(ys, float)
    if size is None:
        ctx.extra['real_van_vleck_table_size'] = int(len(xs))
    # ---- property, model-free (exact float comparisons)
    bad_x = np.nonzero(~(np.diff(xs) > 0))[0]
    bad_y = np.nonzero(~(np.diff(ys) >= 0))[0]
    with np.errstate(all='ignore'):
        v0, vneg = float(np.interp(0.0, xs, ys)), float(np.interp(-1.0, xs, ys))
    if size is None:
        ctx.extra['real_van_vleck_table_monotone'] = not len(bad_x) and not len(bad_y)
    if v0 != 0.0 or vneg != 0.0:
        ctx.disagree('route=vvtable;%s;obs=VV(0);symptom=zero_not_mapped_to_zero' % tag, dict(cfg, x=0.0),
                     dict(VV0=v0, VVneg=vneg, first_nodes=[[float(a), float(b)] for a, b in zip(xs[:3], ys[:3])]), 0.0,
                     'the Van Vleck correction of a zero (dead input) / negative autocorrelation is not zero: np.interp(0, table) = %r' % v0)
    if len(bad_x) or len(bad_y) or not (xs[0] == 0 and ys[0] == 0):
        i = int(bad_x[0]) if len(bad_x) else (int(bad_y[0]) if len(bad_y) else 0)
        ctx.disagree('route=vvtable;%s;obs=table;symptom=%s' % (tag, 'abscissae_not_strictly_increasing' if len(bad_x) else
                                                                 'ordinates_decrease' if len(bad_y) else 'first_node_not_origin'),
                     dict(cfg, node=i), dict(x=[float(v) for v in xs[i:i + 2]], y=[float(v) for v in ys[i:i + 2]],
                                             duplicates=int(len(bad_x))), 'strictly increasing / non-decreasing / (0, 0) first',
                     'the Van Vleck lookup table is not a usable interpolation table (np.interp needs increasing abscissae)')
    if len(xs) != nsize or len(ys) != nsize:
        ctx.disagree('route=vvtable;%s;obs=size;symptom=wrong_length' % tag, cfg, [len(xs), len(ys)], nsize, 'table length is not `size`')
    # ---- the hypotheses of the construction theorems on the arrays the real function computed
    g, m = cap.get('grid'), cap.get('mean')
    smax = float(np.abs(levels).max() ** 2)
    if g is None or len(g) != len(m):
        ctx.disagree('route=vvtable;%s;symptom=not_captured' % tag, cfg, None, 'grid', 'autocorr_lookup_table no longer calls '
                     '_squared_quant_norm0_mean(levels, rxx_grid) once', kind='tie')
        return
    hyp = []
    if len(g) and not (g[0] > 0 and np.all(np.diff(g) > 0)):
        hyp.append('grid_not_positive_increasing')
    if len(m) and not (m[0] > 0):
        hyp.append('first_expected_quantised_power_is_zero(underflow)')
    if len(m) and not np.all(np.diff(m) > 0):
        hyp.append('expected_quantised_powers_not_strictly_increasing')
    if len(m) and not (m[-1] < smax):
        hyp.append('expected_quantised_power_reaches_sxx_max')
    if hyp:
        k = int(np.count_nonzero(m == 0))
        ctx.disagree('route=vvtable;%s;obs=numerics;symptom=%s' % (tag, hyp[0].split('(')[0]), dict(cfg, x=0.0),
                     dict(failed=hyp, zeros_in_sxx_mean=k, sxx_mean_head=[float(v) for v in m[:3]], rxx_grid_head=[float(v) for v in g[:3]]),
                     'vv_numerics_ok', 'the hypotheses of the table theorems (positive, strictly increasing expected quantised '
                     'powers below sxx_max) do not hold on the arrays autocorr_lookup_table computes')
    # ---- through the public path: a dead input (autocorrelation exactly 0) must stay 0
    try:
        import dask
        import dask.array as da
        from katdal.vis_flags_weights import correct_autocorr_quantisation
        v = np.zeros((2, 1, 3), np.complex64)
        v[0, 0, :] = [0, 3 + 4j, 5.0]
        v[1, 0, :] = [-2.0, 1j, 0]
        with dask.config.set(scheduler='sync'), np.errstate(all='ignore'):
            out = correct_autocorr_quantisation(da.from_array(v, chunks=(1, 1, 3)), [('a', 'a'), ('a', 'b'), ('b', 'b')],
                                                **({} if cfg['levels'] == 'meerkat' else dict(levels=levels))).compute()
        if size is None or size == 4000:
            if not (out[0, 0, 0] == 0 and out[1, 0, 2] == 0 and out[1, 0, 0] == 0 and out[0, 0, 1] == v[0, 0, 1] and out[1, 0, 1] == 1j):
                ctx.disagree('route=vvtable;%s;obs=dead_input;symptom=zero_not_mapped_to_zero' % tag, dict(cfg, x=0.0),
                             [str(z) for z in out.ravel()], '0 for the zero / negative autocorrelations, cross products untouched',
                             'correct_autocorr_quantisation gives a dead input (autocorrelation 0) a non-zero power')
            ctx.traces_validated += 1
    except Exception as e:
        ctx.disagree('route=vvtable;%s;symptom=raises;exc=%s' % (tag, type(e).__name__), cfg, repr(e)[:200], 'array',
                     'correct_autocorr_quantisation raised')
    # ---- model side: decision procedure and interpolation on the real table, construction tie
    if ctx.model_ok:
        try:
            tw = [[lit(x), lit(y)] for x, y in zip(xs, ys)]
            mo, mc = ctx.model([[1514, [tw]], [1512, [[lit(x) for x in g], [lit(x) for x in m], lit(smax), tw, nsize]]])
        except Exception:
            if not ctx.searching:
                raise
            mo = mc = None
        if mo is not None:
            py_ok = not len(bad_x) and not len(bad_y) and xs[0] == 0 and ys[0] == 0
            m0, mneg = big_val(mo[4]), big_val(mo[5])
            if bool(mo[0]) != bool(py_ok) or mo[1] != (int(bad_x[0]) if len(bad_x) else -1) \
                    or mo[2] != (int(bad_y[0]) if len(bad_y) else -1) or mo[6] != len(xs):
                ctx.disagree('route=vvtable;%s;obs=decision;symptom=model_differs' % tag, cfg, [py_ok], mo[:4],
                             'table_ok_b of the model and the numpy evaluation of the same table disagree', kind='tie')
            if m0 != Fraction(v0) or mneg != Fraction(vneg):
                ctx.disagree('route=vvtable;%s;obs=VV(0);vs=model;symptom=model_differs' % tag, dict(cfg, x=0.0), [v0, vneg],
                             [str(m0), str(mneg)], 'np.interp(0, real table) differs from the model interpolation', kind='tie')
            if not mo[0] or m0 != 0:
                ctx.disagree('route=vvtable;%s;obs=VV(0);vs=theorem;symptom=table_check_fails' % tag, dict(cfg, x=0.0),
                             dict(VV0=v0, first_bad_abscissa=mo[1], first_bad_ordinate=mo[2]), 'table_ok_b = true',
                             'the decision procedure of theorem vanvleck_table_check_sound rejects the real table')
            if mc[0] != -1 or mc[1] != len(xs) or mc[2] != len(xs) or mc[3] != len(g):
                ctx.disagree('route=vvtable;%s;obs=construction;symptom=model_differs' % tag, cfg,
                             dict(length=len(xs), grid=len(g)), mc,
                             'the table built by the model (regenerated anchor / clip / factors / counts) from the real grid and '
                             'expected quantised powers differs from the returned table at node %s' % mc[0], kind='tie')
    ctx.traces_validated += 1
    ctx.note_case(cfg_key(cfg), nontrivial=True, sample=dict(route='vvtable', levels=cfg['levels'], size=nsize,
                                                             first_nodes=[[float(a), float(b)] for a, b in zip(xs[:2], ys[:2])]))


# --------------------------------------------------------------------------- route avg
def gen_avg(rng, force=None):
    force = force or {}
    T, F, B = rng.randint(1, 6), rng.randint(1, 6), rng.randint(1, 3)
    shape_kind = 'small'
    r = rng.random()
    if r < 0.04:          # more baselines than one block of the kernel (bl_step = 128): block boundaries
        shape_kind = 'blocks'
        T, F, B = rng.randint(1, 2), rng.randint(1, 2), rng.choice([127, 128, 129, 130, 256, 257])
    elif r < 0.07:        # degenerate but legal: an empty axis
        shape_kind = 'empty_axis'
        k = rng.randrange(3)
        T, F, B = [0 if k == 0 else T, 0 if k == 1 else F, 0 if k == 2 else B]
    elif r < 0.12:        # the call without averaging options
        shape_kind = 'defaults'
        T, F, B = rng.randint(1, 12), rng.randint(6, 17), rng.randint(1, 2)
    if 'shape' in force:
        shape_kind = 'small'
        T, F, B = force['shape']
    timeav = force.get('timeav', rng.randint(1, max(T, 1)) if rng.random() < 0.85 else rng.randint(T + 1, T + 3))
    chanav = force.get('chanav', rng.randint(1, max(F, 1)) if rng.random() < 0.85 else rng.randint(F + 1, F + 3))
    flagav = rng.random() < 0.5
    if shape_kind == 'defaults':
        timeav, chanav, flagav = 10, 8, False      # only to shape the values; the call leaves them out
    pf = rng.choice([0, 0.1, 0.4, 0.8, 1.0])
    wmode = force.get('wmode') or rng.choice(['pow2', 'pow2', 'int', 'signed', 'zero'])
    flags = [[[rng.random() < pf for _ in range(B)] for _ in range(F)] for _ in range(T)]
    if rng.random() < 0.3 and T:          # a fully flagged dump / channel
        t = rng.randrange(T)
        flags[t] = [[True] * B for _ in range(F)]
    # the BYTE behind every flag.  flag_kind: 'canonical' = a home-made bool array (0 / 1); 'bytes' = a bool VIEW of
    # arbitrary bytes (True backed by 2, 4, 16, 80, 255 ...); 'v4sim' = bitwise_and(select, raw).view(bool) as
    # VisibilityDataV4 builds d.flags (raw bytes also carry unselected bits on unflagged samples); 'v4' = the same
    # through a real v4 data set
    flag_kind = force.get('flag_kind') or rng.choice(['canonical', 'bytes', 'bytes', 'v4sim', 'v4sim'])
    byts, select = None, -1
    if flag_kind == 'bytes':
        byts = [[[rng.choice(FLAG_BYTES) if x else 0 for x in cell] for cell in row] for row in flags]
    elif flag_kind in ('v4sim', 'v4'):
        select = force.get('select', rng.choice([255, 255, 0x77, 16, 4, 64, 2 | 16 | 64, 1, 0, 254, 128 | 8]))
        bits = [1 << i for i in range(8) if select >> i & 1]

        def raw(x):
            r = rng.randrange(256) if rng.random() < 0.6 else 0
            return (r | rng.choice(bits)) if x else (r & ~select & 255)
        if not bits:
            flags = [[[False] * B for _ in range(F)] for _ in range(T)]
        byts = [[[raw(x) for x in cell] for cell in row] for row in flags]

    def wgen():
        if wmode == 'pow2':
            return [1 << rng.randint(0, 4), 2]
        if wmode == 'int':
            return [rng.randint(0, 6), rng.choice([0, 1])]
        if wmode == 'zero':
            return [0, 0]
        if wmode == 'u8':
            return [rng.randint(0, 6), 0]
        return [rng.choice([-2, -1, 1, 2]), 0]
    w = [[[wgen() for _ in range(B)] for _ in range(F)] for _ in range(T)]
    ta = max(1, min(timeav, T))
    ca = chanav
    # visibilities: Gaussian integers times the odd part of the bin's unflagged weight sum (in quarter units), so that
    # the weighted mean is exact in complex64 for most bins
    vis = [[[None] * B for _ in range(F)] for _ in range(T)]
    for t in range(T):
        for f in range(F):
            for b in range(B):
                i, j = t // ta, f // ca
                cells = [(tt, ff) for tt in range(i * ta, min(T, (i + 1) * ta)) for ff in range(j * ca, min(F, (j + 1) * ca))]
                S = sum(Fraction(w[tt][ff][b][0], 1 << w[tt][ff][b][1]) for tt, ff in cells if not flags[tt][ff][b])
                num = abs(S.numerator)
                odd = num >> ((num & -num).bit_length() - 1) if num else 1
                if rng.random() < 0.1:
                    odd = 1
                vis[t][f][b] = [[odd * rng.randint(-16, 16), 0], [odd * rng.randint(-16, 16), 0]]
    cfg = dict(route='avg', T=T, F=F, B=B, timeav=timeav, chanav=chanav, flagav=flagav, vis=vis, w=w, flags=flags,
               shape_kind=shape_kind, flag_kind=flag_kind)
    if byts is not None:
        cfg.update(bytes=byts, select=select)
    return cfg


FLAG_BYTES = [1, 2, 4, 8, 16, 32, 64, 128, 80, 20, 3, 255, 254, 17]
V4_FLAG_NAMES = ('reserved0', 'static', 'cam', 'data_lost', 'ingest_rfi', 'predicted_rfi', 'cal_rfi', 'postproc')


def gen_v4avg(rng):
    """the documented use of the averager on a v4 data set: average_visibilities(d.vis[:], d.weights[:], d.flags[:], ...)
    after d.select(flags=...) for every kind of flag selection"""
    n_ant = rng.choice([1, 1, 2])
    T, F = rng.randint(1, 5), rng.randint(1, 5)
    select = rng.choice([255, 255, 16, 4, 64, 1, 0, 2 | 16 | 64, 0x77, 254, 32, 2])
    cfg = gen_avg(rng, force=dict(shape=[T, F, 2 * n_ant * (n_ant + 1)], wmode='u8', flag_kind='v4', select=select))
    cfg.update(v4=dict(ants=['m%03d' % a for a in range(n_ant)], seed=rng.randrange(10 ** 6),
                       names=[V4_FLAG_NAMES[i] for i in range(8) if select >> i & 1],
                       how=rng.choice(['names', 'names', 'all' if select == 255 else 'names']),
                       chunks=[compositions(rng, T), compositions(rng, F)]))
    return cfg


def v4avg_arrays(ctx, cfg):
    """build the data set, select the flags, return (vis, weights, flags, timestamps, freqs, handle) as the data set
    delivers them"""
    import dask
    from fixtures import v4
    T, F, B = cfg['T'], cfg['F'], cfg['B']
    vis = np.array([[[complex(lit_float(c[0]), lit_float(c[1])) for c in cell] for cell in row] for row in cfg['vis']],
                   np.complex64).reshape(T, F, B)
    arrays = {'correlator_data': vis,
              'weights': np.array([[[x[0] for x in cell] for cell in row] for row in cfg['w']], np.uint8).reshape(T, F, B),
              'weights_channel': np.ones((T, F), np.float32),
              'flags': np.array(cfg['bytes'], np.uint8).reshape(T, F, B)}
    v = cfg['v4']
    ch = (tuple(v['chunks'][0]), tuple(v['chunks'][1]), (B,))
    with dask.config.set(scheduler='sync'), np.errstate(all='ignore'):
        x = v4.build_v4(T=T, F=F, ants=v['ants'], seed=v['seed'], arrays=arrays, need_weights_power_scale=False,
                        chunks={'correlator_data': ch, 'flags': ch, 'weights': ch}, tmp=v4.scratch_dir('c15'))
        d = x.d
        d.select(flags='all' if v['how'] == 'all' else ','.join(v['names']))
        out = (np.asarray(d.vis[:]), np.asarray(d.weights[:]), d.flags[:], d.timestamps, d.channel_freqs, x)
    return out


def run_avg(ctx, cfg):
    from katdal.averager import average_visibilities
    T, F, B = cfg['T'], cfg['F'], cfg['B']
    vis = np.array([[[complex(lit_float(c[0]), lit_float(c[1])) for c in cell] for cell in row] for row in cfg['vis']],
                   np.complex64).reshape(T, F, B)
    w = np.array([[[lit_float(x) for x in cell] for cell in row] for row in cfg['w']], np.float32).reshape(T, F, B)
    fl = np.array(cfg['flags'], bool).reshape(T, F, B)
    fk = cfg.get('flag_kind', 'canonical')
    handle = None
    if cfg.get('v4'):
        # the arrays exactly as the v4 data set delivers them (d.flags[:] is a bool VIEW of select & raw)
        try:
            gv, gw, gf, gts, gfr, handle = v4avg_arrays(ctx, cfg)
        except Exception as e:
            ctx.disagree('route=v4avg;symptom=raises;exc=%s' % type(e).__name__, cfg, repr(e)[:300], 'arrays',
                         'building / reading the v4 data set raised', kind='tie')
            return
        try:
            if gf.dtype != np.bool_ or not np.array_equal(gf, fl) or not np.array_equal(gv, vis) or not np.array_equal(gw, w):
                ctx.disagree('route=v4avg;symptom=delivery', cfg, dict(flags=gf.astype(int).tolist()), np.array(cfg['flags']).astype(int).tolist(),
                             'd.vis / d.weights / d.flags are not the stored arrays under the flag selection (C16 territory)', kind='tie')
                return
            vis, w, fl = gv, gw, gf
            ctx.count('v4avg_true_bytes_not_0_1=%s' % bool(np.any(gf.view(np.uint8) > 1)))
        finally:
            import shutil
            shutil.rmtree(handle.tmp, ignore_errors=True)
    elif cfg.get('bytes') is not None:
        raw = np.array(cfg['bytes'], np.uint8).reshape(T, F, B)
        if cfg.get('select', -1) >= 0:
            raw = np.bitwise_and(np.uint8(cfg['select']), raw)
        fl2 = raw.view(bool)
        assert np.array_equal(fl2, fl), 'generator: flag bytes and truth values disagree'
        fl = fl2
    ctx.count('avg_flag_kind=%s' % fk)
    defaults = cfg.get('shape_kind') == 'defaults'
    mo, ma = avg_models(ctx, cfg)
    if mo == [-999] or ma == [-999]:
        ctx.disagree('route=avg;symptom=model_rejects_case', cfg, None, mo, 'wire format error', kind='tie')
        return
    ctx.count('avg_shape_kind=%s' % cfg.get('shape_kind', 'small'))
    # tie = the function as written (wire_1510); property = the declarative bins (wire_155).  With the options left
    # out the property fixes nothing about the factors: tie only.
    if defaults:
        # property side: the bins of the factors the call used, flags combined by AND (OR is optional, i.e. not the default)
        dta, dca = ma[-1]
        ms = ctx.model([[155, [T, F, B, dta, dca, 0, avg_samples(cfg)]]])[0] if ctx.model_ok else \
            py_avg(dict(cfg, timeav=dta, chanav=dca, flagav=False))[0]
        mo = [ma[0]] + ([ma[2], ms[2] if ms[0] == 1 else None] if ma[0] == 1 else [])
        cfg = dict(cfg, timeav=dta, chanav=dca, flagav=False)
    else:
        if mo[0] != ma[0] or (mo[0] == 1 and mo[1] != ma[2]):
            ctx.disagree('route=avg;symptom=models_differ', cfg, 'blocked', 'per-baseline',
                         'the blocked model (wire_1510) and the per-baseline model (wire_155) disagree', kind='tie')
            return
    ts, fs = 1000.0 + 2.0 * np.arange(T), 1e9 + 1e6 * np.arange(F)
    try:
        if defaults:
            av, aw, af, at, afr = average_visibilities(vis, w, fl, ts, fs)
        else:
            av, aw, af, at, afr = average_visibilities(vis, w, fl, ts, fs, timeav=cfg['timeav'], chanav=cfg['chanav'],
                                                       flagav=cfg['flagav'])
    except ZeroDivisionError:
        if mo[0] == 1:
            ctx.disagree('route=avg;symptom=zerodivision', cfg, 'ZeroDivisionError', 'arrays', 'raised on positive factors')
        ctx.note_case(cfg_key(cfg), nontrivial=False)
        return
    except Exception as e:
        ctx.disagree('route=avg;symptom=raises;exc=%s' % type(e).__name__, cfg, repr(e)[:300], 'arrays', 'average_visibilities raised')
        return
    if mo[0] != 1:
        ctx.disagree('route=avg;symptom=model_error', cfg, 'arrays', mo, 'model says the call fails', kind='tie')
        return
    n_bins = 0
    multi = False
    ta = min(cfg['timeav'], T)
    mshape = tuple(ma[1])
    if tuple(av.shape) != mshape or aw.shape != av.shape or af.shape != av.shape:
        ctx.disagree('route=avg;vs=model;kind=%s;symptom=shape' % cfg.get('shape_kind', 'small'), cfg, list(av.shape), list(mshape),
                     'shape of the averaged arrays (clamping of the factors, trimming of partial bins)', kind='tie')
        return
    for side, m, kind in (('model', mo[1], 'tie'), ('spec', mo[2], 'property')):
        if m is None:
            continue
        shape = (len(m), len(m[0]) if m else 0, len(m[0][0]) if m and m[0] else 0)
        if shape != mshape and 0 not in mshape:
            ctx.disagree('route=avg;vs=%s;symptom=shape' % side, cfg, list(av.shape), list(shape),
                         'shape of the averaged arrays (trimming of partial bins)', kind=kind)
            continue
        if 0 in mshape:
            continue
        done = False
        for i in range(shape[0]):
            for j in range(shape[1]):
                for b in range(shape[2]):
                    re, im, wv, fv = m[i][j][b]
                    re, im, wv = Fraction(*re), Fraction(*im), Fraction(*wv)
                    n_bins += side == 'model'
                    probs = []
                    if impl_val(aw[i, j, b]) != wv and is_f32(wv):
                        probs.append(('weight', aw[i, j, b], wv))
                    if bool(af[i, j, b]) != bool(fv):
                        probs.append(('flag', bool(af[i, j, b]), bool(fv)))
                    for nm, got, want in (('vis_re', av[i, j, b].real, re), ('vis_im', av[i, j, b].imag, im)):
                        g = impl_val(got)
                        if is_f32(want) and (wv != 0 or ((ta * cfg['chanav']) & (ta * cfg['chanav'] - 1)) == 0):
                            if g != want:
                                probs.append((nm, got, want))
                            elif side == 'model':
                                ctx.extra['avg_components_compared_exactly'] = ctx.extra.get('avg_components_compared_exactly', 0) + 1
                        else:
                            scale = max(abs(re), abs(im), Fraction(1, 2 ** 100))
                            if not (isinstance(g, Fraction) and abs(g - want) <= 2 * ulp32(float(scale))):
                                probs.append((nm + '_approx', got, want))
                            elif side == 'model':
                                ctx.extra['avg_components_compared_within_2ulp'] = ctx.extra.get('avg_components_compared_within_2ulp', 0) + 1
                    if probs and not done:
                        nm, got, want = probs[0]
                        allflag = all(cfg['flags'][t][f][b] for t in range(T) for f in range(F)
                                      if t // min(cfg['timeav'], T) == i and f // cfg['chanav'] == j)
                        sig = 'route=avg;obs=%s;vs=%s;flagav=%s;allflagged=%s;zero_wsum=%s;block=%s;flags=%s;symptom=wrong_value' % (
                            nm, side, cfg['flagav'], allflag, wv == 0, 'first' if b < 128 else 'later',
                            'canonical' if fk == 'canonical' else 'true_bytes_not_1')
                        ctx.disagree(sig, cfg, dict(bin=[i, j, b], value=str(got)), str(want),
                                     'averaged %s of bin %s differs from the %s' % (nm, [i, j, b], side), kind=kind)
                        done = True
    # the averaged coordinates are plain means of the kept bins
    ta = max(1, min(cfg['timeav'], T))
    if len(at) != mshape[0] or len(afr) != mshape[1]:
        ctx.disagree('route=avg;obs=coords;symptom=shape', cfg, [len(at), len(afr)], list(mshape[:2]), 'averaged coordinates', kind='tie')
    ctx.traces_validated += 1
    multi = ta * cfg['chanav'] > 1 and n_bins > 0
    anyflag = any(x for row in cfg['flags'] for cell in row for x in cell)
    ctx.note_case(cfg_key(cfg), nontrivial=bool(multi and anyflag),
                  sample=dict(route='avg', shape=[T, F, B], timeav=cfg['timeav'], chanav=cfg['chanav'], flagav=cfg['flagav'],
                              out_shape=list(av.shape)))
    ctx.count('route=%s' % ('v4avg' if cfg.get('v4') else 'avg'))
    ctx.count('avg_flagav=%s' % cfg['flagav'])
    ctx.count('avg_partial_bins=%s' % bool(T % ta or F % cfg['chanav']))
    ctx.count('avg_factor_exceeds_size=%s' % bool(cfg['timeav'] > T or cfg['chanav'] > F))


# --------------------------------------------------------------------------- driver
ROUTES = {'kernel': run_kernel, 'vfw': run_vfw, 'v4': run_v4, 'v3': run_v3, 'vv': run_vv, 'avg': run_avg,
          'lookup': run_lookup, 'store': run_store, 'vvtable': check_real_table, 'v4avg': run_avg}


def run_case(ctx, cfg):
    r = cfg.get('route')
    if r == 'vvtable':
        return check_real_table(ctx, cfg if 'levels' in cfg else None)
    if r == 'avg' and not ctx.model_ok and ctx.searching:
        return run_avg(ctx, cfg)
    if r == 'extraction':
        return cross_check_extraction(ctx)
    if r not in ROUTES:
        raise ValueError('unknown route %r' % r)
    if not ctx.model_ok:
        raise RuntimeError('no model binary')
    ROUTES[r](ctx, cfg)


def run(ctx):
    import random
    def needs_model(case):
        return not ctx.model_ok and case.get('route') not in ('avg', 'vvtable')
    for f in ctx.findings:
        if f.get('witness') and not needs_model(f['witness']):
            run_case(ctx, f['witness'])
    corpus = os.path.join(os.path.dirname(os.path.dirname(os.path.dirname(os.path.abspath(__file__)))), 'corpus', 'C15')
    if os.path.isdir(corpus):
        import json
        for fn in sorted(os.listdir(corpus)):
            if fn.endswith('.json'):
                case = json.load(open(os.path.join(corpus, fn)))
                if not needs_model(case):
                    run_case(ctx, case)
    check_real_table(ctx)

    def sub():
        return random.Random(ctx.rng.getrandbits(48))
    if not ctx.model_ok:
        # no model binary at all (a translator item refused the tree and no driver of a good tree is around): the
        # routes that can state the property in Python still search for a failing input
        for _ in range(ctx.scale(8, 40)):
            check_real_table(ctx, gen_vvtable(sub()))
        for gen, n in ((gen_avg, ctx.scale(300, 3000)), (gen_v4avg, ctx.scale(24, 200))):
            for _ in range(n):
                run_avg(ctx, gen(sub()))
        return
    # (route, generator, quick, thorough); VERIF_C15_ROUTES=a,b restricts the run (development aid only)
    plan = [('kernel', gen_kernel, 250, 6000), ('vfw', gen_vfw, 90, 1500), ('store', gen_store, 110, 2000),
            ('lookup', gen_lookup, 16, 200), ('avg', gen_avg, 300, 8000), ('v4', gen_v4, 36, 320), ('v3', gen_v3, 48, 400),
            ('vv', gen_vv, 10, 120), ('vvtable', gen_vvtable, 8, 60), ('v4avg', gen_v4avg, 24, 240)]
    only = [r for r in os.environ.get('VERIF_C15_ROUTES', '').split(',') if r]
    import time
    secs = {}
    batch = {'kernel': prefetch_kernel, 'avg': prefetch_avg, 'v4avg': prefetch_avg}
    for route, gen, nq, nt in plan:
        t0 = time.time()
        cfgs = [gen(sub()) for _ in range(ctx.scale(nq, nt))]
        if only and route not in only:
            continue
        for i in range(0, len(cfgs), 400):
            part = cfgs[i:i + 400]
            if route in batch:
                batch[route](ctx, part)
            for cfg in part:
                ROUTES[route](ctx, cfg)
        secs[route] = round(time.time() - t0, 1)
    ctx.extra.pop('_c15_cache', None)
    ctx.extra['route_seconds'] = secs
    if ctx.tier == 'thorough':
        cross_check_extraction(ctx)
    ctx.exhaustive = False


def replay(ctx, doc):
    run_case(ctx, doc.get('case', {}))
